/-
  C14 helper lemmas: five inductions over the interpreter `exec` of Model/Levels.lean.
    exec_frame : every program preserves `error_level` (ok and exception path), only appends to `errors`/`log`,
                 and touches neither while the level is IMMEDIATE
    exec_L     : two runs whose levels are both lenient (IGNORE/WARN) — or both IMMEDIATE — proceed in lockstep
    exec_W     : a RAISE run against a WARN run: lockstep until RAISE's `check_errors` finds errors
    exec_I     : an IMMEDIATE run against a WARN run: lockstep until the first `raise_error`
    exec_soft  : a WARN run that goes on after the strict run stopped never raises and keeps its first batch/error
  Core Lean only.
-/
import SqlglotModel.Model.Levels
namespace SqlglotModel.Levels

structure Frame (s s' : St) : Prop where
  level : s'.level = s.level
  errs : ∃ a, s'.errors = s.errors ++ a
  log : ∃ b, s'.log = s.log ++ b
  imm : s.level = .immediate → s'.errors = s.errors ∧ s'.log = s.log

theorem Frame.refl (s : St) : Frame s s := ⟨rfl, ⟨[], by simp⟩, ⟨[], by simp⟩, fun _ => ⟨rfl, rfl⟩⟩

theorem Frame.trans {a b c : St} (h1 : Frame a b) (h2 : Frame b c) : Frame a c := by
  obtain ⟨l1, ⟨e1, he1⟩, ⟨g1, hg1⟩, i1⟩ := h1
  obtain ⟨l2, ⟨e2, he2⟩, ⟨g2, hg2⟩, i2⟩ := h2
  refine ⟨by rw [l2, l1], ⟨e1 ++ e2, by rw [he2, he1, List.append_assoc]⟩, ⟨g1 ++ g2, by rw [hg2, hg1, List.append_assoc]⟩, ?_⟩
  intro h
  have := i1 h
  have := i2 (by rw [l1]; exact h)
  grind

def ResFrame (s : St) : Res → Prop
  | .ok _ s' => Frame s s'
  | .exc _ s' => Frame s s'
  | .diverge => True

theorem ResFrame.bind {s : St} {r : Res} {f : Tree → St → Res} (h : ResFrame s r)
    (hf : ∀ t s1, Frame s s1 → ResFrame s1 (f t s1)) : ResFrame s (r.bind f) := by
  cases r with
  | ok t s1 =>
    simp only [Res.bind]
    have := hf t s1 h
    generalize f t s1 = r2 at this
    cases r2 <;> simp_all [ResFrame] <;> exact Frame.trans h this
  | exc e s1 => simpa [Res.bind, ResFrame] using h
  | diverge => trivial

theorem raiseError_frame (m : Msg) (s : St) : ResFrame s (raiseError m s) := by
  unfold raiseError
  split
  · exact Frame.refl s
  · exact ⟨rfl, ⟨[m], rfl⟩, ⟨[], by simp⟩, fun h => by contradiction⟩

theorem raiseAll_frame (ms : List Msg) (s : St) : ResFrame s (raiseAll ms s) := by
  induction ms generalizing s with
  | nil => exact Frame.refl s
  | cons m ms ih =>
    simp only [raiseAll]
    exact (raiseError_frame m s).bind fun _ s1 _ => ih s1

theorem countNode_frame (cfg : Cfg) (s : St) : ResFrame s (countNode cfg s) := by
  unfold countNode
  split
  · exact Frame.refl s
  · simp only
    split
    · have h := raiseError_frame cfg.maxNodesMsg { s with nodes := s.nodes + 1 }
      generalize raiseError cfg.maxNodesMsg { s with nodes := s.nodes + 1 } = r at h
      cases r <;> first | trivial | exact ⟨h.level, h.errs, h.log, h.imm⟩
    · exact ⟨rfl, ⟨[], by simp⟩, ⟨[], by simp⟩, fun _ => ⟨rfl, rfl⟩⟩

theorem validateExpr_frame (cfg : Cfg) (req) (t : Tree) (s : St) : ResFrame s (validateExpr cfg req t s) := by
  unfold validateExpr
  refine (countNode_frame cfg s).bind fun _ s1 _ => ?_
  split
  · exact (raiseAll_frame _ s1).bind fun _ s2 _ => Frame.refl s2
  · exact Frame.refl s1

theorem checkErrors_frame (cfg : Cfg) (s : St) : ResFrame s (checkErrors cfg s) := by
  unfold checkErrors
  split
  · next h => exact ⟨rfl, ⟨[], by simp⟩, ⟨[s.errors], rfl⟩, fun h' => by rw [h] at h'; contradiction⟩
  · split
    · exact Frame.refl s
    · exact Frame.refl s

theorem matchTok_frame (t : Nat) (s : St) : ResFrame s (matchTok t s) := by
  unfold matchTok
  split
  · exact ⟨rfl, ⟨[], by simp⟩, ⟨[], by simp⟩, fun _ => ⟨rfl, rfl⟩⟩
  · exact Frame.refl s

theorem advanceChunk_frame (cfg : Cfg) (s : St) : ResFrame s (advanceChunk cfg s) := by
  unfold advanceChunk
  split
  · exact ⟨rfl, ⟨[], by simp⟩, ⟨[], by simp⟩, fun _ => ⟨rfl, rfl⟩⟩
  · exact Frame.refl s

theorem atEnd_frame (s : St) : ResFrame s (atEnd s) := by
  unfold atEnd
  split <;> exact Frame.refl s

/-- the state after `_try_parse`'s `finally` relative to the state at entry -/
theorem tryFinish_frame {s s' : St} (retreat : Bool) (this : Tree)
    (h : Frame { s with level := .immediate } s') :
    ResFrame s (tryFinish s.pos s.level retreat this s') := by
  have := h.imm rfl
  simp only [tryFinish, ResFrame]
  split <;> exact ⟨rfl, ⟨[], by simp [this.1]⟩, ⟨[], by simp [this.2]⟩, fun _ => ⟨this.1, this.2⟩⟩

theorem exec_frame (cfg : Cfg) (n : Nat) (c : Comb) (s : St) : ResFrame s (exec cfg n c s) := by
  induction n generalizing c s with
  | zero => simp [exec, ResFrame]
  | succ n ih =>
    cases c with
    | eps => exact Frame.refl s
    | tok t => exact matchTok_frame t s
    | node tag a b =>
      simp only [exec]
      exact (ih a s).bind fun ra s1 _ => (ih b s1).bind fun rb s2 _ => Frame.refl s2
    | validate req c =>
      simp only [exec]
      exact (ih c s).bind fun r s1 _ => validateExpr_frame cfg req r s1
    | orElse a b =>
      simp only [exec]
      refine (ih a s).bind fun ra s1 _ => ?_
      split
      · exact Frame.refl s1
      · exact ih b s1
    | andThen a b =>
      simp only [exec]
      refine (ih a s).bind fun ra s1 _ => ?_
      split
      · exact ih b s1
      · exact Frame.refl s1
    | raiseError m => exact raiseError_frame m s
    | tryParse c retreat =>
      simp only [exec]
      have h := ih c { s with level := .immediate }
      generalize exec cfg n c { s with level := .immediate } = r at h
      cases r with
      | ok t s' => exact tryFinish_frame retreat t h
      | exc e s' => exact tryFinish_frame retreat .none h
      | diverge => trivial
    | many c =>
      simp only [exec]
      refine (ih c s).bind fun r s1 _ => ?_
      split
      · exact (ih (.many c) s1).bind fun rest s2 _ => Frame.refl s2
      · exact Frame.refl s1
    | call i =>
      simp only [exec]
      split
      · exact ih _ s
      · exact Frame.refl s
    | checkErrors => exact checkErrors_frame cfg s
    | advanceChunk => exact advanceChunk_frame cfg s
    | atEnd => exact atEnd_frame s
    | subConfined l toks body =>
      simp only [exec]
      generalize exec cfg n body { level := l, toks := toks } = r
      cases r <;> simp only [subFinish, ResFrame] <;> first | exact Frame.refl s | trivial
/-! ### lockstep of two lenient runs (IGNORE / WARN) and of two IMMEDIATE runs -/

def Lenient (l : Level) : Prop := l = .ignore ∨ l = .warn

def LRel (s1 s2 : St) : Prop :=
  s1.ctl = s2.ctl ∧ ((Lenient s1.level ∧ Lenient s2.level) ∨ (s1.level = .immediate ∧ s2.level = .immediate))

def ResL : Res → Res → Prop
  | .ok t1 s1, .ok t2 s2 => t1 = t2 ∧ LRel s1 s2
  | .exc e1 s1, .exc e2 s2 => e1 = e2 ∧ LRel s1 s2 ∧ s1.level = .immediate
  | .diverge, .diverge => True
  | _, _ => False

theorem ResL.bind {r1 r2 : Res} {f g : Tree → St → Res} (h : ResL r1 r2)
    (hf : ∀ t s1 s2, LRel s1 s2 → ResL (f t s1) (g t s2)) : ResL (r1.bind f) (r2.bind g) := by
  cases r1 <;> cases r2 <;> simp_all [ResL, Res.bind]

theorem raiseError_L (m : Msg) {s1 s2 : St} (h : LRel s1 s2) : ResL (raiseError m s1) (raiseError m s2) := by
  obtain ⟨hc, hl⟩ := h
  unfold raiseError
  rcases hl with ⟨h1, h2⟩ | ⟨h1, h2⟩
  · have : s1.level ≠ .immediate := by rcases h1 with h | h <;> simp [h]
    have : s2.level ≠ .immediate := by rcases h2 with h | h <;> simp [h]
    simp_all [ResL, LRel, St.ctl]
  · simp_all [ResL, LRel, St.ctl]

theorem raiseAll_L (ms : List Msg) {s1 s2 : St} (h : LRel s1 s2) : ResL (raiseAll ms s1) (raiseAll ms s2) := by
  induction ms generalizing s1 s2 with
  | nil => exact ⟨rfl, h⟩
  | cons m ms ih =>
    simp only [raiseAll]
    exact (raiseError_L m h).bind fun _ _ _ h' => ih h'

/-- below IMMEDIATE `raise_error` never raises: the messages are appended -/
theorem raiseAll_soft (ms : List Msg) (s : St) (h : s.level ≠ .immediate) :
    raiseAll ms s = .ok .none { s with errors := s.errors ++ ms } := by
  induction ms generalizing s with
  | nil => simp [raiseAll]
  | cons m ms ih =>
    simp only [raiseAll, raiseError, h, if_false, Res.bind]
    rw [ih { s with errors := s.errors ++ [m] } h]
    simp

theorem countNode_L (cfg : Cfg) {s1 s2 : St} (h : LRel s1 s2) : ResL (countNode cfg s1) (countNode cfg s2) := by
  unfold countNode
  split
  · exact ⟨rfl, h⟩
  · have hn : s1.nodes = s2.nodes := by have := h.1; simp [St.ctl] at this; exact this.2.2.2
    simp only [hn]
    split
    · apply raiseError_L
      obtain ⟨hc, hl⟩ := h
      exact ⟨by simp_all [St.ctl], hl⟩
    · obtain ⟨hc, hl⟩ := h
      exact ⟨rfl, by simp_all [St.ctl], hl⟩

theorem validateExpr_L (cfg : Cfg) (req) (t : Tree) {s1 s2 : St} (h : LRel s1 s2) :
    ResL (validateExpr cfg req t s1) (validateExpr cfg req t s2) := by
  unfold validateExpr
  refine (countNode_L cfg h).bind fun _ a b hab => ?_
  obtain ⟨hc, hl⟩ := hab
  rcases hl with ⟨h1, h2⟩ | ⟨h1, h2⟩
  · have i1 : a.level ≠ .immediate := by rcases h1 with h | h <;> simp [h]
    have i2 : b.level ≠ .immediate := by rcases h2 with h | h <;> simp [h]
    rw [raiseAll_soft _ _ i1, raiseAll_soft _ _ i2]
    simp only [Res.bind]
    split <;> split <;> exact ⟨rfl, by simpa [St.ctl] using hc, Or.inl ⟨h1, h2⟩⟩
  · have : LRel a b := ⟨hc, Or.inr ⟨h1, h2⟩⟩
    simp only [h1, h2, ne_eq, reduceCtorEq, not_false_eq_true, if_true]
    exact (raiseAll_L _ this).bind fun _ _ _ h' => ⟨rfl, h'⟩

theorem checkErrors_L (cfg : Cfg) {s1 s2 : St} (h : LRel s1 s2) : ResL (checkErrors cfg s1) (checkErrors cfg s2) := by
  obtain ⟨hc, hl⟩ := h
  unfold checkErrors
  rcases hl with ⟨h1, h2⟩ | ⟨h1, h2⟩
  · rcases h1 with h1 | h1 <;> rcases h2 with h2 | h2 <;>
      simp [h1, h2, ResL, LRel, Lenient] <;> simpa [St.ctl] using hc
  · simp [h1, h2, ResL, LRel]; simpa [St.ctl] using hc

theorem ctl_eq {s1 s2 : St} (h : s1.ctl = s2.ctl) :
    s1.toks = s2.toks ∧ s1.pos = s2.pos ∧ s1.chunk = s2.chunk ∧ s1.nodes = s2.nodes := by
  simpa [St.ctl] using h

theorem matchTok_L (t : Nat) {s1 s2 : St} (h : LRel s1 s2) : ResL (matchTok t s1) (matchTok t s2) := by
  obtain ⟨hc, hl⟩ := h
  obtain ⟨a, b, c, d⟩ := ctl_eq hc
  unfold matchTok
  rw [a, b]
  split
  · exact ⟨rfl, by simp [St.ctl, c, d], hl⟩
  · exact ⟨rfl, hc, hl⟩

theorem advanceChunk_L (cfg : Cfg) {s1 s2 : St} (h : LRel s1 s2) : ResL (advanceChunk cfg s1) (advanceChunk cfg s2) := by
  obtain ⟨hc, hl⟩ := h
  obtain ⟨a, b, c, d⟩ := ctl_eq hc
  unfold advanceChunk
  rw [c]
  split
  · exact ⟨rfl, by simp [St.ctl, d], hl⟩
  · exact ⟨rfl, hc, hl⟩

theorem atEnd_L {s1 s2 : St} (h : LRel s1 s2) : ResL (atEnd s1) (atEnd s2) := by
  obtain ⟨a, b, c, d⟩ := ctl_eq h.1
  unfold atEnd
  rw [a, b]
  split <;> exact ⟨rfl, h⟩

theorem tryFinish_L {s1 s2 a b : St} (h : LRel s1 s2) (hab : LRel a b) (retreat : Bool) (this : Tree) :
    ResL (tryFinish s1.pos s1.level retreat this a) (tryFinish s2.pos s2.level retreat this b) := by
  obtain ⟨_, p, _, _⟩ := ctl_eq h.1
  obtain ⟨a1, a2, a3, a4⟩ := ctl_eq hab.1
  simp only [tryFinish, ResL, true_and]
  split
  · exact ⟨by simp [St.ctl, *], h.2⟩
  · exact ⟨by simp [St.ctl, *], h.2⟩

theorem exec_L (cfg : Cfg) (n : Nat) (c : Comb) {s1 s2 : St} (h : LRel s1 s2) :
    ResL (exec cfg n c s1) (exec cfg n c s2) := by
  induction n generalizing c s1 s2 with
  | zero => simp [exec, ResL]
  | succ n ih =>
    cases c with
    | eps => exact ⟨rfl, h⟩
    | tok t => exact matchTok_L t h
    | node tag a b =>
      simp only [exec]
      exact (ih a h).bind fun ra _ _ h1 => (ih b h1).bind fun rb _ _ h2 => ⟨rfl, h2⟩
    | validate req c =>
      simp only [exec]
      exact (ih c h).bind fun r _ _ h1 => validateExpr_L cfg req r h1
    | orElse a b =>
      simp only [exec]
      refine (ih a h).bind fun ra _ _ h1 => ?_
      split
      · exact ⟨rfl, h1⟩
      · exact ih b h1
    | andThen a b =>
      simp only [exec]
      refine (ih a h).bind fun ra _ _ h1 => ?_
      split
      · exact ih b h1
      · exact ⟨rfl, h1⟩
    | raiseError m => exact raiseError_L m h
    | tryParse c retreat =>
      simp only [exec]
      have hi : LRel { s1 with level := .immediate } { s2 with level := .immediate } :=
        ⟨by simpa [St.ctl] using h.1, Or.inr ⟨rfl, rfl⟩⟩
      have := ih c hi
      generalize exec cfg n c { s1 with level := .immediate } = r1 at this
      generalize exec cfg n c { s2 with level := .immediate } = r2 at this
      cases r1 <;> cases r2 <;> simp only [ResL] at this <;> try contradiction
      · obtain ⟨rfl, hab⟩ := this
        exact tryFinish_L h hab retreat _
      · exact tryFinish_L h this.2.1 retreat _
      · trivial
    | many c =>
      simp only [exec]
      refine (ih c h).bind fun r _ _ h1 => ?_
      split
      · exact (ih (.many c) h1).bind fun rest _ _ h2 => ⟨rfl, h2⟩
      · exact ⟨rfl, h1⟩
    | call i =>
      simp only [exec]
      split
      · exact ih _ h
      · exact ⟨rfl, h⟩
    | checkErrors => exact checkErrors_L cfg h
    | advanceChunk => exact advanceChunk_L cfg h
    | atEnd => exact atEnd_L h
    | subConfined l toks body =>
      simp only [exec]
      generalize exec cfg n body { level := l, toks := toks } = r
      cases r <;> simp only [subFinish, ResL] <;> first | exact ⟨rfl, h⟩ | trivial
/-! ### a WARN run that continues after the strict run has raised: it never raises and keeps what it logged -/

def FirstBatch (b : List Msg) (s : St) : Prop := firstNonempty s.log = some b
def FirstErr (m : Msg) (s : St) : Prop := s.errors.head? = some m

/-- facts about a state that later appends to `errors` / `log` cannot destroy -/
def Stable (Q : St → Prop) : Prop := ∀ s s', Frame s s' → Q s → Q s'

def Soft (Q : St → Prop) : Res → Prop
  | .ok _ s' => s'.level = .warn ∧ Q s'
  | .exc _ _ => False
  | .diverge => True

theorem soft_of {Q : St → Prop} (hQ : Stable Q) {s : St} {r : Res} (hL : ResL r r) (hF : ResFrame s r)
    (hw : s.level = .warn) (hq : Q s) : Soft Q r := by
  cases r with
  | ok t s' => exact ⟨by rw [hF.level, hw], hQ _ _ hF hq⟩
  | exc e s' =>
    have h1 : s'.level = .immediate := hL.2.2
    have h2 : s'.level = s.level := hF.level
    rw [h1, hw] at h2; contradiction
  | diverge => trivial

theorem LRel.refl_warn {s : St} (hw : s.level = .warn) : LRel s s :=
  ⟨rfl, Or.inl ⟨Or.inr hw, Or.inr hw⟩⟩

theorem exec_soft {Q : St → Prop} (hQ : Stable Q) (cfg : Cfg) (n : Nat) (c : Comb) {s : St}
    (hw : s.level = .warn) (hq : Q s) : Soft Q (exec cfg n c s) :=
  soft_of hQ (exec_L cfg n c (LRel.refl_warn hw)) (exec_frame cfg n c s) hw hq

theorem validateExpr_soft {Q : St → Prop} (hQ : Stable Q) (cfg : Cfg) (req) (t : Tree) {s : St}
    (hw : s.level = .warn) (hq : Q s) : Soft Q (validateExpr cfg req t s) :=
  soft_of hQ (validateExpr_L cfg req t (LRel.refl_warn hw)) (validateExpr_frame cfg req t s) hw hq

theorem Soft.bind {Q : St → Prop} {r : Res} {g : Tree → St → Res} (h : Soft Q r)
    (hg : ∀ t s, s.level = .warn → Q s → Soft Q (g t s)) : Soft Q (r.bind g) := by
  cases r with
  | ok t s => exact hg t s h.1 h.2
  | exc e s => exact h
  | diverge => trivial

theorem Soft.pure {Q : St → Prop} {t : Tree} {s : St} (hw : s.level = .warn) (hq : Q s) : Soft Q (.ok t s) := ⟨hw, hq⟩

theorem firstNonempty_append_some {l : List (List Msg)} {b : List Msg} (h : firstNonempty l = some b) (m : List (List Msg)) :
    firstNonempty (l ++ m) = some b := by
  induction l with
  | nil => simp [firstNonempty] at h
  | cons x xs ih =>
    cases x with
    | nil => simp only [firstNonempty, List.cons_append] at h ⊢; exact ih h
    | cons y ys => simpa [firstNonempty] using h

theorem firstNonempty_append_none {l : List (List Msg)} (h : firstNonempty l = none) (m : List (List Msg)) :
    firstNonempty (l ++ m) = firstNonempty m := by
  induction l with
  | nil => simp
  | cons x xs ih =>
    cases x with
    | nil => simp only [firstNonempty, List.cons_append] at h ⊢; exact ih h
    | cons y ys => simp [firstNonempty] at h

theorem stable_firstBatch (b : List Msg) : Stable (FirstBatch b) := by
  intro s s' hF hq
  obtain ⟨m, hm⟩ := hF.log
  simp only [FirstBatch] at hq ⊢
  rw [hm]; exact firstNonempty_append_some hq m

theorem firstErr_append {m : Msg} {s : St} (ms : List Msg) (hq : FirstErr m s) :
    FirstErr m { s with errors := s.errors ++ ms } := by
  simp only [FirstErr] at hq ⊢
  cases h : s.errors with
  | nil => simp [h] at hq
  | cons x xs => simpa [h] using hq

theorem stable_firstError (m : Msg) : Stable (FirstErr m) := by
  intro s s' hF hq
  simp only [FirstErr] at hq ⊢
  obtain ⟨a, ha⟩ := hF.errs
  rw [ha]
  cases h : s.errors with
  | nil => simp [h] at hq
  | cons x xs => simpa [h] using hq

/-! ### RAISE run (left) against WARN run (right) -/

def WRel (s1 s2 : St) : Prop :=
  s1.ctl = s2.ctl ∧ s1.errors = s2.errors ∧ firstNonempty s2.log = none ∧
  ((s1.level = .raise ∧ s2.level = .warn) ∨ (s1.level = .immediate ∧ s2.level = .immediate))

def ResW (cfg : Cfg) : Res → Res → Prop
  | .ok t1 s1, .ok t2 s2 => t1 = t2 ∧ WRel s1 s2
  | .exc e1 s1, .exc e2 s2 => e1 = e2 ∧ WRel s1 s2 ∧ s1.level = .immediate
  | .exc e1 s1, r2 => s1.level = .raise ∧ e1.errors ≠ [] ∧ e1 = Exn.collected e1.errors cfg.maxErrors ∧
      Soft (FirstBatch e1.errors) r2
  | .diverge, .diverge => True
  | _, _ => False

theorem ResW.bind {cfg : Cfg} {r1 r2 : Res} {f g : Tree → St → Res} (h : ResW cfg r1 r2)
    (hf : ∀ t s1 s2, WRel s1 s2 → ResW cfg (f t s1) (g t s2))
    (hg : ∀ b t s, s.level = .warn → FirstBatch b s → Soft (FirstBatch b) (g t s)) :
    ResW cfg (r1.bind f) (r2.bind g) := by
  cases r1 with
  | ok t1 s1 =>
    cases r2 <;> simp only [ResW] at h <;> try contradiction
    obtain ⟨rfl, h⟩ := h
    exact hf _ _ _ h
  | exc e1 s1 =>
    cases r2 with
    | ok t2 s2 =>
      simp only [ResW, Res.bind] at h ⊢
      obtain ⟨a, b, c, d⟩ := h
      have := hg _ t2 s2 d.1 d.2
      generalize g t2 s2 = r at this
      cases r with
      | ok _ _ => exact ⟨a, b, c, this⟩
      | exc _ _ => exact this.elim
      | diverge => exact ⟨a, b, c, trivial⟩
    | exc e2 s2 => exact h
    | diverge => exact h
  | diverge =>
    cases r2 <;> simp only [ResW] at h <;> try contradiction
    trivial
theorem raiseError_W (cfg : Cfg) (m : Msg) {s1 s2 : St} (h : WRel s1 s2) :
    ResW cfg (raiseError m s1) (raiseError m s2) := by
  obtain ⟨hc, he, hn, hl⟩ := h
  unfold raiseError
  rcases hl with ⟨h1, h2⟩ | ⟨h1, h2⟩ <;> simp_all [ResW, WRel, St.ctl]

theorem raiseAll_W (cfg : Cfg) (ms : List Msg) {s1 s2 : St} (h : WRel s1 s2) :
    ResW cfg (raiseAll ms s1) (raiseAll ms s2) := by
  induction ms generalizing s1 s2 with
  | nil => exact ⟨rfl, h⟩
  | cons m ms ih =>
    simp only [raiseAll]
    refine (raiseError_W cfg m h).bind (fun _ _ _ h' => ih h') fun b _ s hw hq => ?_
    rw [raiseAll_soft _ _ (by rw [hw]; simp)]
    exact ⟨hw, hq⟩

theorem countNode_W (cfg : Cfg) {s1 s2 : St} (h : WRel s1 s2) : ResW cfg (countNode cfg s1) (countNode cfg s2) := by
  unfold countNode
  split
  · exact ⟨rfl, h⟩
  · obtain ⟨hc, he, hn, hl⟩ := h
    obtain ⟨a, b, c, d⟩ := ctl_eq hc
    simp only [d]
    split
    · apply raiseError_W
      exact ⟨by simp_all [St.ctl], he, hn, hl⟩
    · exact ⟨rfl, by simp_all [St.ctl], he, hn, hl⟩

theorem validateExpr_W (cfg : Cfg) (req) (t : Tree) {s1 s2 : St} (h : WRel s1 s2) :
    ResW cfg (validateExpr cfg req t s1) (validateExpr cfg req t s2) := by
  unfold validateExpr
  refine (countNode_W cfg h).bind (fun _ a b hab => ?_) fun b _ s hw hq => ?_
  · have n1 : a.level ≠ .ignore := by rcases hab.2.2.2 with h | h <;> simp [h.1]
    have n2 : b.level ≠ .ignore := by rcases hab.2.2.2 with h | h <;> simp [h.2]
    simp only [n1, n2, ne_eq, not_false_eq_true, if_true]
    refine (raiseAll_W cfg _ hab).bind (fun _ _ _ h' => ⟨rfl, h'⟩) fun b _ s hw hq => ⟨hw, hq⟩
  · simp only [hw, ne_eq, reduceCtorEq, not_false_eq_true, if_true]
    rw [raiseAll_soft _ _ (by rw [hw]; simp)]
    exact ⟨hw, hq⟩

theorem checkErrors_W (cfg : Cfg) {s1 s2 : St} (h : WRel s1 s2) : ResW cfg (checkErrors cfg s1) (checkErrors cfg s2) := by
  obtain ⟨hc, he, hn, hl⟩ := h
  unfold checkErrors
  rcases hl with ⟨h1, h2⟩ | ⟨h1, h2⟩
  · simp only [h1, h2, reduceCtorEq, if_false, if_true, true_and]
    by_cases hE : s1.errors = []
    · simp only [hE, ne_eq, not_true_eq_false, if_false]
      refine ⟨rfl, by simpa [St.ctl] using hc, he, ?_, Or.inl ⟨h1, rfl⟩⟩
      simp only
      rw [firstNonempty_append_none hn, ← he, hE]; rfl
    · simp only [hE, ne_eq, not_false_eq_true, if_true]
      refine ⟨h1, hE, rfl, rfl, ?_⟩
      simp only [FirstBatch, Exn.collected]
      rw [firstNonempty_append_none hn, ← he]
      cases h : s1.errors with
      | nil => exact (hE h).elim
      | cons x xs => rfl
  · simp only [h1, h2, reduceCtorEq, if_false, false_and]
    exact ⟨rfl, hc, he, hn, Or.inr ⟨h1, h2⟩⟩

theorem matchTok_W (cfg : Cfg) (t : Nat) {s1 s2 : St} (h : WRel s1 s2) : ResW cfg (matchTok t s1) (matchTok t s2) := by
  obtain ⟨hc, hl⟩ := h
  obtain ⟨a, b, c, d⟩ := ctl_eq hc
  unfold matchTok
  rw [a, b]
  split
  · exact ⟨rfl, by simp [St.ctl, c, d], hl⟩
  · exact ⟨rfl, hc, hl⟩

theorem advanceChunk_W (cfg : Cfg) {s1 s2 : St} (h : WRel s1 s2) : ResW cfg (advanceChunk cfg s1) (advanceChunk cfg s2) := by
  obtain ⟨hc, hl⟩ := h
  obtain ⟨a, b, c, d⟩ := ctl_eq hc
  unfold advanceChunk
  rw [c]
  split
  · exact ⟨rfl, by simp [St.ctl, d], hl⟩
  · exact ⟨rfl, hc, hl⟩

theorem atEnd_W (cfg : Cfg) {s1 s2 : St} (h : WRel s1 s2) : ResW cfg (atEnd s1) (atEnd s2) := by
  obtain ⟨a, b, c, d⟩ := ctl_eq h.1
  unfold atEnd
  rw [a, b]
  split <;> exact ⟨rfl, h⟩

theorem tryFinish_W (cfg : Cfg) {s1 s2 a b : St} (h : WRel s1 s2) (hab : WRel a b) (retreat : Bool) (this : Tree) :
    ResW cfg (tryFinish s1.pos s1.level retreat this a) (tryFinish s2.pos s2.level retreat this b) := by
  obtain ⟨_, p, _, _⟩ := ctl_eq h.1
  obtain ⟨a1, a2, a3, a4⟩ := ctl_eq hab.1
  simp only [tryFinish, ResW, true_and]
  split
  · exact ⟨by simp [St.ctl, *], hab.2.1, hab.2.2.1, h.2.2.2⟩
  · exact ⟨by simp [St.ctl, *], hab.2.1, hab.2.2.1, h.2.2.2⟩

theorem exec_W (cfg : Cfg) (n : Nat) (c : Comb) {s1 s2 : St} (h : WRel s1 s2) :
    ResW cfg (exec cfg n c s1) (exec cfg n c s2) := by
  induction n generalizing c s1 s2 with
  | zero => simp [exec, ResW]
  | succ n ih =>
    have sb := fun b => stable_firstBatch b
    cases c with
    | eps => exact ⟨rfl, h⟩
    | tok t => exact matchTok_W cfg t h
    | node tag a b =>
      simp only [exec]
      exact (ih a h).bind
        (fun ra _ _ h1 => (ih b h1).bind (fun rb _ _ h2 => ⟨rfl, h2⟩) fun _ _ _ hw hq => ⟨hw, hq⟩)
        fun x _ s hw hq => (exec_soft (sb x) cfg n b hw hq).bind fun _ _ hw hq => ⟨hw, hq⟩
    | validate req c =>
      simp only [exec]
      exact (ih c h).bind (fun r _ _ h1 => validateExpr_W cfg req r h1)
        fun x _ s hw hq => validateExpr_soft (sb x) cfg req _ hw hq
    | orElse a b =>
      simp only [exec]
      refine (ih a h).bind (fun ra _ _ h1 => ?_) fun x ra s hw hq => ?_
      · split
        · exact ⟨rfl, h1⟩
        · exact ih b h1
      · split
        · exact ⟨hw, hq⟩
        · exact exec_soft (sb x) cfg n b hw hq
    | andThen a b =>
      simp only [exec]
      refine (ih a h).bind (fun ra _ _ h1 => ?_) fun x ra s hw hq => ?_
      · split
        · exact ih b h1
        · exact ⟨rfl, h1⟩
      · split
        · exact exec_soft (sb x) cfg n b hw hq
        · exact ⟨hw, hq⟩
    | raiseError m => exact raiseError_W cfg m h
    | tryParse c retreat =>
      simp only [exec]
      have hi : WRel { s1 with level := .immediate } { s2 with level := .immediate } :=
        ⟨by simpa [St.ctl] using h.1, h.2.1, h.2.2.1, Or.inr ⟨rfl, rfl⟩⟩
      have := ih c hi
      have f1 := exec_frame cfg n c { s1 with level := .immediate }
      generalize exec cfg n c { s1 with level := .immediate } = r1 at this f1
      generalize exec cfg n c { s2 with level := .immediate } = r2 at this
      cases r1 with
      | ok t1 a =>
        cases r2 <;> simp only [ResW] at this <;> try contradiction
        obtain ⟨rfl, hab⟩ := this
        exact tryFinish_W cfg h hab retreat _
      | exc e1 a =>
        have hl : a.level = .immediate := f1.level
        cases r2 with
        | exc e2 b => exact tryFinish_W cfg h this.2.1 retreat _
        | ok t2 b => simp only [ResW] at this; rw [hl] at this; exact absurd this.1 (by simp)
        | diverge => simp only [ResW] at this; rw [hl] at this; exact absurd this.1 (by simp)
      | diverge =>
        cases r2 <;> simp only [ResW] at this <;> try contradiction
        trivial
    | many c =>
      simp only [exec]
      refine (ih c h).bind (fun r _ _ h1 => ?_) fun x r s hw hq => ?_
      · split
        · exact (ih (.many c) h1).bind (fun rest _ _ h2 => ⟨rfl, h2⟩) fun _ _ _ hw hq => ⟨hw, hq⟩
        · exact ⟨rfl, h1⟩
      · split
        · exact (exec_soft (sb x) cfg n (.many c) hw hq).bind fun _ _ hw hq => ⟨hw, hq⟩
        · exact ⟨hw, hq⟩
    | call i =>
      simp only [exec]
      split
      · exact ih _ h
      · exact ⟨rfl, h⟩
    | checkErrors => exact checkErrors_W cfg h
    | advanceChunk => exact advanceChunk_W cfg h
    | atEnd => exact atEnd_W cfg h
    | subConfined l toks body =>
      simp only [exec]
      generalize exec cfg n body { level := l, toks := toks } = r
      cases r <;> simp only [subFinish, ResW] <;> first | exact ⟨rfl, h⟩ | trivial
/-! ### IMMEDIATE run (left) against WARN run (right) -/

def IRel (s1 s2 : St) : Prop :=
  s1.ctl = s2.ctl ∧ s2.errors = [] ∧ s1.level = .immediate ∧ (s2.level = .warn ∨ s2.level = .immediate)

def ResI : Res → Res → Prop
  | .ok t1 s1, .ok t2 s2 => t1 = t2 ∧ IRel s1 s2
  | .exc e1 _, .exc e2 s2 => e1 = e2 ∧ s2.level = .immediate ∧ ∃ m, e1 = Exn.single m
  | .exc e1 _, r2 => ∃ m, e1 = Exn.single m ∧ Soft (FirstErr m) r2
  | .diverge, .diverge => True
  | _, _ => False

theorem ResI.bind {r1 r2 : Res} {f g : Tree → St → Res} (h : ResI r1 r2)
    (hf : ∀ t s1 s2, IRel s1 s2 → ResI (f t s1) (g t s2))
    (hg : ∀ m t s, s.level = .warn → FirstErr m s → Soft (FirstErr m) (g t s)) :
    ResI (r1.bind f) (r2.bind g) := by
  cases r1 with
  | ok t1 s1 =>
    cases r2 <;> simp only [ResI] at h <;> try contradiction
    obtain ⟨rfl, h⟩ := h
    exact hf _ _ _ h
  | exc e1 s1 =>
    cases r2 with
    | ok t2 s2 =>
      simp only [ResI, Res.bind] at h ⊢
      obtain ⟨m, a, d⟩ := h
      have := hg _ t2 s2 d.1 d.2
      generalize g t2 s2 = r at this
      cases r with
      | ok _ _ => exact ⟨m, a, this⟩
      | exc _ _ => exact this.elim
      | diverge => exact ⟨m, a, trivial⟩
    | exc e2 s2 => exact h
    | diverge => exact h
  | diverge =>
    cases r2 <;> simp only [ResI] at h <;> try contradiction
    trivial

theorem raiseError_I (m : Msg) {s1 s2 : St} (h : IRel s1 s2) : ResI (raiseError m s1) (raiseError m s2) := by
  obtain ⟨hc, he, h1, h2⟩ := h
  unfold raiseError
  rcases h2 with h2 | h2
  · simp only [h1, h2, if_true, reduceCtorEq, if_false, ResI]
    exact ⟨m, rfl, rfl, by simp [FirstErr, he]⟩
  · simp [h1, h2, ResI, Exn.single]

theorem raiseAll_I (ms : List Msg) {s1 s2 : St} (h : IRel s1 s2) : ResI (raiseAll ms s1) (raiseAll ms s2) := by
  induction ms generalizing s1 s2 with
  | nil => exact ⟨rfl, h⟩
  | cons m ms ih =>
    simp only [raiseAll]
    refine (raiseError_I m h).bind (fun _ _ _ h' => ih h') fun b _ s hw hq => ?_
    rw [raiseAll_soft _ _ (by rw [hw]; simp)]
    exact ⟨hw, firstErr_append ms hq⟩

theorem countNode_I (cfg : Cfg) {s1 s2 : St} (h : IRel s1 s2) : ResI (countNode cfg s1) (countNode cfg s2) := by
  unfold countNode
  split
  · exact ⟨rfl, h⟩
  · obtain ⟨hc, he, hl⟩ := h
    obtain ⟨a, b, c, d⟩ := ctl_eq hc
    simp only [d]
    split
    · apply raiseError_I
      exact ⟨by simp_all [St.ctl], he, hl⟩
    · exact ⟨rfl, by simp_all [St.ctl], he, hl⟩

theorem validateExpr_I (cfg : Cfg) (req) (t : Tree) {s1 s2 : St} (h : IRel s1 s2) :
    ResI (validateExpr cfg req t s1) (validateExpr cfg req t s2) := by
  unfold validateExpr
  refine (countNode_I cfg h).bind (fun _ a b hab => ?_) fun m _ s hw hq => ?_
  · have n1 : a.level ≠ .ignore := by simp [hab.2.2.1]
    have n2 : b.level ≠ .ignore := by rcases hab.2.2.2 with h | h <;> simp [h]
    simp only [n1, n2, ne_eq, not_false_eq_true, if_true]
    refine (raiseAll_I _ hab).bind (fun _ _ _ h' => ⟨rfl, h'⟩) fun b _ s hw hq => ⟨hw, hq⟩
  · simp only [hw, ne_eq, reduceCtorEq, not_false_eq_true, if_true]
    rw [raiseAll_soft _ _ (by rw [hw]; simp)]
    exact ⟨hw, firstErr_append _ hq⟩

theorem checkErrors_I (cfg : Cfg) {s1 s2 : St} (h : IRel s1 s2) : ResI (checkErrors cfg s1) (checkErrors cfg s2) := by
  obtain ⟨hc, he, h1, h2⟩ := h
  unfold checkErrors
  rcases h2 with h2 | h2
  · simp only [h1, h2, reduceCtorEq, if_false, if_true, false_and]
    exact ⟨rfl, by simpa [St.ctl] using hc, he, h1, Or.inl rfl⟩
  · simp only [h1, h2, reduceCtorEq, if_false, false_and]
    exact ⟨rfl, hc, he, h1, Or.inr h2⟩

theorem matchTok_I (t : Nat) {s1 s2 : St} (h : IRel s1 s2) : ResI (matchTok t s1) (matchTok t s2) := by
  obtain ⟨hc, hl⟩ := h
  obtain ⟨a, b, c, d⟩ := ctl_eq hc
  unfold matchTok
  rw [a, b]
  split
  · exact ⟨rfl, by simp [St.ctl, c, d], hl⟩
  · exact ⟨rfl, hc, hl⟩

theorem advanceChunk_I (cfg : Cfg) {s1 s2 : St} (h : IRel s1 s2) : ResI (advanceChunk cfg s1) (advanceChunk cfg s2) := by
  obtain ⟨hc, hl⟩ := h
  obtain ⟨a, b, c, d⟩ := ctl_eq hc
  unfold advanceChunk
  rw [c]
  split
  · exact ⟨rfl, by simp [St.ctl, d], hl⟩
  · exact ⟨rfl, hc, hl⟩

theorem atEnd_I {s1 s2 : St} (h : IRel s1 s2) : ResI (atEnd s1) (atEnd s2) := by
  obtain ⟨a, b, c, d⟩ := ctl_eq h.1
  unfold atEnd
  rw [a, b]
  split <;> exact ⟨rfl, h⟩

theorem tryFinish_I {s1 s2 a b : St} (h : IRel s1 s2) (hc : a.ctl = b.ctl) (he : b.errors = [])
    (retreat : Bool) (this : Tree) :
    ResI (tryFinish s1.pos s1.level retreat this a) (tryFinish s2.pos s2.level retreat this b) := by
  obtain ⟨_, p, _, _⟩ := ctl_eq h.1
  obtain ⟨a1, a2, a3, a4⟩ := ctl_eq hc
  simp only [tryFinish, ResI, true_and]
  split
  · exact ⟨by simp [St.ctl, *], he, h.2.2⟩
  · exact ⟨by simp [St.ctl, *], he, h.2.2⟩

theorem exec_I (cfg : Cfg) (n : Nat) (c : Comb) {s1 s2 : St} (h : IRel s1 s2) :
    ResI (exec cfg n c s1) (exec cfg n c s2) := by
  induction n generalizing c s1 s2 with
  | zero => simp [exec, ResI]
  | succ n ih =>
    have sb := fun b => stable_firstError b
    cases c with
    | eps => exact ⟨rfl, h⟩
    | tok t => exact matchTok_I t h
    | node tag a b =>
      simp only [exec]
      exact (ih a h).bind
        (fun ra _ _ h1 => (ih b h1).bind (fun rb _ _ h2 => ⟨rfl, h2⟩) fun _ _ _ hw hq => ⟨hw, hq⟩)
        fun x _ s hw hq => (exec_soft (sb x) cfg n b hw hq).bind fun _ _ hw hq => ⟨hw, hq⟩
    | validate req c =>
      simp only [exec]
      exact (ih c h).bind (fun r _ _ h1 => validateExpr_I cfg req r h1)
        fun x _ s hw hq => validateExpr_soft (sb x) cfg req _ hw hq
    | orElse a b =>
      simp only [exec]
      refine (ih a h).bind (fun ra _ _ h1 => ?_) fun x ra s hw hq => ?_
      · split
        · exact ⟨rfl, h1⟩
        · exact ih b h1
      · split
        · exact ⟨hw, hq⟩
        · exact exec_soft (sb x) cfg n b hw hq
    | andThen a b =>
      simp only [exec]
      refine (ih a h).bind (fun ra _ _ h1 => ?_) fun x ra s hw hq => ?_
      · split
        · exact ih b h1
        · exact ⟨rfl, h1⟩
      · split
        · exact exec_soft (sb x) cfg n b hw hq
        · exact ⟨hw, hq⟩
    | raiseError m => exact raiseError_I m h
    | tryParse c retreat =>
      simp only [exec]
      have hi : IRel { s1 with level := .immediate } { s2 with level := .immediate } :=
        ⟨by simpa [St.ctl] using h.1, h.2.1, rfl, Or.inr rfl⟩
      have := ih c hi
      have f1 := exec_frame cfg n c { s1 with level := .immediate }
      have f2 := exec_frame cfg n c { s2 with level := .immediate }
      have l2 := exec_L cfg n c (s1 := { s1 with level := .immediate }) (s2 := { s2 with level := .immediate })
        ⟨by simpa [St.ctl] using h.1, Or.inr ⟨rfl, rfl⟩⟩
      generalize exec cfg n c { s1 with level := .immediate } = r1 at this f1 l2
      generalize exec cfg n c { s2 with level := .immediate } = r2 at this f2 l2
      cases r1 with
      | ok t1 a =>
        cases r2 <;> simp only [ResI] at this <;> try contradiction
        obtain ⟨rfl, hab⟩ := this
        exact tryFinish_I h hab.1 hab.2.1 retreat _
      | exc e1 a =>
        cases r2 with
        | exc e2 b =>
          have hb : b.errors = [] := by
            have := (f2.imm rfl).1
            simpa [h.2.1] using this
          exact tryFinish_I h l2.2.1.1 hb retreat _
        | ok t2 b => exact l2.elim
        | diverge => exact l2.elim
      | diverge =>
        cases r2 <;> simp only [ResI] at this <;> try contradiction
        trivial
    | many c =>
      simp only [exec]
      refine (ih c h).bind (fun r _ _ h1 => ?_) fun x r s hw hq => ?_
      · split
        · exact (ih (.many c) h1).bind (fun rest _ _ h2 => ⟨rfl, h2⟩) fun _ _ _ hw hq => ⟨hw, hq⟩
        · exact ⟨rfl, h1⟩
      · split
        · exact (exec_soft (sb x) cfg n (.many c) hw hq).bind fun _ _ hw hq => ⟨hw, hq⟩
        · exact ⟨hw, hq⟩
    | call i =>
      simp only [exec]
      split
      · exact ih _ h
      · exact ⟨rfl, h⟩
    | checkErrors => exact checkErrors_I cfg h
    | advanceChunk => exact advanceChunk_I cfg h
    | atEnd => exact atEnd_I h
    | subConfined l toks body =>
      simp only [exec]
      generalize exec cfg n body { level := l, toks := toks } = r
      cases r <;> simp only [subFinish, ResI] <;> first | exact ⟨rfl, h⟩ | trivial


/-! ### generator side -/

theorem unsupportedAll_soft (ds : List (Bool × Msg)) (s : GSt) (h : s.level ≠ .immediate) :
    unsupportedAll ds s = .ok "" { s with messages := s.messages ++ diagMsgs ds } := by
  induction ds generalizing s with
  | nil => simp [unsupportedAll, diagMsgs]
  | cons d ds ih =>
    obtain ⟨b, m⟩ := d
    cases b with
    | false => simpa [unsupportedAll, diagMsgs] using ih s h
    | true =>
      simp only [unsupportedAll, unsupported, h, if_false, if_true, GRes.bind]
      rw [ih { s with messages := s.messages ++ [m] } h]
      simp [diagMsgs]

/-- below IMMEDIATE the generator never raises — provided no direct `raise UnsupportedError` is reached:
    it emits `gtext p` and appends `gmsgs p` -/
theorem gexec_soft (p : GComb) (s : GSt) (h : s.level ≠ .immediate) (hn : gNoHard p = true) :
    gexec p s = .ok (gtext p) { s with messages := s.messages ++ gmsgs p } := by
  induction p generalizing s with
  | text t => simp [gexec, gtext, gmsgs]
  | unsupported m => simp [gexec, unsupported, h, gtext, gmsgs]
  | seq a b iha ihb =>
    simp only [gNoHard, Bool.and_eq_true] at hn
    simp only [gexec, gtext, gmsgs]
    rw [iha s h hn.1]
    simp only [GRes.bind]
    rw [ihb ⟨s.level, s.messages ++ gmsgs a⟩ h hn.2]
    simp
  | unsupportedArgs ds body ih =>
    simp only [gNoHard] at hn
    simp only [gexec, gtext, gmsgs]
    rw [unsupportedAll_soft ds s h]
    simp only [GRes.bind]
    rw [ih ⟨s.level, s.messages ++ diagMsgs ds⟩ h hn]
    simp
  | hard m => simp [gNoHard] at hn

theorem unsupportedAll_imm (ds : List (Bool × Msg)) (s : GSt) (h : s.level = .immediate) :
    unsupportedAll ds s = match diagMsgs ds with
      | [] => .ok "" s
      | m :: _ => .exc [m] 0 s := by
  induction ds with
  | nil => simp [unsupportedAll, diagMsgs]
  | cons d ds ih =>
    obtain ⟨b, m⟩ := d
    cases b with
    | false => simpa [unsupportedAll, diagMsgs] using ih
    | true => simp [unsupportedAll, unsupported, h, GRes.bind, diagMsgs]

/-- under IMMEDIATE the generator raises the first message, or emits `gtext p` untouched if there is none -/
theorem gexec_imm (p : GComb) (s : GSt) (h : s.level = .immediate) (hn : gNoHard p = true) :
    gexec p s = match gmsgs p with
      | [] => .ok (gtext p) s
      | m :: _ => .exc [m] 0 s := by
  induction p with
  | text t => simp [gexec, gtext, gmsgs]
  | unsupported m => simp [gexec, unsupported, h, gmsgs]
  | seq a b iha ihb =>
    simp only [gNoHard, Bool.and_eq_true] at hn
    simp only [gexec, gtext, gmsgs]
    rw [iha hn.1]
    cases ha : gmsgs a with
    | nil =>
      simp only [GRes.bind, List.nil_append]
      rw [ihb hn.2]
      cases hb : gmsgs b <;> simp
    | cons m ms => simp [GRes.bind]
  | unsupportedArgs ds body ih =>
    simp only [gNoHard] at hn
    simp only [gexec, gtext, gmsgs]
    rw [unsupportedAll_imm ds s h]
    cases hd : diagMsgs ds with
    | nil =>
      simp only [GRes.bind, List.nil_append]
      exact ih hn
    | cons m ms => simp [GRes.bind]
  | hard m => simp [gNoHard] at hn

/-- a direct `raise UnsupportedError` is level-blind: whatever the level and the messages so far, it raises -/
theorem gexec_hard (m : Msg) (s : GSt) : gexec (.hard m) s = .exc [m] 0 s := rfl

/-! ### programs without propagating sub-parsers / direct raises are exactly the core programs -/

theorem xexec_confined (cfg : Cfg) (n : Nat) (x : XComb) (s : St) (h : x.confined = true) :
    xexec cfg n x s = exec cfg n x.toComb s := by
  induction n generalizing x s with
  | zero => simp [xexec, exec]
  | succ n ih =>
    cases x with
    | core c => simp [xexec, XComb.toComb]
    | seq tag a b =>
      simp only [XComb.confined, Bool.and_eq_true] at h
      simp only [xexec, XComb.toComb, exec, ih a _ h.1]
      congr 1; funext ra s1; rw [ih b _ h.2]
    | orElse a b =>
      simp only [XComb.confined, Bool.and_eq_true] at h
      simp only [xexec, XComb.toComb, exec, ih a _ h.1]
      congr 1; funext ra s1; rw [ih b _ h.2]
    | tryParse c r =>
      simp only [XComb.confined] at h
      simp only [xexec, XComb.toComb, exec, ih c _ h]
    | subParse l toks body => simp [XComb.confined] at h
    | hardRaise m => simp [XComb.confined] at h

/-! ### every logged batch is a prefix of the error list (errors are never removed) -/

def LogInv (s : St) : Prop := ∀ b ∈ s.log, ∃ r, s.errors = b ++ r

def ResInv : Res → Prop
  | .ok _ s' => LogInv s'
  | .exc _ s' => LogInv s'
  | .diverge => True

theorem ResInv.bind {r : Res} {f : Tree → St → Res} (h : ResInv r)
    (hf : ∀ t s1, LogInv s1 → ResInv (f t s1)) : ResInv (r.bind f) := by
  cases r with
  | ok t s1 => exact hf t s1 h
  | exc e s1 => exact h
  | diverge => trivial

theorem LogInv.append {s : St} (h : LogInv s) (ms : List Msg) : LogInv { s with errors := s.errors ++ ms } := by
  intro b hb
  obtain ⟨r, hr⟩ := h b hb
  exact ⟨r ++ ms, by simp [hr]⟩

theorem raiseError_inv (m : Msg) {s : St} (h : LogInv s) : ResInv (raiseError m s) := by
  unfold raiseError
  split
  · exact h
  · exact h.append [m]

theorem raiseAll_inv (ms : List Msg) {s : St} (h : LogInv s) : ResInv (raiseAll ms s) := by
  induction ms generalizing s with
  | nil => exact h
  | cons m ms ih =>
    simp only [raiseAll]
    exact (raiseError_inv m h).bind fun _ _ h' => ih h'

theorem countNode_inv (cfg : Cfg) {s : St} (h : LogInv s) : ResInv (countNode cfg s) := by
  unfold countNode
  split
  · exact h
  · simp only
    split
    · exact raiseError_inv _ (s := { s with nodes := s.nodes + 1 }) h
    · exact h

theorem validateExpr_inv (cfg : Cfg) (req) (t : Tree) {s : St} (h : LogInv s) : ResInv (validateExpr cfg req t s) := by
  unfold validateExpr
  refine (countNode_inv cfg h).bind fun _ s1 h1 => ?_
  split
  · exact (raiseAll_inv _ h1).bind fun _ _ h2 => h2
  · exact h1

theorem checkErrors_inv (cfg : Cfg) {s : St} (h : LogInv s) : ResInv (checkErrors cfg s) := by
  unfold checkErrors
  split
  · intro b hb
    simp only [List.mem_append, List.mem_singleton] at hb
    rcases hb with hb | rfl
    · exact h b hb
    · exact ⟨[], by simp⟩
  · split <;> exact h

theorem tryFinish_inv (idx : Nat) (saved : Level) (retreat : Bool) (this : Tree) {s : St} (h : LogInv s) :
    ResInv (tryFinish idx saved retreat this s) := by
  simp only [tryFinish, ResInv]
  split <;> exact h

theorem exec_inv (cfg : Cfg) (n : Nat) (c : Comb) {s : St} (h : LogInv s) : ResInv (exec cfg n c s) := by
  induction n generalizing c s with
  | zero => simp [exec, ResInv]
  | succ n ih =>
    cases c with
    | eps => exact h
    | tok t => unfold exec matchTok; split <;> exact h
    | node tag a b =>
      simp only [exec]
      exact (ih a h).bind fun _ _ h1 => (ih b h1).bind fun _ _ h2 => h2
    | validate req c =>
      simp only [exec]
      exact (ih c h).bind fun r _ h1 => validateExpr_inv cfg req r h1
    | orElse a b =>
      simp only [exec]
      refine (ih a h).bind fun _ _ h1 => ?_
      split
      · exact h1
      · exact ih b h1
    | andThen a b =>
      simp only [exec]
      refine (ih a h).bind fun _ _ h1 => ?_
      split
      · exact ih b h1
      · exact h1
    | raiseError m => exact raiseError_inv m h
    | tryParse c retreat =>
      simp only [exec]
      have := ih c (s := { s with level := .immediate }) h
      generalize exec cfg n c { s with level := .immediate } = r at this
      cases r with
      | ok t a => exact tryFinish_inv _ _ _ _ this
      | exc e a => exact tryFinish_inv _ _ _ _ this
      | diverge => trivial
    | many c =>
      simp only [exec]
      refine (ih c h).bind fun _ _ h1 => ?_
      split
      · exact (ih (.many c) h1).bind fun _ _ h2 => h2
      · exact h1
    | call i =>
      simp only [exec]
      split
      · exact ih _ h
      · exact h
    | checkErrors => exact checkErrors_inv cfg h
    | advanceChunk => unfold exec advanceChunk; split <;> exact h
    | atEnd => unfold exec atEnd; split <;> exact h
    | subConfined l toks body =>
      simp only [exec]
      generalize exec cfg n body { level := l, toks := toks } = r
      cases r <;> simp only [subFinish, ResInv] <;> first | exact h | trivial

theorem init_inv (l : Level) : LogInv (init l) := by
  intro b hb; simp [init] at hb

theorem init_L : LRel (init .ignore) (init .warn) := ⟨rfl, Or.inl ⟨Or.inl rfl, Or.inr rfl⟩⟩
theorem init_W : WRel (init .raise) (init .warn) := ⟨rfl, rfl, rfl, Or.inl ⟨rfl, rfl⟩⟩
theorem init_I : IRel (init .immediate) (init .warn) := ⟨rfl, rfl, rfl, Or.inl rfl⟩

theorem firstNonempty_some_mem {l : List (List Msg)} {b : List Msg} (h : firstNonempty l = some b) : b ∈ l ∧ b ≠ [] := by
  induction l with
  | nil => simp [firstNonempty] at h
  | cons x xs ih =>
    cases x with
    | nil => simp only [firstNonempty] at h; exact ⟨List.mem_cons_of_mem _ (ih h).1, (ih h).2⟩
    | cons y ys => simp only [firstNonempty, Option.some.injEq] at h; subst h; simp

theorem firstNonempty_none_all {l : List (List Msg)} (h : firstNonempty l = none) : ∀ b ∈ l, b = [] := by
  induction l with
  | nil => simp
  | cons x xs ih =>
    cases x with
    | nil => simp only [firstNonempty] at h; intro b hb; cases hb with
      | head => rfl
      | tail _ hb => exact ih h b hb
    | cons y ys => simp [firstNonempty] at h


end SqlglotModel.Levels
