/- Helper lemmas for C18: the nested dict / nested trie refine the flat view on uniform-depth structures. -/
import SqlglotModel.Model.SchemaTree
import SqlglotModel.Proofs.SchemaMemo
import SqlglotModel.Proofs.Schema

namespace SqlglotModel.Schema

/-! ### association lists with distinct keys -/

theorem mem_of_lookup {α β} [DecidableEq α] {l : List (α × β)} {k : α} {v : β} (h : lookup l k = some v) :
    (k, v) ∈ l := by
  induction l with
  | nil => simp [lookup] at h
  | cons x xs ih =>
    obtain ⟨k', v'⟩ := x
    simp only [lookup] at h
    split at h
    · rename_i e; subst e; injection h with h; subst h; simp
    · simp [ih h]

theorem lookup_of_mem_nodup {α β} [DecidableEq α] {l : List (α × β)} (hn : (l.map (·.1)).Nodup) {k : α} {v : β}
    (h : (k, v) ∈ l) : lookup l k = some v := by
  induction l with
  | nil => cases h
  | cons x xs ih =>
    obtain ⟨k', v'⟩ := x
    simp only [List.map_cons, List.nodup_cons] at hn
    simp only [lookup]
    cases h with
    | head => simp
    | tail _ h =>
      have : k' ≠ k := by
        intro e; subst e
        exact hn.1 (List.mem_map.mpr ⟨(k', v), h, rfl⟩)
      simp [this, ih hn.2 h]

theorem lookup_none_iff {α β} [DecidableEq α] {l : List (α × β)} {k : α} :
    lookup l k = none ↔ k ∉ l.map (·.1) := by
  induction l with
  | nil => simp [lookup]
  | cons x xs ih =>
    obtain ⟨k', v'⟩ := x
    simp only [lookup, List.map_cons, List.mem_cons, not_or]
    by_cases e : k' = k
    · simp [e]
    · simp [e, ih, Ne.symm e]

theorem mem_dictSet {α β} [DecidableEq α] {l : List (α × β)} {a : α} {b : β} {kv : α × β}
    (h : kv ∈ dictSet l a b) : kv = (a, b) ∨ kv ∈ l := by
  induction l with
  | nil => simp [dictSet] at h; exact Or.inl h
  | cons x xs ih =>
    obtain ⟨k', v'⟩ := x
    simp only [dictSet] at h
    split at h
    · rename_i e; subst e
      cases h with
      | head => exact Or.inl rfl
      | tail _ h => exact Or.inr (List.mem_cons_of_mem _ h)
    · cases h with
      | head => exact Or.inr (List.mem_cons_self ..)
      | tail _ h =>
        rcases ih h with h | h
        · exact Or.inl h
        · exact Or.inr (List.mem_cons_of_mem _ h)

theorem nodup_dictSet {α β} [DecidableEq α] {l : List (α × β)} (hn : (l.map (·.1)).Nodup) (a : α) (b : β) :
    ((dictSet l a b).map (·.1)).Nodup := by
  rw [mem_map_fst_dictSet]
  split
  · exact hn
  · rename_i h
    rw [List.nodup_append]
    refine ⟨hn, by simp, ?_⟩
    intro x hx y hy
    simp at hy; subst hy
    intro e; subst e; exact h hx

theorem dictSet_ne_nil {α β} [DecidableEq α] (l : List (α × β)) (a : α) (b : β) : dictSet l a b ≠ [] := by
  cases l with
  | nil => simp [dictSet]
  | cons x xs => obtain ⟨k, v⟩ := x; simp only [dictSet]; split <;> simp

/-! ### the nested mapping -/

/-- shape of a mapping whose tables sit exactly `d` levels deep (dict keys are distinct) -/
def Shape : Nat → Tree → Prop
  | 0, t => ∃ cols, t = .leaf cols
  | d + 1, t => ∃ kids, t = .node kids ∧ (kids.map (·.1)).Nodup ∧ ∀ kv ∈ kids, Shape d kv.2

/-- … and no namespace level is empty -/
def Uniform : Nat → Tree → Prop
  | 0, t => ∃ cols, t = .leaf cols
  | d + 1, t => ∃ kids, t = .node kids ∧ kids ≠ [] ∧ (kids.map (·.1)).Nodup ∧ ∀ kv ∈ kids, Uniform d kv.2

theorem Uniform.shape : ∀ {d t}, Uniform d t → Shape d t
  | 0, _, h => h
  | d + 1, _, ⟨kids, e, _, hn, hk⟩ => ⟨kids, e, hn, fun kv hkv => (hk kv hkv).shape⟩

theorem shape_empty (d : Nat) : Shape (d + 1) (.node []) := ⟨[], rfl, by simp, by simp⟩

/-- looking a path up in the flat view = walking the nested dict -/
theorem lookup_flatView_node (d : Nat) (kids : List (Name × Tree)) (hn : (kids.map (·.1)).Nodup) (k : Name)
    (q : Path) :
    lookup (flatView (d + 1) (.node kids)) (k :: q) =
      match lookup kids k with
      | some sub => lookup (flatView d sub) q
      | none => none := by
  induction kids with
  | nil => simp [flatView, lookup]
  | cons x xs ih =>
    obtain ⟨k', s'⟩ := x
    simp only [List.map_cons, List.nodup_cons] at hn
    have hflat : flatView (d + 1) (.node ((k', s') :: xs)) =
        (flatView d s').map (fun pc => (k' :: pc.1, pc.2)) ++ flatView (d + 1) (.node xs) := by
      simp [flatView]
    rw [hflat]
    have happ : ∀ (l1 l2 : List (Path × Cols)) (p : Path),
        lookup (l1 ++ l2) p = match lookup l1 p with | some v => some v | none => lookup l2 p := by
      intro l1 l2 p
      induction l1 with
      | nil => simp [lookup]
      | cons y ys ihy => obtain ⟨a, b⟩ := y; simp only [List.cons_append, lookup]; split <;> simp [ihy]
    have hmap : ∀ (l : List (Path × Cols)) (p : Path),
        lookup (l.map (fun pc => (k' :: pc.1, pc.2))) (k :: p) = if k' = k then lookup l p else none := by
      intro l p
      induction l with
      | nil => simp [lookup]
      | cons y ys ihy =>
        obtain ⟨a, b⟩ := y
        simp only [List.map_cons, lookup, List.cons.injEq, ihy]
        by_cases e : k' = k
        · simp [e]
        · simp [e]
    rw [happ, hmap]
    simp only [lookup]
    by_cases e : k' = k
    · subst e
      simp only [if_true]
      cases hl : lookup (flatView d s') q with
      | some v => rfl
      | none =>
        simp only
        rw [ih hn.2]
        have : lookup xs k' = none := lookup_none_iff.mpr hn.1
        simp [this]
    · simp only [e, if_false]
      exact ih hn.2

theorem lookup_flatView_nil (d : Nat) (kids : List (Name × Tree)) :
    lookup (flatView (d + 1) (.node kids)) [] = none := by
  rw [lookup_none_iff]
  simp only [flatView, List.map_flatMap, List.mem_flatMap, List.mem_map, not_exists, not_and]
  intro kv _ p hp
  obtain ⟨pc, _, e⟩ := hp
  intro e2; rw [← e] at e2; cases e2

/-- **nested_get refines the flat lookup** -/
theorem nestedGet_flatView : ∀ (d : Nat) (m : Tree) (path : Path), Shape d m → path.length = d →
    nestedGet m path = match lookup (flatView d m) path with
      | some c => .found (.leaf c)
      | none => .missing
  | 0, m, path, ⟨cols, e⟩, hl => by
    subst e
    have : path = [] := List.length_eq_zero_iff.mp hl
    subst this
    simp [nestedGet, flatView, lookup]
  | d + 1, m, path, ⟨kids, e, hn, hk⟩, hl => by
    subst e
    match path, hl with
    | k :: rest, hl =>
      rw [lookup_flatView_node d kids hn]
      simp only [nestedGet]
      cases hlk : lookup kids k with
      | none => rfl
      | some sub =>
        simp only
        exact nestedGet_flatView d sub rest (hk _ (mem_of_lookup hlk)) (by simpa using hl)

/-- **nested_set refines the flat `dict[path] = cols`** (as finite maps), and keeps the shape -/
theorem flatView_nestedSet : ∀ (d : Nat) (m : Tree) (path : Path) (c : Cols), Shape (d + 1) m →
    path.length = d + 1 →
    Shape (d + 1) (nestedSet m path (.leaf c)) ∧
    ∀ q, lookup (flatView (d + 1) (nestedSet m path (.leaf c))) q =
      if path = q then some c else lookup (flatView (d + 1) m) q
  | 0, m, path, c, ⟨kids, e, hn, hk⟩, hl => by
    subst e
    match path, hl with
    | [k], _ =>
      simp only [nestedSet]
      refine ⟨⟨_, rfl, nodup_dictSet hn _ _, ?_⟩, ?_⟩
      · intro kv hkv
        rcases mem_dictSet hkv with h | h
        · subst h; exact ⟨c, rfl⟩
        · exact hk kv h
      · intro q
        cases q with
        | nil => simp [lookup_flatView_nil]
        | cons k2 q' =>
          rw [lookup_flatView_node 0 _ (nodup_dictSet hn _ _), lookup_flatView_node 0 _ hn, lookup_dictSet]
          by_cases e : k = k2
          · subst e
            simp only [if_true, flatView, lookup, List.cons.injEq, true_and]
            by_cases e2 : q' = []
            · subst e2; simp
            · simp only [Ne.symm e2, if_false, e2]
              cases hlk : lookup kids k with
              | none => rfl
              | some sub =>
                obtain ⟨cols, ec⟩ := hk _ (mem_of_lookup hlk)
                simp only at ec
                subst ec
                simp [flatView, lookup, Ne.symm e2]
          · simp [e]
  | d + 1, m, path, c, ⟨kids, e, hn, hk⟩, hl => by
    subst e
    match path, hl with
    | k :: k1 :: rest, hl =>
      have hlen : (k1 :: rest).length = d + 1 := by simpa using hl
      simp only [nestedSet]
      -- the sub-dict we descend into (existing, or a fresh `{}`)
      have key : ∀ (sub : Tree), Shape (d + 1) sub →
          (match lookup kids k with | some s => lookup (flatView (d + 1) s) | none => fun _ => none) =
            lookup (flatView (d + 1) sub) →
          Shape (d + 2) (.node (dictSet kids k (nestedSet sub (k1 :: rest) (.leaf c)))) ∧
          ∀ q, lookup (flatView (d + 2) (.node (dictSet kids k (nestedSet sub (k1 :: rest) (.leaf c))))) q =
            if k :: k1 :: rest = q then some c else lookup (flatView (d + 2) (.node kids)) q := by
        intro sub hsub hsame
        have ih := flatView_nestedSet d sub (k1 :: rest) c hsub hlen
        refine ⟨⟨_, rfl, nodup_dictSet hn _ _, ?_⟩, ?_⟩
        · intro kv hkv
          rcases mem_dictSet hkv with h | h
          · subst h; exact ih.1
          · exact hk kv h
        · intro q
          cases q with
          | nil => simp [lookup_flatView_nil]
          | cons k2 q' =>
            rw [lookup_flatView_node _ _ (nodup_dictSet hn _ _), lookup_flatView_node _ _ hn, lookup_dictSet]
            by_cases e : k = k2
            · subst e
              simp only [if_true, List.cons.injEq, true_and]
              rw [ih.2 q']
              split
              · rfl
              · have := congrFun hsame q'
                rw [← this]
                cases lookup kids k <;> rfl
            · simp [e]
      cases hlk : lookup kids k with
      | some sub =>
        simp only
        refine key sub (hk _ (mem_of_lookup hlk)) ?_
        simp [hlk]
      | none =>
        simp only
        refine key (.node []) (shape_empty d) ?_
        funext q
        simp [hlk, flatView, lookup]

/-- `Shape` is kept by `nested_set`, `Uniform` too -/
theorem uniform_nestedSet : ∀ (d : Nat) (m : Tree) (path : Path) (c : Cols),
    (Uniform (d + 1) m ∨ m = .node []) → path.length = d + 1 → Uniform (d + 1) (nestedSet m path (.leaf c))
  | 0, m, path, c, hm, hl => by
    match path, hl with
    | [k], _ =>
      rcases hm with ⟨kids, e, _, hn, hk⟩ | e
      · subst e
        refine ⟨_, rfl, dictSet_ne_nil _ _ _, nodup_dictSet hn _ _, ?_⟩
        intro kv hkv
        rcases mem_dictSet hkv with h | h
        · subst h; exact ⟨c, rfl⟩
        · exact hk kv h
      · subst e
        exact ⟨_, rfl, by simp [dictSet], by simp [dictSet], by simp [dictSet, Uniform]⟩
  | d + 1, m, path, c, hm, hl => by
    match path, hl with
    | k :: k1 :: rest, hl =>
      have hlen : (k1 :: rest).length = d + 1 := by simpa using hl
      rcases hm with ⟨kids, e, _, hn, hk⟩ | e
      · subst e
        simp only [nestedSet]
        cases hlk : lookup kids k with
        | some sub =>
          refine ⟨_, rfl, dictSet_ne_nil _ _ _, nodup_dictSet hn _ _, ?_⟩
          intro kv hkv
          rcases mem_dictSet hkv with h | h
          · subst h; exact uniform_nestedSet d sub _ c (Or.inl (hk _ (mem_of_lookup hlk))) hlen
          · exact hk kv h
        | none =>
          refine ⟨_, rfl, dictSet_ne_nil _ _ _, nodup_dictSet hn _ _, ?_⟩
          intro kv hkv
          rcases mem_dictSet hkv with h | h
          · subst h; exact uniform_nestedSet d _ _ c (Or.inr rfl) hlen
          · exact hk kv h
      · subst e
        simp only [nestedSet, lookup]
        refine ⟨_, rfl, by simp [dictSet], by simp [dictSet], ?_⟩
        intro kv hkv
        simp only [dictSet, List.mem_singleton] at hkv
        subst hkv
        exact uniform_nestedSet d _ _ c (Or.inr rfl) hlen

/-- `dict_depth` of a uniform mapping is its number of levels (+1 for the column dicts) -/
theorem dictDepth_uniform : ∀ (d : Nat) (m : Tree), Uniform d m → dictDepth m = d + 1
  | 0, _, ⟨cols, e⟩ => by subst e; rfl
  | d + 1, _, ⟨kids, e, hne, _, hk⟩ => by
    subst e
    match kids, hne, hk with
    | (k, t) :: rest, _, hk =>
      simp only [dictDepth]
      rw [dictDepth_uniform d t (hk _ (List.mem_cons_self ..))]
      omega

/-- the first path of the flat view of a uniform mapping has length `d` (so `St.depth` reads `d`) -/
theorem flatView_head : ∀ (d : Nat) (m : Tree), Uniform d m →
    ∃ p c rest, flatView d m = (p, c) :: rest ∧ p.length = d
  | 0, _, ⟨cols, e⟩ => by subst e; exact ⟨[], cols, [], rfl, rfl⟩
  | d + 1, _, ⟨kids, e, hne, _, hk⟩ => by
    subst e
    match kids, hne, hk with
    | (k, t) :: rest, _, hk =>
      obtain ⟨p, c, r, e, hl⟩ := flatView_head d t (hk _ (List.mem_cons_self ..))
      refine ⟨k :: p, c, r.map (fun pc => (k :: pc.1, pc.2)) ++ flatView (d + 1) (.node rest), ?_, by simp [hl]⟩
      simp [flatView, e]

theorem flatView_lengths : ∀ (d : Nat) (m : Tree) (pc : Path × Cols), pc ∈ flatView d m → pc.1.length = d
  | 0, .leaf cols, pc, h => by simp [flatView] at h; subst h; rfl
  | 0, .node _, pc, h => by simp [flatView] at h
  | d + 1, .leaf _, pc, h => by simp [flatView] at h
  | d + 1, .node kids, pc, h => by
    simp only [flatView, List.mem_flatMap, List.mem_map] at h
    obtain ⟨kv, _, pc', hpc', e⟩ := h
    subst e
    simp [flatView_lengths d kv.2 pc' hpc']

/-- **flatten_schema refines the flat view's key list** -/
theorem flatten_flatView : ∀ (d : Nat) (m : Tree) (keys : List Name), Shape (d + 1) m →
    flatten (d + 1) keys m = (flatView (d + 1) m).map (fun pc => keys ++ pc.1)
  | 0, _, keys, ⟨kids, e, hn, hk⟩ => by
    subst e
    clear hn
    simp only [flatten, flatView]
    induction kids with
    | nil => rfl
    | cons x xs ih =>
      obtain ⟨cols, ec⟩ := hk x (List.mem_cons_self ..)
      obtain ⟨k, t⟩ := x
      simp only at ec; subst ec
      simp only [List.map_cons, List.flatMap_cons, flatView, List.map_nil, List.cons_append, List.nil_append,
        List.cons.injEq, true_and]
      exact ih (fun kv h => hk kv (List.mem_cons_of_mem _ h))
  | d + 1, _, keys, ⟨kids, e, hn, hk⟩ => by
    subst e
    clear hn
    simp only [flatten, flatView]
    induction kids with
    | nil => rfl
    | cons x xs ih =>
      obtain ⟨k, t⟩ := x
      simp only [List.flatMap_cons, List.map_append]
      rw [ih (fun kv h => hk kv (List.mem_cons_of_mem _ h)),
        flatten_flatView d t _ (hk _ (List.mem_cons_self ..))]
      simp [List.map_map, Function.comp_def]

/-! ### the nested trie -/

/-- a trie all of whose keys have length `d`, with distinct dict keys and no dead branch -/
def UniformT : Nat → Trie → Prop
  | 0, t => t = .node true []
  | d + 1, t => ∃ kids, t = .node false kids ∧ kids ≠ [] ∧ (kids.map (·.1)).Nodup ∧ ∀ kv ∈ kids, UniformT d kv.2

theorem keysAt_length : ∀ (d : Nat) (t : Trie) (q : List Name), q ∈ keysAt d t → q.length = d
  | 0, .node term _, q, h => by
    simp only [keysAt] at h
    split at h
    · simp at h; subst h; rfl
    · cases h
  | d + 1, .node _ kids, q, h => by
    simp only [keysAt, List.mem_flatMap, List.mem_map] at h
    obtain ⟨kv, _, q', hq', e⟩ := h
    subst e
    simp [keysAt_length d kv.2 q' hq']

theorem keysAt_ne_nil : ∀ (d : Nat) (t : Trie), UniformT d t → keysAt d t ≠ []
  | 0, _, e => by cases e; simp [keysAt]
  | d + 1, _, ⟨kids, e, hne, _, hk⟩ => by
    subst e
    match kids, hne, hk with
    | (k, t) :: rest, _, hk =>
      have := keysAt_ne_nil d t (hk _ (List.mem_cons_self ..))
      cases hq : keysAt d t with
      | nil => exact absurd hq this
      | cons a as => simp [keysAt, hq]

theorem keysAt_nodup : ∀ (d : Nat) (t : Trie), UniformT d t → (keysAt d t).Nodup
  | 0, _, e => by cases e; simp [keysAt]
  | d + 1, _, ⟨kids, e, _, hn, hk⟩ => by
    subst e
    simp only [keysAt, List.Nodup, List.pairwise_flatMap]
    refine ⟨?_, ?_⟩
    · intro kv hkv
      rw [List.pairwise_map]
      exact (keysAt_nodup d kv.2 (hk kv hkv)).imp (by intro a b hab e; exact hab (List.cons.inj e).2)
    · have : List.Pairwise (fun a b : Name × Trie => a.1 ≠ b.1) kids := by
        have := hn; rw [List.Nodup, List.pairwise_map] at this; exact this
      refine this.imp ?_
      intro a b hab x hx y hy e
      simp only [List.mem_map] at hx hy
      obtain ⟨x', _, ex⟩ := hx
      obtain ⟨y', _, ey⟩ := hy
      rw [← ex, ← ey] at e
      exact hab (List.cons.inj e).1

/-- membership in the key list = walking the nested trie -/
theorem mem_keysAt_node (d : Nat) (term : Bool) (kids : List (Name × Trie)) (hn : (kids.map (·.1)).Nodup)
    (k : Name) (q : List Name) :
    k :: q ∈ keysAt (d + 1) (.node term kids) ↔ ∃ sub, lookup kids k = some sub ∧ q ∈ keysAt d sub := by
  simp only [keysAt, List.mem_flatMap, List.mem_map]
  constructor
  · rintro ⟨kv, hkv, q', hq', e⟩
    obtain ⟨k', s'⟩ := kv
    simp only [List.cons.injEq] at e
    obtain ⟨e1, e2⟩ := e
    subst e1 e2
    exact ⟨s', lookup_of_mem_nodup hn hkv, hq'⟩
  · rintro ⟨sub, hl, hq⟩
    exact ⟨(k, sub), mem_of_lookup hl, q, hq, rfl⟩

theorem nil_not_mem_keysAt (d : Nat) (t : Trie) : [] ∉ keysAt (d + 1) t := by
  intro h; have := keysAt_length _ _ _ h; simp at this

/-- **new_trie([key], trie)** adds exactly that key and keeps the trie uniform -/
theorem trieInsert_spec : ∀ (key : List Name) (d : Nat) (t : Trie), (UniformT d t ∨ t = Trie.empty) →
    key.length = d →
    UniformT d (trieInsert t key) ∧ ∀ q, q ∈ keysAt d (trieInsert t key) ↔ (q = key ∨ q ∈ keysAt d t)
  | [], d, t, ht, hl => by
    simp only [List.length_nil] at hl
    subst hl
    rcases ht with e | e
    · cases e; simp [trieInsert, UniformT, keysAt]
    · subst e; simp [trieInsert, Trie.empty, UniformT, keysAt]
  | k :: rest, d, t, ht, hl => by
    match d, hl with
    | d + 1, hl =>
      have hlen : rest.length = d := by simpa using hl
      -- common shape: t = node false kids with distinct keys and uniform children
      have hshape : ∃ kids, t = .node false kids ∧ (kids.map (·.1)).Nodup ∧ ∀ kv ∈ kids, UniformT d kv.2 := by
        rcases ht with ⟨kids, e, _, hn, hk⟩ | e
        · exact ⟨kids, e, hn, hk⟩
        · exact ⟨[], e, by simp, by simp⟩
      obtain ⟨kids, e, hn, hk⟩ := hshape
      subst e
      have step : ∀ (sub : Trie), (UniformT d sub ∨ sub = Trie.empty) →
          (∀ q, (∃ s, lookup kids k = some s ∧ q ∈ keysAt d s) ↔ q ∈ keysAt d sub) →
          UniformT (d + 1) (.node false (dictSet kids k (trieInsert sub rest))) ∧
          ∀ q, q ∈ keysAt (d + 1) (.node false (dictSet kids k (trieInsert sub rest))) ↔
            (q = k :: rest ∨ q ∈ keysAt (d + 1) (.node false kids)) := by
        intro sub hsub hsame
        have ih := trieInsert_spec rest d sub hsub hlen
        refine ⟨⟨_, rfl, dictSet_ne_nil _ _ _, nodup_dictSet hn _ _, ?_⟩, ?_⟩
        · intro kv hkv
          rcases mem_dictSet hkv with h | h
          · subst h; exact ih.1
          · exact hk kv h
        · intro q
          cases q with
          | nil =>
            simp only [reduceCtorEq, false_or]
            exact ⟨fun h => absurd h (nil_not_mem_keysAt _ _), fun h => absurd h (nil_not_mem_keysAt _ _)⟩
          | cons k2 q' =>
            rw [mem_keysAt_node _ _ _ (nodup_dictSet hn _ _), mem_keysAt_node _ _ _ hn]
            simp only [lookup_dictSet, List.cons.injEq]
            by_cases e : k = k2
            · subst e
              simp only [if_true, Option.some.injEq, exists_eq_left', true_and]
              rw [ih.2 q', ← hsame q']
            · simp only [e, if_false]
              constructor
              · exact Or.inr
              · rintro (⟨h1, _⟩ | h)
                · exact absurd h1.symm e
                · exact h
      simp only [trieInsert]
      cases hlk : lookup kids k with
      | some sub =>
        simp only
        refine step sub (Or.inl (hk _ (mem_of_lookup hlk))) ?_
        intro q
        exact ⟨fun ⟨s, hs, hq⟩ => by rw [hlk] at hs; cases hs; exact hq, fun hq => ⟨sub, hlk, hq⟩⟩
      | none =>
        refine step Trie.empty (Or.inr rfl) ?_
        intro q
        simp only [hlk, reduceCtorEq, false_and, exists_false, false_iff]
        cases d with
        | zero => simp [Trie.empty, keysAt]
        | succ d => simp [Trie.empty, keysAt]


theorem filter_prefix_one (L : List (List Name)) (k k' : Name) (rest : List Name) :
    (((L.map (fun q => k' :: q)).filter (fun q => (k :: rest).isPrefixOf q)).map (List.drop (rest.length + 1))) =
      if k = k' then (L.filter (fun q => rest.isPrefixOf q)).map (List.drop rest.length) else [] := by
  induction L with
  | nil => simp
  | cons a as ih =>
    simp only [List.map_cons, List.filter_cons, List.isPrefixOf_cons_cons]
    by_cases e : k = k'
    · subst e
      simp only [beq_self_eq_true, Bool.true_and, if_true] at ih ⊢
      split
      · simp [ih]
      · exact ih
    · have : (k == k') = false := by simpa using e
      simp only [this, Bool.false_and, e, if_false] at ih ⊢
      exact ih

theorem filter_prefix_flatMap (d : Nat) (kids : List (Name × Trie)) (hn : (kids.map (·.1)).Nodup) (k : Name)
    (rest : List Name) :
    ((kids.flatMap (fun kv => (keysAt d kv.2).map (fun q => kv.1 :: q))).filter
        (fun q => (k :: rest).isPrefixOf q)).map (List.drop (rest.length + 1)) =
      match lookup kids k with
      | some sub => ((keysAt d sub).filter (fun q => rest.isPrefixOf q)).map (List.drop rest.length)
      | none => [] := by
  induction kids with
  | nil => simp [lookup]
  | cons x xs ih =>
    obtain ⟨k', s'⟩ := x
    simp only [List.map_cons, List.nodup_cons] at hn
    simp only [List.flatMap_cons, List.filter_append, List.map_append, filter_prefix_one, lookup]
    by_cases e : k = k'
    · subst e
      simp only [if_true]
      have : lookup xs k = none := lookup_none_iff.mpr hn.1
      rw [ih hn.2, this]
      simp
    · simp only [e, if_false, List.nil_append, Ne.symm e]
      exact ih hn.2

/-- the walk of `in_trie` against the key list -/
theorem trieWalk_spec : ∀ (key : List Name) (d : Nat) (t : Trie), UniformT d t → key.length ≤ d →
    match trieWalk t key with
    | some sub => UniformT (d - key.length) sub ∧
        ((keysAt d t).filter (fun q => key.isPrefixOf q)).map (List.drop key.length) = keysAt (d - key.length) sub
    | none => (keysAt d t).filter (fun q => key.isPrefixOf q) = []
  | [], d, t, ht, _ => by
    have : (keysAt d t).filter (fun q => ([] : List Name).isPrefixOf q) = keysAt d t := by
      rw [List.filter_eq_self]; intro a _; simp
    simp only [trieWalk, List.length_nil, Nat.sub_zero, this]
    exact ⟨ht, List.map_id _⟩
  | k :: rest, d, t, ht, hl => by
    match d, hl, ht with
    | d + 1, hl, ⟨kids, e, _, hn, hk⟩ =>
      subst e
      have hlen : rest.length ≤ d := by simpa using hl
      have hF := filter_prefix_flatMap d kids hn k rest
      simp only [trieWalk, keysAt, List.length_cons, Nat.add_sub_add_right]
      cases hlk : lookup kids k with
      | none =>
        rw [hlk] at hF
        simpa using hF
      | some sub =>
        rw [hlk] at hF
        simp only at hF ⊢
        have ih := trieWalk_spec rest d sub (hk _ (mem_of_lookup hlk)) hlen
        cases hw : trieWalk sub rest with
        | none =>
          rw [hw] at ih
          simp only at ih ⊢
          rw [ih] at hF
          simpa using hF
        | some sub' =>
          rw [hw] at ih
          simp only at ih ⊢
          exact ⟨ih.1, by rw [hF, ih.2]⟩

theorem trieDepth_uniform : ∀ (d : Nat) (t : Trie), UniformT d t → trieDepth t = d + 1
  | 0, _, e => by cases e; rfl
  | d + 1, _, ⟨kids, e, hne, _, hk⟩ => by
    subst e
    match kids, hne, hk with
    | (k, t) :: rest, _, hk =>
      simp only [trieDepth]
      rw [trieDepth_uniform d t (hk _ (List.mem_cons_self ..))]
      omega

theorem flattenTrie_uniform : ∀ (d : Nat) (t : Trie) (keys : List Name), UniformT (d + 1) t →
    flattenTrie (d + 1) keys t = (keysAt (d + 1) t).map (fun q => keys ++ q)
  | 0, _, keys, ⟨kids, e, hne, hn, hk⟩ => by
    subst e
    clear hn hne
    simp only [flattenTrie, keysAt]
    induction kids with
    | nil => rfl
    | cons x xs ih =>
      have ex := hk x (List.mem_cons_self ..)
      obtain ⟨k, t⟩ := x
      simp only [UniformT] at ex; subst ex
      simp only [List.map_cons, List.flatMap_cons, keysAt, if_true, List.map_nil, List.cons_append,
        List.nil_append, List.cons.injEq, true_and]
      exact ih (fun kv h => hk kv (List.mem_cons_of_mem _ h))
  | d + 1, _, keys, ⟨kids, e, hne, hn, hk⟩ => by
    subst e
    clear hn hne
    simp only [flattenTrie, keysAt]
    induction kids with
    | nil => rfl
    | cons x xs ih =>
      obtain ⟨k, t⟩ := x
      simp only [List.flatMap_cons, List.map_append]
      rw [ih (fun kv h => hk kv (List.mem_cons_of_mem _ h)),
        flattenTrie_uniform d t _ (hk _ (List.mem_cons_self ..))]
      simp [List.map_map, Function.comp_def, keysAt]

theorem eraseDups_of_nodup {α} [BEq α] [LawfulBEq α] : ∀ (l : List α), l.Nodup → l.eraseDups = l
  | [], _ => rfl
  | a :: as, h => by
    rw [List.nodup_cons] at h
    rw [List.eraseDups_cons]
    have : as.filter (fun b => !b == a) = as := by
      rw [List.filter_eq_self]
      intro b hb
      simp only [Bool.not_eq_eq_eq_not, Bool.not_true, beq_eq_false_iff_ne, ne_eq]
      intro e; subst e; exact h.1 hb
    rw [this, eraseDups_of_nodup as h.2]

/-- **`in_trie` on the nested trie = `inTrie` on its key list** (including the possibilities of a PREFIX hit) -/
theorem inTrieT_refines (d : Nat) (t : Trie) (ht : UniformT (d + 1) t ∨ t = Trie.empty) (key : List Name)
    (hl : key.length ≤ d + 1) : inTrieT t key = inTrie (keysAt (d + 1) t) key := by
  unfold inTrieT inTrie
  by_cases hk : key = []
  · simp [hk]
  · simp only [hk, if_false]
    rcases ht with ht | e
    · have spec := trieWalk_spec key (d + 1) t ht hl
      cases hw : trieWalk t key with
      | none =>
        rw [hw] at spec
        simp only at spec ⊢
        simp [spec]
      | some sub =>
        rw [hw] at spec
        obtain ⟨hu, hP⟩ := spec
        simp only
        have hne := keysAt_ne_nil _ _ hu
        have hms : (keysAt (d + 1) t).filter (fun k => key.isPrefixOf k) ≠ [] := by
          intro e; rw [e] at hP; exact hne hP.symm
        simp only [hms, if_false]
        cases hr : d + 1 - key.length with
        | zero =>
          rw [hr] at hu hP
          cases hu
          -- some key has `key` as a prefix and the same length: it is `key`
          have hmem : key ∈ keysAt (d + 1) t := by
            cases hq : (keysAt (d + 1) t).filter (fun k => key.isPrefixOf k) with
            | nil => exact absurd hq hms
            | cons q qs =>
              have hqm : q ∈ (keysAt (d + 1) t).filter (fun k => key.isPrefixOf k) := by rw [hq]; simp
              rw [List.mem_filter] at hqm
              have hlen := keysAt_length _ _ _ hqm.1
              have hp : key <+: q := by simpa using hqm.2
              have : key = q := hp.eq_of_length (by omega)
              rw [this]; exact hqm.1
          simp [Trie.term, hmem]
        | succ r =>
          rw [hr] at hu hP
          obtain ⟨kids, e, _, _, _⟩ := id hu
          subst e
          have hnot : key ∉ keysAt (d + 1) t := by
            intro h; have := keysAt_length _ _ _ h; omega
          simp only [Trie.term, Bool.false_eq_true, if_false, List.contains_iff_mem, hnot]
          rw [trieDepth_uniform _ _ hu, hP, eraseDups_of_nodup _ (keysAt_nodup _ _ hu)]
          simp [flattenTrie_uniform r _ [] hu]
    · subst e
      cases key with
      | nil => exact absurd rfl hk
      | cons k rest => simp [Trie.empty, trieWalk, lookup, keysAt]

end SqlglotModel.Schema
