/-
  Proofs/TreeWalk.lean — `transform` and `replace_children` keep the invariant (C08), parametric in the user function.
-/
import SqlglotModel.Proofs.TreeCopyShape

namespace SqlglotModel.Tree

variable {H : Type}

/-- what may be written over a WHOLE argument `(self, k)`: unattached nodes, or nodes that already live in that slot
    (`replace_children` re-installs the children the user function hands back) -/
def ValueOkAt (h : Heap H) (self : Id) (k : String) : Value → Prop
  | .node c => Unstored h c ∨ ∃ j, Stored h self k j c
  | .list items => ItemsDistinct items ∧ ∀ c, Item.node c ∈ items → Unstored h c ∨ ∃ j, Stored h self k j c
  | _ => True

theorem valueOkAt_hashOnly {h h1 : Heap H} (ho : HashOnly h h1) {self : Id} {k : String} {v : Value}
    (hv : ValueOkAt h self k v) : ValueOkAt h1 self k v := by
  have one : ∀ c, (Unstored h c ∨ ∃ j, Stored h self k j c) → (Unstored h1 c ∨ ∃ j, Stored h1 self k j c) := by
    rintro c (hu | ⟨j, hs⟩)
    · exact .inl ((unstored_hashOnly ho).mpr hu)
    · exact .inr ⟨j, (stored_hashOnly ho).mpr hs⟩
  cases v with
  | none => trivial
  | leaf s => trivial
  | node c => exact one c hv
  | list items => exact ⟨hv.1, fun c hc => one c (hv.2 c hc)⟩

/-- `self.set(k, v)` (no index) with the relaxed precondition -/
theorem inv_opSet_whole (F : HashFns H) {fuel : Nat} {h h2 : Heap H} {self : Id} {k : String} {v : Value} {ow : Bool}
    (hI : Inv F h) (hv : ValueOkAt h self k v) (he : opSet fuel h self k v none ow = some h2) : Inv F h2 := by
  unfold opSet at he
  split at he
  · next h1 hinv =>
    obtain ⟨hI1, ho, hs⟩ := inval_inv F hI hinv
    have hv1 := valueOkAt_hashOnly ho hv
    cases v with
    | none => exact inv_setCore F hI1 hs (by trivial) he
    | leaf s => exact inv_setCore F hI1 hs (by trivial) he
    | node c =>
      simp only [setCore, Option.some.injEq] at he; subst he
      have hed : ArgsEdit h1 (setPtr (setArgs h1 self (setKey k (.one c) (h1 self).args)) c (some self) (some k) none)
          self k (some (.one c)) := argsEdit_setKey hI1.keys (fun m => by simp)
      refine ⟨?_, ?_, keys_edit hed hI1.keys⟩
      · apply links_of_edit hI1.links hed (fun m => m = c)
        · intro m hm; rw [setPtr_other _ _ _ _ hm]; simp [ptrs]
        · intro m hm; subst hm; exact hv1
        · intro a j c' ha hac
          simp only [Option.some.injEq] at ha; subst ha
          cases j with
          | some j' => simp [ArgHas] at hac
          | none =>
            simp only [ArgHas] at hac; subst hac
            simp [ptrs, setPtr]
      · exact cache_of_edit F hI1.cache hs (fun m => by simp)
          (fun m hm => by rw [setPtr_args, setArgs_args_other _ _ hm])
    | list items =>
      simp only [setCore, Option.some.injEq] at he; subst he
      exact (setList_spec F hI1 hs hv1.1 hv1.2).1
  · cases he

/-! ### transform -/

/-- admissibility of a `transform` run, stated along the run: every call of the user function keeps the invariant, and a
    result other than the node itself is unattached (fresh, copied or popped) when it is installed -/
def TrAdm (F : HashFns H) (fuel : Nat) (fn : UserFun H) : Nat → Heap H → Nat → List Id → Prop
  | 0, _, _, _ => True
  | _ + 1, _, _, [] => True
  | f + 1, h, nx, node :: st =>
    ∀ h1 nx1 v, fn h nx node = some (h1, nx1, v) →
      (Inv F h → Inv F h1) ∧ (v ≠ .node node → ValueOk h1 v) ∧
      ∀ h2 nx2 d, transformStep fuel fn h nx node = some (h2, nx2, d) →
        TrAdm F fuel fn f h2 nx2 (if d then childIds (h2 node).args ++ st else st)

theorem inv_transformStep (F : HashFns H) {fuel : Nat} {fn : UserFun H} {h h2 : Heap H} {nx nx2 : Nat} {node : Id}
    {d : Bool} (hI : Inv F h)
    (hf : ∀ h1 nx1 v, fn h nx node = some (h1, nx1, v) → (Inv F h → Inv F h1) ∧ (v ≠ .node node → ValueOk h1 v))
    (he : transformStep fuel fn h nx node = some (h2, nx2, d)) : Inv F h2 := by
  unfold transformStep at he
  simp only at he
  split at he
  · cases he
  · next h1 nx1 v hfn =>
    obtain ⟨hi, hv⟩ := hf h1 nx1 v hfn
    split at he
    · simp only [Option.some.injEq, Prod.mk.injEq] at he
      obtain ⟨e, _, _⟩ := he; subst e; exact hi hI
    · next hne =>
      split at he
      · split at he
        · next h2' hset =>
          simp only [Option.some.injEq, Prod.mk.injEq] at he
          obtain ⟨e, _, _⟩ := he; subst e
          exact inv_opSet F (hi hI) (hv hne) hset
        · cases he
      · simp only [Option.some.injEq, Prod.mk.injEq] at he
        obtain ⟨e, _, _⟩ := he; subst e; exact hi hI

theorem inv_transformLoop (F : HashFns H) {fuel : Nat} {fn : UserFun H} :
    ∀ (f : Nat) (h : Heap H) (nx : Nat) (st : List Id) (h' : Heap H) (nx' : Nat), Inv F h → TrAdm F fuel fn f h nx st →
      transformLoop fuel fn f h nx st = some (h', nx') → Inv F h'
  | 0, _, _, _, _, _, _, _, he => by simp [transformLoop] at he
  | f + 1, h, nx, [], h', nx', hI, _, he => by
    simp only [transformLoop, Option.some.injEq, Prod.mk.injEq] at he
    obtain ⟨e, _⟩ := he; subst e; exact hI
  | f + 1, h, nx, node :: st, h', nx', hI, ha, he => by
    simp only [transformLoop] at he
    split at he
    · cases he
    · next h2 nx2 d hstep =>
      have hI2 := inv_transformStep F hI (fun h1 nx1 v hfn => ⟨(ha h1 nx1 v hfn).1, (ha h1 nx1 v hfn).2.1⟩) hstep
      -- admissibility of the rest of the run
      unfold transformStep at hstep
      simp only at hstep
      cases hfn : fn h nx node with
      | none => rw [hfn] at hstep; cases hstep
      | some r =>
        obtain ⟨h1, nx1, v⟩ := r
        have hrest := (ha h1 nx1 v hfn).2.2 h2 nx2 d (by unfold transformStep; simp only; exact hstep)
        exact inv_transformLoop F f h2 nx2 _ h' nx' hI2 hrest he

/-- admissibility of a whole `root.transform(fun, copy=False)` call -/
def TransformAdm (F : HashFns H) (fuel : Nat) (fn : UserFun H) (h : Heap H) (nx : Nat) (root : Id) : Prop :=
  ∀ h1 nx1 v, fn h nx root = some (h1, nx1, v) →
    (Inv F h → Inv F h1) ∧ (v = .node root → TrAdm F fuel fn fuel h1 nx1 (childIds (h1 root).args))

theorem inv_opTransform (F : HashFns H) {fuel : Nat} {fn : UserFun H} {h h' : Heap H} {nx nx' : Nat} {root : Id}
    {r : Value} (hI : Inv F h) (ha : TransformAdm F fuel fn h nx root)
    (he : opTransform fuel fn h nx root = some (h', nx', r)) : Inv F h' := by
  unfold opTransform at he
  split at he
  · cases he
  · next h1 nx1 v hfn =>
    obtain ⟨hi, hrest⟩ := ha h1 nx1 v hfn
    split at he
    · next hv =>
      split at he
      · next h2 nx2 hl =>
        simp only [Option.some.injEq, Prod.mk.injEq] at he
        obtain ⟨e, _, _⟩ := he; subst e
        exact inv_transformLoop F fuel h1 nx1 _ h2 nx2 (hi hI) (hrest hv) hl
      · cases he
    · have fin : ∀ x, some (h1, nx1, x) = some (h', nx', r) → Inv F h' := by
        intro x hx
        simp only [Option.some.injEq, Prod.mk.injEq] at hx
        obtain ⟨e, _, _⟩ := hx; subst e; exact hi hI
      split at he
      · cases he
      · cases he
      · split at he
        · exact fin _ he
        · cases he
      · exact fin _ he

/-! ### replace_children -/

/-- every user-function call inside the gathering loop keeps the invariant -/
def GatherAdm (F : HashFns H) (fn : UserFun H) : Heap H → Nat → List Item → Prop
  | _, _, [] => True
  | h, nx, .leaf _ :: r => GatherAdm F fn h nx r
  | h, nx, .node c :: r =>
    ∀ h1 nx1 v, fn h nx c = some (h1, nx1, v) → (Inv F h → Inv F h1) ∧ GatherAdm F fn h1 nx1 r

theorem inv_gatherItems (F : HashFns H) {fn : UserFun H} : ∀ (items : List Item) (h : Heap H) (nx : Nat)
    (h' : Heap H) (nx' : Nat) (new : List Item), Inv F h → GatherAdm F fn h nx items →
      gatherItems fn h nx items = some (h', nx', new) → Inv F h'
  | [], h, nx, h', nx', new, hI, _, he => by
    simp only [gatherItems, Option.some.injEq, Prod.mk.injEq] at he
    obtain ⟨e, _, _⟩ := he; subst e; exact hI
  | .leaf s :: r, h, nx, h', nx', new, hI, ha, he => by
    simp only [gatherItems] at he
    split at he
    · next h1 n1 r1 hr =>
      simp only [Option.some.injEq, Prod.mk.injEq] at he
      obtain ⟨e, _, _⟩ := he; subst e
      exact inv_gatherItems F r h nx _ _ _ hI ha hr
    · cases he
  | .node c :: r, h, nx, h', nx', new, hI, ha, he => by
    simp only [gatherItems] at he
    split at he
    · cases he
    · next h1 nx1 v hfn =>
      obtain ⟨hi, hrest⟩ := ha h1 nx1 v hfn
      split at he
      · next h2 n2 r2 hr =>
        simp only [Option.some.injEq, Prod.mk.injEq] at he
        obtain ⟨e, _, _⟩ := he; subst e
        exact inv_gatherItems F r h1 nx1 _ _ _ (hi hI) hrest hr
      · cases he

/-- admissibility of a `replace_children` run: the user function keeps the invariant, and what is written back over each
    argument consists of unattached nodes or nodes already living in that argument, without repetition -/
def RcAdm (F : HashFns H) (fuel : Nat) (fn : UserFun H) (self : Id) : Heap H → Nat → List (String × Arg) → Prop
  | _, _, [] => True
  | h, nx, (k, a) :: r =>
    GatherAdm F fn h nx (argItems a) ∧
    ∀ h1 nx1 new, gatherItems fn h nx (argItems a) = some (h1, nx1, new) →
      ValueOkAt h1 self k (argValue a new) ∧
      ∀ h2, opSet fuel h1 self k (argValue a new) none true = some h2 → RcAdm F fuel fn self h2 nx1 r

theorem inv_replaceChildrenLoop (F : HashFns H) {fuel : Nat} {fn : UserFun H} {self : Id} :
    ∀ (args : List (String × Arg)) (h : Heap H) (nx : Nat) (h' : Heap H) (nx' : Nat), Inv F h →
      RcAdm F fuel fn self h nx args → replaceChildrenLoop fuel fn self h nx args = some (h', nx') → Inv F h'
  | [], h, nx, h', nx', hI, _, he => by
    simp only [replaceChildrenLoop, Option.some.injEq, Prod.mk.injEq] at he
    obtain ⟨e, _⟩ := he; subst e; exact hI
  | (k, a) :: r, h, nx, h', nx', hI, ha, he => by
    simp only [replaceChildrenLoop] at he
    split at he
    · cases he
    · next h1 nx1 new hg =>
      obtain ⟨hga, hrest⟩ := ha
      obtain ⟨hv, hnext⟩ := hrest h1 nx1 new hg
      have hI1 := inv_gatherItems F _ h nx h1 nx1 new hI hga hg
      split at he
      · next h2 hset =>
        exact inv_replaceChildrenLoop F r h2 nx1 h' nx' (inv_opSet_whole F hI1 hv hset) (hnext h2 hset) he
      · cases he

theorem inv_opReplaceChildren (F : HashFns H) {fuel : Nat} {fn : UserFun H} {self : Id} {h h' : Heap H} {nx nx' : Nat}
    (hI : Inv F h) (ha : RcAdm F fuel fn self h nx (h self).args)
    (he : opReplaceChildren fuel fn h nx self = some (h', nx')) : Inv F h' :=
  inv_replaceChildrenLoop F _ h nx h' nx' hI ha he

/-! ### transform inside a region: the frame -/

theorem mem_itemIds {c : Id} : ∀ {items : List Item}, c ∈ itemIds items → Item.node c ∈ items
  | [], h => by cases h
  | .node c' :: r, h => by
    simp only [itemIds, List.mem_cons] at h
    rcases h with e | e
    · subst e; simp
    · exact List.mem_cons_of_mem _ (mem_itemIds e)
  | .leaf _ :: r, h => by
    simp only [itemIds] at h
    exact List.mem_cons_of_mem _ (mem_itemIds h)

theorem mem_childIds {c : Id} : ∀ {args : List (String × Arg)}, c ∈ childIds args → IsChild args c
  | [], h => by cases h
  | (k, a) :: r, h => by
    simp only [childIds, List.mem_append] at h
    rcases h with e | e
    · refine ⟨k, a, by simp, ?_⟩
      cases a with
      | one c' => simp only [argIds, List.mem_singleton] at e; subst e; exact ⟨none, rfl⟩
      | leaf s => simp [argIds] at e
      | many items =>
        obtain ⟨j, hj⟩ := List.mem_iff_getElem?.mp (mem_itemIds e)
        exact ⟨some j, by simpa [ArgHas] using hj⟩
    · obtain ⟨k', a', hm, hx⟩ := mem_childIds e
      exact ⟨k', a', List.mem_cons_of_mem _ hm, hx⟩

/-- along a `transform` run inside the region `R`: the user function writes no cell outside `R`, keeps `R` a region and
    the args dicts, and hands back nodes of `R` -/
def TrFr (R : Id → Prop) (fuel : Nat) (fn : UserFun H) : Nat → Heap H → Nat → List Id → Prop
  | 0, _, _, _ => True
  | _ + 1, _, _, [] => True
  | f + 1, h, nx, node :: st =>
    ∀ h1 nx1 v, fn h nx node = some (h1, nx1, v) →
      (∀ m, ¬ R m → h1 m = h m) ∧ (Region h R → Keys h → Region h1 R ∧ Keys h1) ∧
      (v ≠ .node node → ∀ c, Item.node c ∈ itemOfValue v → R c) ∧
      ∀ h2 nx2 d, transformStep fuel fn h nx node = some (h2, nx2, d) →
        TrFr R fuel fn f h2 nx2 (if d then childIds (h2 node).args ++ st else st)

theorem transformLoop_frame {R : Id → Prop} {fuel : Nat} {fn : UserFun H} :
    ∀ (f : Nat) (h : Heap H) (nx : Nat) (st : List Id) (h' : Heap H) (nx' : Nat), Region h R → Keys h →
      (∀ n, n ∈ st → R n) → TrFr R fuel fn f h nx st → transformLoop fuel fn f h nx st = some (h', nx') →
      (∀ m, ¬ R m → h' m = h m) ∧ Region h' R ∧ Keys h'
  | 0, _, _, _, _, _, _, _, _, _, he => by simp [transformLoop] at he
  | f + 1, h, nx, [], h', nx', hR, hk, _, _, he => by
    simp only [transformLoop, Option.some.injEq, Prod.mk.injEq] at he
    obtain ⟨e, _⟩ := he; subst e; exact ⟨fun _ _ => rfl, hR, hk⟩
  | f + 1, h, nx, node :: st, h', nx', hR, hk, hst, ha, he => by
    simp only [transformLoop] at he
    split at he
    · cases he
    · next h2 nx2 d hstep =>
      have hnode : R node := hst node (by simp)
      -- one step
      have step : (∀ m, ¬ R m → h2 m = h m) ∧ Region h2 R ∧ Keys h2 ∧
          TrFr R fuel fn f h2 nx2 (if d then childIds (h2 node).args ++ st else st) := by
        have hstep' := hstep
        unfold transformStep at hstep
        simp only at hstep
        cases hfn : fn h nx node with
        | none => rw [hfn] at hstep; cases hstep
        | some r =>
          obtain ⟨h1, nx1, v⟩ := r
          obtain ⟨hfr, hreg, hval, hrest⟩ := ha h1 nx1 v hfn
          obtain ⟨hR1, hk1⟩ := hreg hR hk
          rw [hfn] at hstep
          simp only at hstep
          split at hstep
          · simp only [Option.some.injEq, Prod.mk.injEq] at hstep
            obtain ⟨e, _, _⟩ := hstep; subst e
            exact ⟨hfr, hR1, hk1, hrest _ _ _ hstep'⟩
          · next hne =>
            have hval := hval hne
            split at hstep
            · next p k hp hkey =>
              split at hstep
              · next h2' hset =>
                simp only [Option.some.injEq, Prod.mk.injEq] at hstep
                obtain ⟨e, _, _⟩ := hstep; subst e
                have hRp : R p := hR.up node p hnode hp
                obtain ⟨hR2, hk2⟩ := region_opSet hR1 hk1 hRp hval hset
                refine ⟨?_, hR2, hk2, hrest _ _ _ hstep'⟩
                intro m hm
                rw [opSet_region_frame hR1 hRp hval hset m hm, hfr m hm]
              · cases hstep
            · simp only [Option.some.injEq, Prod.mk.injEq] at hstep
              obtain ⟨e, _, _⟩ := hstep; subst e
              exact ⟨hfr, hR1, hk1, hrest _ _ _ hstep'⟩
      obtain ⟨hfr2, hR2, hk2, hrest2⟩ := step
      have hst2 : ∀ n, n ∈ (if d then childIds (h2 node).args ++ st else st) → R n := by
        intro n hn
        split at hn
        · rcases List.mem_append.mp hn with e | e
          · obtain ⟨k, i, hs⟩ := isChild_stored (hk2 node) (mem_childIds e)
            exact hR2.down node k i n hnode hs
          · exact hst n (List.mem_cons_of_mem _ e)
        · exact hst n (List.mem_cons_of_mem _ hn)
      obtain ⟨a, b, c⟩ := transformLoop_frame f h2 nx2 _ h' nx' hR2 hk2 hst2 hrest2 he
      exact ⟨fun m hm => by rw [a m hm, hfr2 m hm], b, c⟩

/-- admissibility of `root.transform(fun, copy=True)` w.r.t. the region of the fresh copy -/
def TransformFr (R : Id → Prop) (fuel : Nat) (fn : UserFun H) (h : Heap H) (nx : Nat) (root : Id) : Prop :=
  ∀ h1 nx1 v, fn h nx root = some (h1, nx1, v) →
    (∀ m, ¬ R m → h1 m = h m) ∧ (Region h R → Keys h → Region h1 R ∧ Keys h1) ∧
    (v ≠ .node root → ∀ c, Item.node c ∈ itemOfValue v → R c) ∧
    (v = .node root → TrFr R fuel fn fuel h1 nx1 (childIds (h1 root).args))

theorem opTransform_frame {R : Id → Prop} {fuel : Nat} {fn : UserFun H} {h h' : Heap H} {nx nx' : Nat} {root : Id}
    {r : Value} (hR : Region h R) (hk : Keys h) (hroot : R root) (ha : TransformFr R fuel fn h nx root)
    (he : opTransform fuel fn h nx root = some (h', nx', r)) :
    (∀ m, ¬ R m → h' m = h m) ∧ Region h' R ∧ (∀ c, Item.node c ∈ itemOfValue r → R c) := by
  unfold opTransform at he
  split at he
  · cases he
  · next h1 nx1 v hfn =>
    obtain ⟨hfr, hreg, hvalR, hrest⟩ := ha h1 nx1 v hfn
    obtain ⟨hR1, hk1⟩ := hreg hR hk
    split at he
    · next hv =>
      split at he
      · next h2 nx2 hl =>
        simp only [Option.some.injEq, Prod.mk.injEq] at he
        obtain ⟨e, _, e3⟩ := he; subst e; subst e3
        have hst : ∀ n, n ∈ childIds (h1 root).args → R n := by
          intro n hn
          obtain ⟨k, i, hs⟩ := isChild_stored (hk1 root) (mem_childIds hn)
          exact hR1.down root k i n hroot hs
        obtain ⟨a, b, _⟩ := transformLoop_frame fuel h1 nx1 _ h2 nx2 hR1 hk1 hst (hrest hv) hl
        refine ⟨fun m hm => by rw [a m hm, hfr m hm], b, ?_⟩
        intro c hc
        rw [hv] at hc
        simp only [itemOfValue, List.mem_singleton, Item.node.injEq] at hc
        subst hc; exact hroot
      · cases he
    · next hv =>
      have fin : ∀ x, x = v → some (h1, nx1, x) = some (h', nx', r) →
          (∀ m, ¬ R m → h' m = h m) ∧ Region h' R ∧ (∀ c, Item.node c ∈ itemOfValue r → R c) := by
        intro x hx he'
        simp only [Option.some.injEq, Prod.mk.injEq] at he'
        obtain ⟨e, _, e3⟩ := he'; subst e; subst e3; subst hx
        exact ⟨hfr, hR1, hvalR hv⟩
      split at he
      · cases he
      · cases he
      · split at he
        · exact fin _ rfl he
        · cases he
      · exact fin _ rfl he

/-- **`transform(fun, copy=True)` leaves its argument untouched** (frame corollary): every cell that existed before the
    call — args, back pointers and hash caches of the argument tree and of every other tree — is unchanged, the
    invariant is kept, and the RESULT SHARES NO NODE WITH THE ARGUMENT; for a user function that works inside the copy. -/
theorem opTransformCopy_pure (F : HashFns H) {fuel : Nat} {fn : UserFun H} {h0 h' : Heap H} {base nx' : Nat} {root : Id}
    {r : Value} (hI0 : Inv F h0) (hf0 : FreshFrom h0 base) (hn : base > root)
    (hfr : ∀ h1 nx1 c, opDeepcopy fuel h0 root base = some (h1, nx1, c) →
      TransformFr (fun m => base ≤ m) fuel fn h1 nx1 c ∧ TransformAdm F fuel fn h1 nx1 c)
    (he : opTransformCopy fuel fn h0 base root = some (h', nx', r)) :
    (∀ m, m < base → h' m = h0 m) ∧ Inv F h' ∧
    (∀ c m, Item.node c ∈ itemOfValue r → Reach h' c m → ¬ Reach h' root m) := by
  unfold opTransformCopy at he
  split at he
  · next h1 nx1 c hc =>
    obtain ⟨hI1, _, hfr1, hreg1, hcb, _⟩ := deepcopy_spec hI0 hf0 hn hc
    obtain ⟨a1, a2⟩ := hfr h1 nx1 c hc
    obtain ⟨f1, f2, f3⟩ := opTransform_frame hreg1 hI1.keys (by rw [hcb]; exact Nat.le_refl _) a1 he
    have hold : ∀ m, m < base → h' m = h0 m := by
      intro m hm
      rw [f1 m (by omega), hfr1 m hm]
    refine ⟨hold, inv_opTransform F hI1 a2 he, ?_⟩
    intro c' m hc' hr1 hr2
    have hge : base ≤ m := reach_in_region f2 (f3 c' hc') hr1
    have hlt : base > m := by
      clear hr1 hge
      induction hr2 with
      | refl => exact hn
      | step _ hs ih =>
        obtain ⟨a, hg, ha⟩ := hs
        rw [hold _ ih] at hg
        exact child_below hI0 hf0 (getKey_mem hg) ha
    omega
  · cases he

/-! ### the "nothing to do" case: a user function that returns every node unchanged -/

/-- `lambda node: node` — what `expand`'s `_expand` is when no table names a source (empty or unreferenced sources) -/
def idFun : UserFun H := fun h nx n => some (h, nx, .node n)

theorem transformStep_id {fuel : Nat} {h : Heap H} {nx : Nat} {node : Id} :
    transformStep fuel (idFun (H := H)) h nx node = some (h, nx, true) := by
  simp [transformStep, idFun]

theorem trFr_id (R : Id → Prop) (fuel : Nat) : ∀ (f : Nat) (h : Heap H) (nx : Nat) (st : List Id),
    TrFr R fuel (idFun (H := H)) f h nx st
  | 0, _, _, _ => trivial
  | _ + 1, _, _, [] => trivial
  | f + 1, h, nx, node :: st => by
    intro h1 nx1 v hfn
    simp only [idFun, Option.some.injEq, Prod.mk.injEq] at hfn
    obtain ⟨e1, e2, e3⟩ := hfn; subst e1; subst e2; subst e3
    refine ⟨fun _ _ => rfl, fun a b => ⟨a, b⟩, fun hne => absurd rfl hne, ?_⟩
    intro h2 nx2 d _
    exact trFr_id R fuel f h2 nx2 _

theorem trAdm_id (F : HashFns H) (fuel : Nat) : ∀ (f : Nat) (h : Heap H) (nx : Nat) (st : List Id),
    TrAdm F fuel (idFun (H := H)) f h nx st
  | 0, _, _, _ => trivial
  | _ + 1, _, _, [] => trivial
  | f + 1, h, nx, node :: st => by
    intro h1 nx1 v hfn
    simp only [idFun, Option.some.injEq, Prod.mk.injEq] at hfn
    obtain ⟨e1, e2, e3⟩ := hfn; subst e1; subst e2; subst e3
    refine ⟨fun a => a, fun hne => absurd rfl hne, ?_⟩
    intro h2 nx2 d _
    exact trAdm_id F fuel f h2 nx2 _

/-- even when the user function has nothing to do, `transform(copy=True)` returns the fresh copy: a different root, no
    shared node, the argument untouched -/
theorem opTransformCopy_id (F : HashFns H) {fuel : Nat} {h0 h' : Heap H} {base nx' : Nat} {root : Id} {r : Value}
    (hI0 : Inv F h0) (hf0 : FreshFrom h0 base) (hn : base > root)
    (he : opTransformCopy fuel (idFun (H := H)) h0 base root = some (h', nx', r)) :
    r = .node base ∧ (∀ m, m < base → h' m = h0 m) ∧ (∀ m, Reach h' base m → ¬ Reach h' root m) := by
  have hr : r = .node base := by
    unfold opTransformCopy at he
    split at he
    · next h1 nx1 c hc =>
      have hcb := (deepcopy_spec hI0 hf0 hn hc).2.2.2.2.1
      unfold opTransform at he
      simp only [idFun, if_true] at he
      split at he
      · simp only [Option.some.injEq, Prod.mk.injEq] at he
        rw [← he.2.2, hcb]
      · cases he
    · cases he
  obtain ⟨a, _, c⟩ := opTransformCopy_pure F hI0 hf0 hn (fun h1 nx1 c _ =>
    ⟨fun h1' nx1' v hfn => by
        simp only [idFun, Option.some.injEq, Prod.mk.injEq] at hfn
        obtain ⟨e1, e2, e3⟩ := hfn; subst e1; subst e2; subst e3
        exact ⟨fun _ _ => rfl, fun x y => ⟨x, y⟩, fun hne => absurd rfl hne, fun _ => trFr_id _ fuel fuel _ _ _⟩,
     fun h1' nx1' v hfn => by
        simp only [idFun, Option.some.injEq, Prod.mk.injEq] at hfn
        obtain ⟨e1, e2, e3⟩ := hfn; subst e1; subst e2; subst e3
        exact ⟨fun x => x, fun _ => trAdm_id F fuel fuel _ _ _⟩⟩) he
  refine ⟨hr, a, ?_⟩
  intro m hm
  exact c base m (by rw [hr]; simp [itemOfValue]) hm

end SqlglotModel.Tree
