/- Line-protocol driver for the C11 model: one JSON request per line in, one JSON answer per line out. -/
import Lean.Data.Json
import SqlglotModel.Model.ExecPlan
import SqlglotModel.Generated.C11

open Lean (Json)
open SqlglotModel.Exec SqlglotModel.Sem

def cfg : Cfg := SqlglotModel.Generated.C11.cfg

def jVal (j : Json) : Except String Val :=
  match j with
  | .null => pure .null
  | .bool b => pure (.bool b)
  | .str s => pure (.str s)
  | .num _ => do
    let i ← j.getInt?
    pure (.int i)
  | _ => throw "val"

def vJson : Val → Json
  | .null => .null
  | .bool b => .bool b
  | .int i => Json.num (Lean.JsonNumber.fromInt i)
  | .str s => .str s

def jRow (j : Json) : Except String Row := do (← j.getArr?).toList.mapM jVal
def jRows (j : Json) : Except String (List Row) := do (← j.getArr?).toList.mapM jRow
def rowsJson (rs : List Row) : Json := Json.arr (rs.map fun r => Json.arr (r.map vJson).toArray).toArray
def jNats (j : Json) : Except String (List Nat) := do (← j.getArr?).toList.mapM (·.getNat?)

def field (j : Json) (k : String) : Except String Json := j.getObjVal? k
def optNat (j : Json) (k : String) : Except String (Option Nat) :=
  match j.getObjVal? k with
  | .ok .null => pure none
  | .ok v => do pure (some (← v.getNat?))
  | .error _ => pure none

def cmpOfStr : String → Except String CmpOp
  | "eq" => pure .eq | "ne" => pure .ne | "lt" => pure .lt | "le" => pure .le | "gt" => pure .gt | "ge" => pure .ge
  | _ => throw "cmpop"

partial def jExpr (j : Json) : Except String Expr := do
  let a ← j.getArr?
  let tag ← (a[0]?.getD Json.null).getStr?
  let arg (i : Nat) : Json := a[i]?.getD Json.null
  match tag with
  | "col" => pure (.col (← (arg 1).getNat?))
  | "lit" => pure (.lit (← jVal (arg 1)))
  | "cmp" => pure (.cmp (← cmpOfStr (← (arg 1).getStr?)) (← jExpr (arg 2)) (← jExpr (arg 3)))
  | "and" => pure (.and (← jExpr (arg 1)) (← jExpr (arg 2)))
  | "or" => pure (.or (← jExpr (arg 1)) (← jExpr (arg 2)))
  | "not" => pure (.not (← jExpr (arg 1)))
  | "isnull" => pure (.isNull (← jExpr (arg 1)) (← (arg 2).getBool?))
  | "in" => pure (.inList (← jExpr (arg 1)) (← jRow (arg 2)))
  | _ => throw "expr"

def optExpr (j : Json) (k : String) : Except String (Option Expr) :=
  match j.getObjVal? k with
  | .ok .null => pure none
  | .ok v => do pure (some (← jExpr v))
  | .error _ => pure none

def sideOf : String → Except String Side
  | "" => pure .inner | "LEFT" => pure .left | "RIGHT" => pure .right | "FULL" => pure .full
  | _ => throw "side"

def aggFn (name : String) : Except String (List Val → Val) :=
  match name with
  | "SUM" => pure (envSum cfg) | "COUNT" => pure (envCount cfg) | "MIN" => pure (envMin cfg) | "MAX" => pure (envMax cfg)
  | _ => throw "agg"

def semAggFn (name : String) : Except String (List Val → Val) :=
  match name with
  | "SUM" => pure aggSum | "COUNT" => pure aggCount
  | "MIN" => pure fun vs => pyExtremum .lt (nonNull vs)
  | "MAX" => pure fun vs => pyExtremum .gt (nonNull vs)
  | _ => throw "agg"

def jAggs (j : Json) (pick : String → Except String (List Val → Val)) : Except String (List Row → Row) := do
  let specs ← (← j.getArr?).toList.mapM fun s => do
    let a ← s.getArr?
    let f ← pick (← (a[0]?.getD Json.null).getStr?)
    let c ← (a[1]?.getD Json.null).getNat?
    pure (f, c)
  pure fun rows => specs.map fun (f, c) => f (rows.map fun r => SqlglotModel.Sem.getCol r c)

def ordStr : Option Ordering → String
  | some .lt => "lt" | some .eq => "eq" | some .gt => "gt" | none => "err"

def jItems (j : Json) : Except String (List OrdItem) := do
  (← j.getArr?).toList.mapM fun it => do
    let a ← it.getArr?
    pure ⟨← (a[0]?.getD Json.null).getNat?, ← (a[1]?.getD Json.null).getBool?, ← (a[2]?.getD Json.null).getBool?⟩

def evalErr : Json := Json.str "model-error"

def jAggFn : String → Except String AggFn
  | "SUM" => pure .sum | "COUNT" => pure .count | "MIN" => pure .min | "MAX" => pure .max
  | _ => throw "aggfn"

def aggFnStr : AggFn → String
  | .sum => "SUM" | .count => "COUNT" | .min => "MIN" | .max => "MAX"

def cmpStr : CmpOp → String
  | .eq => "eq" | .ne => "ne" | .lt => "lt" | .le => "le" | .gt => "gt" | .ge => "ge"

def jQuery (j : Json) : Except String Query := do
  let cols ← (← (← field j "cols").getArr?).toList.mapM (·.getStr?)
  let where_ ← optExpr j "where"
  let group ← match j.getObjVal? "group" with
    | .ok .null => pure none
    | .ok v => do pure (some (← jNats v))
    | .error _ => pure none
  let outs ← (← (← field j "outs").getArr?).toList.mapM fun o => do
    let a ← o.getArr?
    let g (i : Nat) : Json := a[i]?.getD Json.null
    match ← (g 0).getStr? with
    | "col" => pure (Out.col (← (g 1).getNat?) (← (g 2).getStr?))
    | "agg" => pure (Out.agg (← jAggFn (← (g 1).getStr?)) (← (g 2).getNat?) (← (g 3).getStr?))
    | _ => throw "out"
  let having ← match j.getObjVal? "having" with
    | .ok .null => pure none
    | .ok v => do
      let a ← v.getArr?
      let g (i : Nat) : Json := a[i]?.getD Json.null
      pure (some ⟨← jAggFn (← (g 0).getStr?), ← (g 1).getNat?, ← cmpOfStr (← (g 2).getStr?), ← jVal (g 3)⟩)
    | .error _ => pure none
  let distinct ← (← field j "distinct").getBool?
  let order ← (← (← field j "order").getArr?).toList.mapM fun it => do
    let a ← it.getArr?
    pure ((← (a[0]?.getD Json.null).getNat?), (← (a[1]?.getD Json.null).getBool?), (← (a[2]?.getD Json.null).getBool?))
  pure ⟨cols, where_, group, outs, having, distinct, order, ← optNat j "limit", (← optNat j "offset").getD 0⟩

def optNatJson : Option Nat → Json
  | none => Json.null
  | some n => Json.num (Lean.JsonNumber.fromNat n)

def projsJson (ps : List NProj) : Json := Json.arr (ps.map fun p => Json.arr #[Json.str p.src, Json.str p.alias]).toArray

def stepJson : Step → Json
  | .scan => Json.mkObj [("kind", "Scan")]
  | .join dep cond projs limit offset =>
    Json.mkObj [("kind", "Join"), ("cond", Json.bool cond.isSome), ("projs", projsJson projs), ("limit", optNatJson limit),
      ("offset", Json.num (Lean.JsonNumber.fromNat offset)), ("dep", stepJson dep)]
  | .aggregate dep group aggs hav projs limit offset =>
    Json.mkObj [("kind", "Aggregate"),
      ("group", Json.arr (group.map fun g => Json.arr #[Json.str g.1, Json.str g.2]).toArray),
      ("aggs", Json.arr (aggs.map fun a => Json.arr #[Json.str (aggFnStr a.fn), Json.str a.src, Json.str a.alias]).toArray),
      ("hav", match hav with
        | none => Json.null
        | some h => Json.arr #[Json.str (aggFnStr h.fn), Json.str h.src, Json.str (cmpStr h.op), vJson h.lit]),
      ("projs", projsJson projs), ("limit", optNatJson limit), ("offset", Json.num (Lean.JsonNumber.fromNat offset)),
      ("dep", stepJson dep)]
  | .sort dep key projs limit offset =>
    Json.mkObj [("kind", "Sort"),
      ("key", Json.arr (key.map fun k => Json.arr #[Json.str k.1, Json.bool k.2.1, Json.bool k.2.2]).toArray),
      ("projs", projsJson projs), ("limit", optNatJson limit), ("offset", Json.num (Lean.JsonNumber.fromNat offset)),
      ("dep", stepJson dep)]

def tblJson (t : Option Tbl) : Json :=
  match t with
  | none => Json.str "key-error"
  | some t => Json.mkObj [("cols", Json.arr (t.cols.map Json.str).toArray), ("rows", rowsJson t.rows)]

def handle (line : String) : Except String Json := do
  let j ← Json.parse line
  let op ← (← field j "op").getStr?
  match op with
  | "logic" =>
    let fn ← (← field j "fn").getStr?
    let args ← jRow (← field j "args")
    match fn, args with
    | "and", [a, b] => pure (vJson (sqlAnd a b))
    | "or", [a, b] => pure (vJson (sqlOr a b))
    | "not", [a] => pure (vJson (sqlNot a))
    | "in", a :: cs => pure (vJson (sqlIn a cs))
    | _, _ => throw "logic"
  | "bin" =>
    match envBin cfg (← (← field j "fn").getStr?) (← jVal (← field j "a")) (← jVal (← field j "b")) with
    | some v => pure (vJson v)
    | none => pure evalErr
  | "agg" =>
    let f ← aggFn (← (← field j "fn").getStr?)
    pure (vJson (f (← jRow (← field j "vals"))))
  | "ordered_cmp" =>
    let d ← (← field j "desc").getBool?
    let nf ← (← field j "nf").getBool?
    pure (Json.str (ordStr (tupleCmp (ordered cfg (← jVal (← field j "a")) d nf) (ordered cfg (← jVal (← field j "b")) d nf))))
  | "sem_ordered_cmp" =>
    let d ← (← field j "desc").getBool?
    let nf ← (← field j "nf").getBool?
    pure (Json.str (ordStr (some (cmpKey d nf (← jVal (← field j "a")) (← jVal (← field j "b"))))))
  | "eval" =>
    match SqlglotModel.Exec.eval cfg (← jRow (← field j "row")) (← jExpr (← field j "e")) with
    | some v => pure (vJson v)
    | none => pure evalErr
  | "sem_eval" => pure (vJson (SqlglotModel.Sem.eval (← jRow (← field j "row")) (← jExpr (← field j "e"))))
  | "sort" =>
    pure (rowsJson (sortStep cfg (← jItems (← field j "items")) (← optNat j "limit") ((← optNat j "offset").getD 0)
      (← jRows (← field j "rows"))))
  | "join" =>
    let algo ← (← field j "algo").getStr?
    let side ← (← field j "side").getStr?
    let width ← (← field j "width").getNat?
    let L ← jRows (← field j "L")
    let R ← jRows (← field j "R")
    let cond ← optExpr j "cond"
    -- a condition the model cannot evaluate (unknown ENV entry) is reported, never defaulted
    let bad := match cond with
      | some e => (L.any fun l => R.any fun r => (SqlglotModel.Exec.eval cfg (l ++ r) e).isNone)
      | none => false
    if bad then pure evalErr else
    let condF : Option (Row → Val) := cond.map fun e => fun row => (SqlglotModel.Exec.eval cfg row e).getD .null
    match algo with
    | "nested" => pure (rowsJson (nestedLoopJoin cfg side width (fun l r => joinMatches condF (l ++ r)) L R))
    | "hash" =>
      let ks ← jNats (← field j "ks")
      let kj ← jNats (← field j "kj")
      pure (rowsJson (hashJoin cfg side width (fun l => ks.map (SqlglotModel.Sem.getCol l)) (fun r => kj.map (SqlglotModel.Sem.getCol r)) condF L R))
    | _ => throw "algo"
  | "sem_join" =>
    let side ← sideOf (← (← field j "side").getStr?)
    let e ← jExpr (← field j "on")
    pure (rowsJson (SqlglotModel.Sem.join side (fun l r => holds e (l ++ r)) (← (← field j "wS").getNat?) (← (← field j "wJ").getNat?)
      (← jRows (← field j "L")) (← jRows (← field j "R"))))
  | "aggregate" =>
    let keys ← jNats (← field j "keys")
    let agg ← jAggs (← field j "aggs") aggFn
    pure (rowsJson (aggregate cfg (fun r => keys.map (SqlglotModel.Sem.getCol r)) agg (!keys.isEmpty) (← optNat j "cap") (← optNat j "limit")
      (← jRows (← field j "rows"))))
  | "sem_group" =>
    let keys ← jNats (← field j "keys")
    let agg ← jAggs (← field j "aggs") semAggFn
    let rows ← jRows (← field j "rows")
    if keys.isEmpty then pure (rowsJson (globalAgg agg rows))
    else pure (rowsJson (groupAgg (fun r => keys.map (SqlglotModel.Sem.getCol r)) agg rows))
  | "setop" =>
    let kind ← (← field j "kind").getStr?
    let d ← (← field j "distinct").getBool?
    let L ← jRows (← field j "L")
    let R ← jRows (← field j "R")
    let k ← match kind with
      | "union" => pure SetOp.union | "intersect" => pure SetOp.intersect | "except" => pure SetOp.except
      | _ => throw "kind"
    pure (rowsJson (sliceLimitOffset (← optNat j "limit") 0 (setOperation k d L R)))
  | "sem_setop" =>
    let kind ← (← field j "kind").getStr?
    let d ← (← field j "distinct").getBool?
    let L ← jRows (← field j "L")
    let R ← jRows (← field j "R")
    let m ← match kind, d with
      | "union", false => pure multUnionAll | "union", true => pure multUnion
      | "intersect", false => pure multIntersectAll | "intersect", true => pure multIntersect
      | "except", false => pure multExceptAll | "except", true => pure multExcept
      | _, _ => throw "kind"
    pure (rowsJson (setOpRows m L R))
  | "sem_sort" =>
    let items ← jItems (← field j "items")
    let rows ← jRows (← field j "rows")
    let ks := items.map fun it => ((fun r : Row => SqlglotModel.Sem.getCol r it.col), it.desc, it.nullsFirst)
    pure (rowsJson (limitOffset (← optNat j "limit") ((← optNat j "offset").getD 0)
      (stableSort (fun a b => cmpRows ks a b != .gt) rows)))
  | "plan" => pure (stepJson (plan (← jQuery (← field j "q"))))
  | "exec_plan" =>
    let q ← jQuery (← field j "q")
    pure (tblJson (exec cfg ⟨q.cols, ← jRows (← field j "rows")⟩ (plan q)))
  | "sem_query" =>
    let q ← jQuery (← field j "q")
    pure (rowsJson (q.eval (← jRows (← field j "rows"))))
  | "scan" =>
    let cond ← optExpr j "cond"
    let projs ← match j.getObjVal? "projs" with
      | .ok .null => pure none
      | .ok v => do pure (some (← (← v.getArr?).toList.mapM jExpr))
      | .error _ => pure none
    let rows ← jRows (← field j "rows")
    let src := if (← (← field j "static").getBool?) then ScanSource.static else ScanSource.table rows
    let evalOk (e : Expr) := rows.all fun r => (SqlglotModel.Exec.eval cfg r e).isSome
    if (match cond with | some e => !evalOk e | none => false) || (match projs with | some es => es.any (!evalOk ·) | none => false)
    then pure evalErr else
    pure (rowsJson (applyOffset ((← optNat j "offset").getD 0)
      (scan src (cond.map (condFn cfg)) (projs.map fun es => fun r => es.map fun e => condFn cfg e r) (← optNat j "cap"))))
  | "join_agg" =>
    -- join (nested loop / hash), then aggregate() with computed operands over the joined rows
    let side ← (← field j "side").getStr?
    let width ← (← field j "width").getNat?
    let L ← jRows (← field j "L")
    let R ← jRows (← field j "R")
    let ks ← jNats (← field j "ks")
    let kj ← jNats (← field j "kj")
    let joined := if ks.isEmpty then nestedLoopJoin cfg side width (fun _ _ => true) L R
      else hashJoin cfg side width (fun l => ks.map (SqlglotModel.Sem.getCol l)) (fun r => kj.map (SqlglotModel.Sem.getCol r)) none L R
    let ops ← (← (← field j "operands").getArr?).toList.mapM jExpr
    if joined.any (fun r => ops.any fun e => (SqlglotModel.Exec.eval cfg r e).isNone) then pure evalErr else
    let rows := widened joined (joined.map fun r => ops.map fun e => condFn cfg e r)
    let keys ← jNats (← field j "keys")
    let agg ← jAggs (← field j "aggs") aggFn
    pure (rowsJson (aggregate cfg (fun r => keys.map (SqlglotModel.Sem.getCol r)) agg (!keys.isEmpty) none none rows))
  | "subq_cmp" =>
    match subqueryComparisonEnv SqlglotModel.Generated.C11.subqCmpWrapped cfg (← (← field j "fn").getStr?)
        (← (← field j "quantifier").getStr?) (← jVal (← field j "v")) (← jRow (← field j "xs")) with
    | some v => pure (vJson v)
    | none => pure evalErr
  | _ => throw "unknown op"

partial def loop (h : IO.FS.Stream) : IO Unit := do
  let line ← h.getLine
  if line.isEmpty then return ()
  match handle line.trimAscii.toString with
  | .ok out => IO.println out.compress
  | .error e => IO.println (Json.str ("bad-op " ++ e)).compress
  loop h

def main : IO Unit := do loop (← IO.getStdin)
