/- Line-protocol driver for the pointer-heap model (C08, C09): one JSON op per line in, `<result>|<dump of every
   allocated node>` out.  Node ids are shared with the Python side's object registry. -/
import Lean.Data.Json
import SqlglotModel.Model.Tree
import SqlglotModel.Generated.C08

open Lean (Json)
open SqlglotModel.Tree

abbrev Hp := Heap HT

structure St where
  h : Hp
  count : Nat
  saved : List (Nat × Hp × Nat) := []

def fuel : Nat := 400

/-! A heap is a function; a heap-valued model function is compiled as a function of one more argument, so whatever it
    computes before returning its closure is recomputed at every read. The driver therefore re-materialises the heap into
    an array after every operation (reads stay O(1) across a long history). -/
def compactArr (h : Hp) (count : Nat) : Array (Node HT) := (Array.range count).map h
def ofArr (arr : Array (Node HT)) : Hp := fun j => arr.getD j blank
def compact (s : St) : St := { s with h := ofArr (compactArr s.h s.count) }

def jScalar (j : Json) : Except String Scalar :=
  match j with
  | .null => pure .none
  | .bool b => pure (.bool b)
  | .str s => pure (.str s)
  | .num _ => do
    let i ← j.getInt?
    pure (.int i)
  | _ => throw "scalar"

def jItem (j : Json) : Except String Item := do
  match j.getObjVal? "n" with
  | .ok n => pure (.node (← n.getNat?))
  | .error _ => pure (.leaf (← jScalar (← j.getObjVal? "s")))

def jValue (j : Json) : Except String Value := do
  match j with
  | .null => pure .none
  | _ =>
    match j.getObjVal? "n" with
    | .ok n => pure (.node (← n.getNat?))
    | .error _ =>
      match j.getObjVal? "l" with
      | .ok l => pure (.list (← (← l.getArr?).toList.mapM jItem))
      | .error _ => pure (.leaf (← jScalar (← j.getObjVal? "s")))

def jOptNat (j : Json) : Except String (Option Nat) :=
  match j with
  | .null => pure none
  | _ => do pure (some (← j.getNat?))

def showScalar : Scalar → String
  | .none => "N"
  | .bool true => "T"
  | .bool false => "F"
  | .int i => "i" ++ toString i
  | .str s => "'" ++ s

def showItem : Item → String
  | .node c => "#" ++ toString c
  | .leaf s => showScalar s

def showArg : Arg → String
  | .one c => "#" ++ toString c
  | .leaf s => showScalar s
  | .many items => "[" ++ ",".intercalate (items.map showItem) ++ "]"

def showOptNat : Option Nat → String
  | none => "-"
  | some n => toString n

def showOptStr : Option String → String
  | none => "-"
  | some s => s

def showNode (i : Nat) (nd : Node HT) : String :=
  toString i ++ ":" ++ nd.cls ++ ":" ++ showOptNat nd.parent ++ ":" ++ showOptStr nd.argKey ++ ":" ++
    showOptNat nd.index ++ ":" ++ (if nd.hash.isNone then "hN" else "hS") ++ ":" ++
    ";".intercalate (nd.args.map fun (k, a) => k ++ "=" ++ showArg a)

def dump (s : St) : String :=
  " ".intercalate ((List.range s.count).map fun i => showNode i (s.h i))

def finish (s : St) (r : Option Hp) : St × String :=
  match r with
  | some h' => let s' := { s with h := h' }; (s', "ok|" ++ dump s')
  | none => (s, "fail|")

def handle (s : St) (line : String) : Except String (St × String) := do
  let j ← Json.parse line
  let op ← (← j.getObjVal? "op").getStr?
  match op with
  | "reset" => return ({ h := empty, count := 0 }, "ok|")
  | "save" =>
    let slot ← (← j.getObjVal? "slot").getNat?
    return ({ s with saved := (slot, s.h, s.count) :: s.saved.filter (fun e => e.1 != slot) }, "ok|")
  | "restore" =>
    let slot ← (← j.getObjVal? "slot").getNat?
    match s.saved.find? (fun e => e.1 == slot) with
    | some (_, h, c) => return ({ s with h := h, count := c }, "ok|")
    | none => throw "no such slot"
  | "new" =>
    let id ← (← j.getObjVal? "id").getNat?
    let cls ← (← j.getObjVal? "cls").getStr?
    let raw ← (← j.getObjVal? "raw").getBool?
    let s' : St := { s with h := opNew s.h id cls raw, count := max s.count (id + 1) }
    return (s', "ok|" ++ dump s')
  | "set" =>
    let n ← (← j.getObjVal? "n").getNat?
    let k ← (← j.getObjVal? "k").getStr?
    let v ← jValue (← j.getObjVal? "v")
    let idx ← jOptNat (← j.getObjVal? "idx")
    let ow ← (← j.getObjVal? "ow").getBool?
    return finish s (opSet fuel s.h n k v idx ow)
  | "setneg" =>
    let n ← (← j.getObjVal? "n").getNat?
    let k ← (← j.getObjVal? "k").getStr?
    let back ← (← j.getObjVal? "back").getNat?
    return finish s (opSetNoneNeg fuel s.h n k back SqlglotModel.Generated.C08.negativeIndexNormalised)
  | "root" =>
    let n ← (← j.getObjVal? "n").getNat?
    match rootOf fuel s.h n with
    | some r => return (s, "r " ++ toString r ++ "|" ++ dump s)
    | none => return (s, "fail|")
  | "depth" =>
    let n ← (← j.getObjVal? "n").getNat?
    match depthOf fuel s.h n with
    | some d => return (s, "r " ++ toString d ++ "|" ++ dump s)
    | none => return (s, "fail|")
  | "find_ancestor" =>
    let n ← (← j.getObjVal? "n").getNat?
    let c ← (← j.getObjVal? "cls").getStr?
    match opFindAncestor (fun k => k == c) fuel s.h n with
    | some (some a) => return (s, "r " ++ toString a ++ "|" ++ dump s)
    | some none => return (s, "r -|" ++ dump s)
    | none => return (s, "fail|")
  | "unnest" =>
    let n ← (← j.getObjVal? "n").getNat?
    match unnestOf fuel s.h n with
    | some (some a) => return (s, "r " ++ toString a ++ "|" ++ dump s)
    | some none => return (s, "r -|" ++ dump s)
    | none => return (s, "fail|")
  | "walk" =>
    let n ← (← j.getObjVal? "n").getNat?
    let b ← (← j.getObjVal? "bfs").getBool?
    let c ← (← j.getObjVal? "prune").getStr?
    match opWalk b (fun m => (s.h m).cls == c) fuel s.h n with
    | some l => return (s, "r " ++ ",".intercalate (l.map toString) ++ "|" ++ dump s)
    | none => return (s, "fail|")
  | "find_all" =>
    let n ← (← j.getObjVal? "n").getNat?
    let b ← (← j.getObjVal? "bfs").getBool?
    let c ← (← j.getObjVal? "cls").getStr?
    match opFindAll b (fun k => k == c) fuel s.h n with
    | some l => return (s, "r " ++ ",".intercalate (l.map toString) ++ "|" ++ dump s)
    | none => return (s, "fail|")
  | "repair" =>
    let n ← (← j.getObjVal? "n").getNat?
    let s' : St := { s with h := simplifyRepair s.h n }
    return (s', "ok|" ++ dump s')
  | "transform" =>
    let n ← (← j.getObjVal? "n").getNat?
    let f ← (← j.getObjVal? "fun").getStr?
    let cp := (j.getObjVal? "copy" >>= (·.getBool?)).toOption.getD false
    match (if cp then opTransformCopy fuel (builtinFun fuel f) s.h s.count n
           else opTransform fuel (builtinFun fuel f) s.h s.count n) with
    | some (h', nx, _) => let s' : St := { s with h := h', count := nx }; return (s', "ok|" ++ dump s')
    | none => return (s, "fail|")
  | "rc" =>
    let n ← (← j.getObjVal? "n").getNat?
    let f ← (← j.getObjVal? "fun").getStr?
    match opReplaceChildren fuel (builtinFun fuel f) s.h s.count n with
    | some (h', nx) => let s' : St := { s with h := h', count := nx }; return (s', "ok|" ++ dump s')
    | none => return (s, "fail|")
  | "append" =>
    let n ← (← j.getObjVal? "n").getNat?
    let k ← (← j.getObjVal? "k").getStr?
    let it ← jItem (← j.getObjVal? "it")
    return finish s (opAppend fuel s.h n k it)
  | "replace" =>
    let n ← (← j.getObjVal? "n").getNat?
    let v ← jValue (← j.getObjVal? "v")
    return finish s (opReplaceRec fuel s.h n v)
  | "pop" =>
    let n ← (← j.getObjVal? "n").getNat?
    return finish s (opReplaceRec fuel s.h n .none)
  | "hash" =>
    let n ← (← j.getObjVal? "n").getNat?
    return finish s (fill freeHash fuel s.h n)
  | "eq" =>
    let a ← (← j.getObjVal? "a").getNat?
    let b ← (← j.getObjVal? "b").getNat?
    match opEq freeHash fuel s.h a b with
    | some (h', r) => let s' := { s with h := h' }; return (s', (if r then "true|" else "false|") ++ dump s')
    | none => return (s, "fail|")
  | "copy" =>
    let n ← (← j.getObjVal? "n").getNat?
    match opDeepcopy fuel s.h n s.count with
    | some (h', nx, c) => let s' : St := { s with h := h', count := nx }; return (s', "copy " ++ toString c ++ "|" ++ dump s')
    | none => return (s, "fail|")
  | _ => throw "unknown op"

partial def loop (h : IO.FS.Stream) (s : St) : IO Unit := do
  let line ← h.getLine
  if line.isEmpty then return ()
  match handle s line.trimAscii.toString with
  | .ok (s', out) => IO.println out; loop h (compact s')
  | .error e => IO.println ("bad-op " ++ e ++ "|"); loop h s

def main : IO Unit := do loop (← IO.getStdin) { h := empty, count := 0 }
