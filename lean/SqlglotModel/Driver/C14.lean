/- Line-protocol driver for the C14 model: one JSON request per line in, one canonical outcome per line out.
   {"op":"parse","level":L,"max":n,"maxNodes":null|n,"prog":[item…]}   item = {"c":"raise","m":id} | {"c":"validate","ms":[id…]}
                                                                           | {"c":"try","retreat":b,"body":[item…]} | {"c":"check"}
   {"op":"gen","level":L,"max":n,"calls":[id…],"text":s} -/
import Lean.Data.Json
import SqlglotModel.Model.Levels

open Lean (Json)
open SqlglotModel.Levels

def jLevel (j : Json) : Except String Level := do
  match (← j.getStr?) with
  | "IGNORE" => pure .ignore
  | "WARN" => pure .warn
  | "RAISE" => pure .raise
  | "IMMEDIATE" => pure .immediate
  | _ => throw "level"

def jNats (j : Json) : Except String (List Nat) := do
  (← j.getArr?).toList.mapM (·.getNat?)

partial def jProg (j : Json) : Except String Comb := do
  let items ← j.getArr?
  let cs ← items.toList.mapM fun it => do
    match (← (← it.getObjVal? "c").getStr?) with
    | "raise" => pure (Comb.raiseError (← (← it.getObjVal? "m").getNat?))
    | "validate" =>
      let ms ← jNats (← it.getObjVal? "ms")
      pure (Comb.validate (ms.map fun m => (0, m)) (.node 9 .eps .eps))
    | "try" =>
      let body ← jProg (← it.getObjVal? "body")
      pure (Comb.tryParse body (← (← it.getObjVal? "retreat").getBool?))
    | "check" => pure Comb.checkErrors
    | _ => throw "item"
  pure (cs.foldr (fun c acc => Comb.node 0 c acc) .eps)

def showObs : Obs → String
  | .returned errs log _ => s!"ok errors={errs} log={log}"
  | .raised e _ => s!"exc errors={e.errors} rendered={e.rendered} more={e.more}"
  | .diverged => "diverged"

def handle (line : String) : Except String String := do
  let j ← Json.parse line
  let op ← (← j.getObjVal? "op").getStr?
  let lvl ← jLevel (← j.getObjVal? "level")
  let mx ← (← j.getObjVal? "max").getNat?
  match op with
  | "parse" =>
    let mn := match j.getObjVal? "maxNodes" with
      | .ok v => (v.getNat?).toOption
      | .error _ => none
    let prog ← jProg (← j.getObjVal? "prog")
    let cfg : Cfg := { rules := [], chunks := [], maxErrors := mx, maxNodes := mn, maxNodesMsg := 0 }
    pure (showObs (run cfg 1000000 prog lvl).obs)
  | "gen" =>
    let calls ← jNats (← j.getObjVal? "calls")
    let text ← (← j.getObjVal? "text").getStr?
    let prog := calls.foldr (fun m acc => GComb.seq (.unsupported m) acc) (.text text)
    match generate lvl mx prog [] with
    | .returned sql logged => pure s!"ret same={if sql == text then "True" else "False"} logged={logged}"
    | .raised r k => pure s!"exc rendered={r} more={k}"
  | _ => throw "unknown op"

partial def loop (h : IO.FS.Stream) : IO Unit := do
  let line ← h.getLine
  if line.isEmpty then return ()
  match handle line.trimAscii.toString with
  | .ok out => IO.println out
  | .error e => IO.println ("bad-op " ++ e)
  loop h

def main : IO Unit := do loop (← IO.getStdin)
