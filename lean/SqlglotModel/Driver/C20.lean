/- Line-protocol driver for the C20 model: one JSON diff case per line in, canonical matching + edit multiset out. -/
import Lean.Data.Json
import Std.Data.HashMap
import SqlglotModel.Model.Diff
import SqlglotModel.Generated.C20

open Lean (Json)
open SqlglotModel.Diff

structure NodeRec where
  cls : Nat
  ty : Nat
  parent : Option Nat
  kids : List Nat
  ignored : Bool
  updatable : Bool
  nel : Nat
  eqc : Nat
  akey : Nat
  txt : Nat
  lay : Nat
  deriving Inhabited

def jNat (j : Json) : Except String Nat := j.getNat?
def jNats (j : Json) : Except String (List Nat) := do (← j.getArr?).toList.mapM jNat

def jNode (j : Json) : Except String (Nat × NodeRec) := do
  let a ← j.getArr?
  if h : a.size = 12 then
    let parent ← (match a[3] with
      | .null => pure none
      | p => do pure (some (← jNat p)) : Except String (Option Nat))
    return (← jNat a[0], ⟨← jNat a[1], ← jNat a[2], parent, ← jNats a[4], ← a[5].getBool?, ← a[6].getBool?,
      ← jNat a[7], ← jNat a[8], ← jNat a[9], ← jNat a[10], ← jNat a[11]⟩)
  else throw "node"

def jTree (j : Json) : Except String Tree := do
  let root ← jNat (← j.getObjVal? "root")
  let nodes ← (← (← j.getObjVal? "nodes").getArr?).toList.mapM jNode
  let m : Std.HashMap Nat NodeRec := nodes.foldl (fun m (k, v) => m.insert k v) {}
  let get := fun (i : Nat) => m.getD i ⟨0, 0, none, [], false, false, 0, 0, 0, 0, 0⟩
  return { root := root, size := nodes.length + 1
           cls := fun i => (get i).cls, ty := fun i => (get i).ty, parent := fun i => (get i).parent,
           kids := fun i => (get i).kids, ignored := fun i => (get i).ignored, updatable := fun i => (get i).updatable,
           nel := fun i => (get i).nel, eqc := fun i => (get i).eqc, akey := fun i => (get i).akey,
           txt := fun i => (get i).txt, lay := fun i => (get i).lay }

def jPair (j : Json) : Except String (Nat × Nat) := do
  let a ← j.getArr?
  if h : a.size = 2 then return (← jNat a[0], ← jNat a[1]) else throw "pair"

def showPair (p : Nat × Nat) : String := toString p.1 ++ "-" ++ toString p.2

def showEdit : Edit → String
  | .remove s => "R" ++ toString s
  | .insert t => "I" ++ toString t
  | .keep s t => "K" ++ showPair (s, t)
  | .update s t => "U" ++ showPair (s, t)
  | .move s t => "V" ++ showPair (s, t)
  | .keyError s => "X" ++ toString s

def sortStrs (l : List String) : List String := (l.toArray.qsort (· < ·)).toList

def nodupNat (l : List Nat) : Bool := l.eraseDups.length == l.length

def jOptNat (j : Json) : Except String (Option Nat) :=
  match j with
  | .null => pure none
  | p => do pure (some (← jNat p))

def jWalk (j : Json) : Except String Wrapper.Walk := do
  (← j.getArr?).toList.mapM fun e => do
    let a ← e.getArr?
    if h : a.size = 3 then pure (⟨← jNat a[0], ← jOptNat a[1], ← jOptNat a[2]⟩ : Wrapper.WNode) else throw "wnode"

def b01 (b : Bool) : String := if b then "1" else "0"

/-- the `diff()` wrapper: which trees get copied, are the distiller's trees parent-consistent, how many input objects
    keep a cached hash (inputs come in without hashes; the distiller is assumed to hash everything it sees) -/
def handleWrapper (j : Json) : Except String String := do
  let sw ← jWalk (← j.getObjVal? "sw")
  let tw ← jWalk (← j.getObjVal? "tw")
  let hasM ← (← j.getObjVal? "matchings").getBool?
  let hashed ← jNats (← j.getObjVal? "hashed")
  let outside ← jNats (← j.getObjVal? "outside")
  let hash0 : Nat → Bool := fun x => hashed.contains x
  let r := Wrapper.runDiff SqlglotModel.Generated.C20.wrapperPolicy sw tw (· + 1000000) (· + 2000000) hasM
    (fun _ => true) hash0
  let inputs := (Wrapper.objs sw ++ Wrapper.objs tw).eraseDups
  let changedIn := (inputs.filter fun x => r.hashAfter x != hash0 x).length
  let changedOut := (outside.eraseDups.filter fun x => r.hashAfter x != hash0 x).length
  return s!"W copyS={b01 r.copied.1} copyT={b01 r.copied.2} consS={b01 (Wrapper.consistentB r.seenS)} consT={b01 (Wrapper.consistentB r.seenT)} changedIn={changedIn} changedOut={changedOut}"

def handle (line : String) : Except String String := do
  let j ← Json.parse line
  if (j.getObjVal? "op").toOption == some (Json.str "wrapper") then return (← handleWrapper j)
  let S ← jTree (← j.getObjVal? "src")
  let T ← jTree (← j.getObjVal? "tgt")
  let fj ← jNat (← j.getObjVal? "f")
  let tj ← jPair (← j.getObjVal? "t")
  let pre ← (← (← j.getObjVal? "pre").getArr?).toList.mapM jPair
  let deltaOnly ← (← j.getObjVal? "delta_only").getBool?
  let dl ← (← (← j.getObjVal? "dice").getArr?).toList.mapM fun e => do
    let a ← e.getArr?
    if h : a.size = 3 then pure ((← jNat a[0], ← jNat a[1]), (← jNat a[2] : Nat)) else throw "dice"
  let dm : Std.HashMap (Nat × Nat) Nat := dl.foldl (fun m (k, v) => m.insert k v) {}
  let dice := fun (s t : Nat) => dm.getD (s, t) 0
  -- input well-formedness the theorems assume (diff() guarantees it by copying shared nodes)
  if !(nodupNat S.bfs && nodupNat T.bfs) then return "bad-input bfs"
  if !(S.linkedB && T.linkedB) then return "bad-input links"
  if !(S.wf && T.wf) then return "bad-input wf"
  if !(nodupNat (pre.map (·.1)) && nodupNat (pre.map (·.2))) then return "bad-input pre"
  if !(pre.all fun p => S.index.contains p.1 && T.index.contains p.2) then return "bad-input pre-index"
  let P : Params := { f := fj, t := tj, hi := SqlglotModel.Generated.C20.thrHi,
                      lo := SqlglotModel.Generated.C20.thrLo, minLeaves := SqlglotModel.Generated.C20.minLeaves,
                      cmpIdents := SqlglotModel.Generated.C20.comparesIgnoredLeaves,
                      identsAsDict := SqlglotModel.Generated.C20.ignoredLeavesAsDict,
                      countPre := SqlglotModel.Generated.C20.countsPrematchedLeaves }
  let r := diffTrees P S T dice pre deltaOnly
  return "M " ++ " ".intercalate (sortStrs (r.matching.map showPair)) ++ " | E " ++
    " ".intercalate (sortStrs (r.edits.map showEdit))

partial def loop (h : IO.FS.Stream) : IO Unit := do
  let line ← h.getLine
  if line.isEmpty then return ()
  match handle line.trimAscii.toString with
  | .ok out => IO.println out; loop h
  | .error e => IO.println ("bad-op " ++ e); loop h

def main : IO Unit := do loop (← IO.getStdin)
