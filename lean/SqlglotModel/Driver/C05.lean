/- Line-protocol driver for the C05 models: one JSON request per line in, one canonical answer per line out.
   ops: prog (run a combinator program), tokens (set the current token list), act (replay one recorded activation of
   _try_parse / _parse_csv / _parse_wrapped through the model glue, the wrapped method being the recorded table),
   scan (replay a `_current` trace through the `_scan` progress model). -/
import Lean.Data.Json
import SqlglotModel.Model.Cursor
import SqlglotModel.Model.ScanProgress
import SqlglotModel.Model.FindParser
import SqlglotModel.Model.FormatScan

open Lean (Json)
open SqlglotModel.Cursor

def jNat (j : Json) : Except String Nat := do
  let i ← j.getInt?
  if i < 0 then throw "negative" else pure i.toNat

def jNats (j : Json) : Except String (List Nat) := do
  (← j.getArr?).toList.mapM jNat

def jLevel (j : Json) : Except String Level := do
  match (← j.getStr?) with
  | "IGNORE" => pure .ignore
  | "WARN" => pure .warn
  | "RAISE" => pure .raise
  | "IMMEDIATE" => pure .immediate
  | s => throw ("level " ++ s)

def showLevel : Level → String
  | .ignore => "IGNORE" | .warn => "WARN" | .raise => "RAISE" | .immediate => "IMMEDIATE"

partial def jProg (j : Json) : Except String Comb := do
  let a ← j.getArr?
  if a.size = 0 then throw "prog" else
  let k ← a[0]!.getStr?
  match k, a.size with
  | "eps", 1 => pure .eps
  | "nothing", 1 => pure .nothing
  | "anyTok", 1 => pure .anyTok
  | "advance", 1 => pure .advance
  | "fail", 1 => pure .fail
  | "tok", 2 => pure (.tok (← jNat a[1]!))
  | "peek", 2 => pure (.peek (← jNat a[1]!))
  | "tokSet", 2 => pure (.tokSet (← jNats a[1]!))
  | "pair", 3 => pure (.pair (← jNat a[1]!) (← jNat a[2]!))
  | "andThen", 3 => pure (.andThen (← jProg a[1]!) (← jProg a[2]!))
  | "both", 3 => pure (.both (← jProg a[1]!) (← jProg a[2]!))
  | "orElse", 3 => pure (.orElse (← jProg a[1]!) (← jProg a[2]!))
  | "attempt", 2 => pure (.attempt (← jProg a[1]!))
  | "tryParse", 3 => pure (.tryParse (← jProg a[1]!) (← a[2]!.getBool?))
  | "csv", 3 => pure (.csv (← jProg a[1]!) (← jNat a[2]!))
  | "wrapped", 3 => pure (.wrapped (← jProg a[1]!) (← a[2]!.getBool?))
  | "many", 2 => pure (.many (← jProg a[1]!))
  | "textSeq", 3 => pure (.textSeq (← jNats a[1]!) (← a[2]!.getBool?))
  | "restOfChunk", 1 => pure .restOfChunk
  | "optionLoop", 4 =>
    let m ← match (← a[3]!.getStr?) with
      | "skip" => pure OnFail.skip
      | "breakAfterRaise" => pure OnFail.breakAfterRaise
      | "relyOnRaise" => pure OnFail.relyOnRaise
      | x => throw ("mode " ++ x)
    pure (.optionLoop (← jNat a[1]!) (← jProg a[2]!) m)
  | "peekAt", 4 =>
    let g ← match (← a[3]!.getStr?) with
      | "strict" => pure Guard.strict
      | "offByOne" => pure Guard.offByOne
      | "none" => pure Guard.none
      | x => throw ("guard " ++ x)
    pure (.peekAt (← jNat a[1]!) (← jNat a[2]!) g)
  | "ifTok", 4 => pure (.ifTok (← jNats a[1]!) (← jProg a[2]!) (← jProg a[3]!))
  | "tableLoop", 4 => pure (.tableLoop (← jNats a[1]!) (← jProg a[2]!) (← a[3]!.getBool?))
  | _, _ => throw ("prog " ++ k)

def showRes (r : Res) : String :=
  let tail := " idx=" ++ toString r.2.idx ++ " steps=" ++ toString r.2.steps ++ " errs=" ++ toString r.2.errs ++
    " lvl=" ++ showLevel r.2.lvl
  match r.1 with
  | .ret .none => "ret none" ++ tail
  | .ret .falsy => "ret falsy" ++ tail
  | .ret .truthy => "ret truthy" ++ tail
  | .raised => "raised" ++ tail
  | .internal => "internal" ++ tail
  | .diverged => "diverged"

structure Entry where
  i0 : Nat
  out : Out
  i1 : Nat
  steps : Nat
  lvl : Level
  errs : Nat

def jOut (s : String) : Except String Out :=
  match s with
  | "none" => pure (.ret .none)
  | "falsy" => pure (.ret .falsy)
  | "truthy" => pure (.ret .truthy)
  | "raised" => pure .raised
  | "internal" => pure .internal
  | _ => throw ("out " ++ s)

def jEntry (j : Json) : Except String Entry := do
  let a ← j.getArr?
  if a.size = 6 then
    pure ⟨← jNat a[0]!, ← jOut (← a[1]!.getStr?), ← jNat a[2]!, ← jNat a[3]!, ← jLevel a[4]!, ← jNat a[5]!⟩
  else throw "entry"

/-- the recorded behaviour of the real method as a `P`; an unexpected call (index or level the real run never used)
    answers `diverged`, which no recorded activation can match -/
def tableP (es : List Entry) : P := fun s =>
  match es.find? (fun e => e.i0 = s.idx ∧ e.lvl = s.lvl) with
  | some e => (e.out, { s with idx := e.i1, steps := s.steps + e.steps, errs := s.errs + e.errs })
  | none => (.diverged, s)

open SqlglotModel.ScanProgress in
def jIter (j : Json) : Except String Iter := do
  let a ← j.getArr?
  if a.size = 2 then
    let ms ← (← a[1]!.getArr?).toList.mapM fun m => do
      let i ← m.getInt?
      pure (if i < 0 then Move.back (-i).toNat else Move.fwd i.toNat)
    pure ⟨← jNat a[0]!, ms⟩
  else throw "iter"

def handle (toks : List Tok) (line : String) : Except String (List Tok × String) := do
  let j ← Json.parse line
  let op ← (← j.getObjVal? "op").getStr?
  match op with
  | "prog" =>
    let p ← jProg (← j.getObjVal? "prog")
    let ts ← jNats (← j.getObjVal? "toks")
    let lvl ← jLevel (← j.getObjVal? "lvl")
    let fuel ← jNat (← j.getObjVal? "fuel")
    pure (toks, showRes (run ts fuel p (initSt lvl)))
  | "tokens" => pure (← jNats (← j.getObjVal? "toks"), "ok")
  | "act" =>
    let kind ← (← j.getObjVal? "kind").getStr?
    let i0 ← jNat (← j.getObjVal? "i0")
    let lvl ← jLevel (← j.getObjVal? "lvl")
    let es ← (← (← j.getObjVal? "inner").getArr?).toList.mapM jEntry
    let s0 : St := ⟨i0, 0, 0, lvl⟩
    match kind with
    | "try" => pure (toks, showRes (tryParseS (tableP es) (← (← j.getObjVal? "rt").getBool?) s0))
    | "csv" => pure (toks, showRes (csvS toks (← jNat (← j.getObjVal? "sep")) (toks.length + 1) (tableP es) s0))
    | "wrapped" => pure (toks, showRes (wrappedS toks (tableP es) (← (← j.getObjVal? "optional").getBool?) s0))
    | k => throw ("kind " ++ k)
  | "find" =>
    let keys ← (← (← j.getObjVal? "keys").getArr?).toList.mapM (·.getStr?)
    let ts ← (← (← j.getObjVal? "toks").getArr?).toList.mapM (·.getStr?)
    let r := SqlglotModel.FindParser.findParser (SqlglotModel.FindParser.splitOn ' ') (keys.map String.toList) (ts.map String.toList)
    match r with
    | .found k => pure (toks, "found " ++ (Json.str (String.ofList k)).compress)
    | .notFound => pure (toks, "none")
    | .keyError k => pure (toks, "keyerror " ++ (Json.str (String.ofList k)).compress)
    | .indexError => pure (toks, "indexerror")
  | "fmt" =>
    let str ← (← j.getObjVal? "s").getStr?
    let spec ← (← j.getObjVal? "spec").getStr?
    let r := SqlglotModel.FormatScan.hasTimeSpecifier (fun c => spec.toList.contains c) str.toList
    match r with
    | .found => pure (toks, "true")
    | .notFound => pure (toks, "false")
    | .indexError => pure (toks, "indexerror")
    | .running => pure (toks, "running")
  | "scan" =>
    let size ← jNat (← j.getObjVal? "size")
    let start ← jNat (← j.getObjVal? "start")
    let its ← (← (← j.getObjVal? "iters").getArr?).toList.mapM jIter
    match SqlglotModel.ScanProgress.scanLoop size its start 0 with
    | some (c, n) => pure (toks, "ok current=" ++ toString c ++ " iters=" ++ toString n)
    | none => pure (toks, "undisciplined")
  | o => throw ("op " ++ o)

partial def loop (h : IO.FS.Stream) (out : IO.FS.Stream) (toks : List Tok) : IO Unit := do
  let line ← h.getLine
  if line.isEmpty then return
  let l := line.trimAscii.toString
  if l.isEmpty then
    out.putStrLn "error empty"
    loop h out toks
  else
    match handle toks l with
    | .ok (toks', s) => out.putStrLn s; loop h out toks'
    | .error e => out.putStrLn ("error " ++ e); loop h out toks

def main : IO Unit := do
  let stdin ← IO.getStdin
  let stdout ← IO.getStdout
  loop stdin stdout []
