/- Line-protocol driver for the C02 model: one JSON request per line in, one canonical answer per line out. -/
import Lean.Data.Json
import SqlglotModel.Model.Transpile

open Lean (Json)
open SqlglotModel.Bag SqlglotModel.Transpile

def jOptBool (j : Json) : Except String (Option Bool) :=
  match j with
  | .null => pure none
  | .bool b => pure (some b)
  | _ => throw "optbool"

def jNO (j : Json) : Except String NullOrdering := do
  match NullOrdering.ofString? (← j.getStr?) with
  | some n => pure n
  | none => throw "null ordering"

def jAnn (j : Json) : Except String Ann := do
  match (← j.getStr?) with
  | "none" => pure .none
  | "int" => pure .int
  | "real" => pure .real
  | _ => throw "ann"

def jEngine (j : Json) : Except String Engine := do
  match (← j.getStr?) with
  | "sqlite" => pure .sqlite
  | "duckdb" => pure .duckdb
  | _ => throw "engine"

def jOptInt (j : Json) : Except String (Option Int) :=
  match j with
  | .null => pure none
  | _ => do pure (some (← j.getInt?))

def jVal (j : Json) : Except String Val :=
  match j with
  | .null => pure .null
  | .bool b => pure (.bool b)
  | .str s => pure (.str s)
  | _ => do pure (.int (← j.getInt?))

def showOB : Option Bool → String
  | none => "None"
  | some true => "True"
  | some false => "False"

def showTarget : Target → String
  | .expr => "expr"
  | .isNullFlag => "isnull"

def showNulls : Option Bool → String
  | none => "-"
  | some true => "first"
  | some false => "last"

def showOut (k : OutKey) : String := s!"{showTarget k.target}:{showOB k.desc}:{showNulls k.nulls}"

def showDEx : DEx → String
  | .l => "l"
  | .r => "r"
  | .castDouble e => "(double " ++ showDEx e ++ ")"
  | .castBigint e => "(bigint " ++ showDEx e ++ ")"
  | .nullif0 e => "(nullif0 " ++ showDEx e ++ ")"
  | .div a b => "(div " ++ showDEx a ++ " " ++ showDEx b ++ ")"

def showDV : DV → String
  | .null => "null"
  | .int i => s!"num {i} 1"
  | .real n d => s!"num {n} {d}"
  | .inf neg => if neg then "-inf" else "inf"
  | .nan => "nan"
  | .err => "err"

def showVal : Val → String
  | .null => "N"
  | .bool b => if b then "T" else "F"
  | .int i => toString i
  | .str s => "'" ++ s ++ "'"

def showRow (r : Row) : String := "(" ++ ",".intercalate (r.map showVal) ++ ")"

def jRows (j : Json) : Except String Table := do
  (← j.getArr?).toList.mapM fun r => do (← r.getArr?).toList.mapM jVal

partial def jDT (j : Json) : Except String DT := do
  let a ← j.getArr?
  if h : a.size = 2 then
    match (← a[0].getStr?) with
    | "o" => return .opnd (← a[1].getNat?)
    | "p" => return .paren (← jDT a[1])
    | _ => throw "dt"
  else if h3 : a.size = 3 then
    return .div (← jDT a[1]) (← jDT a[2])
  else throw "dt"

partial def jSetTree (j : Json) : Except String SetTree := do
  let a ← j.getArr?
  if h : a.size = 2 then
    return .leaf (← a[1].getNat?)
  else if h5 : a.size = 5 then
    let k ← match (← a[1].getStr?) with
      | "UNION" => pure SetKind.union
      | "EXCEPT" => pure SetKind.except
      | "INTERSECT" => pure SetKind.intersect
      | _ => throw "setkind"
    return .op k (← a[2].getBool?) (← jSetTree a[3]) (← jSetTree a[4])
  else throw "settree"

def showSetTok : SetTok → String
  | .branch i => s!"b{i}"
  | .kw .union d => if d then "UNION" else "UNION_ALL"
  | .kw .except d => if d then "EXCEPT" else "EXCEPT_ALL"
  | .kw .intersect d => if d then "INTERSECT" else "INTERSECT_ALL"

def handle (line : String) : Except String String := do
  let j ← Json.parse line
  let op ← (← j.getObjVal? "op").getStr?
  match op with
  | "ord" =>
    let src ← jNO (← j.getObjVal? "src")
    let dst ← jNO (← j.getObjVal? "dst")
    let sup ← jOptBool (← j.getObjVal? "sup")
    let spec : OrdSpec := ⟨← jOptBool (← j.getObjVal? "desc"), ← jOptBool (← j.getObjVal? "nulls")⟩
    let o := parseOrdered src spec
    let out := genOrdered dst sup o
    return s!"P {showOB o.desc} {o.nullsFirst} | " ++ " ".intercalate (out.map showOut)
  | "div" =>
    let n := parseDiv (← (← j.getObjVal? "st").getBool?) (← (← j.getObjVal? "ss").getBool?)
    let e := genDiv (← (← j.getObjVal? "dt").getBool?) (← (← j.getObjVal? "ds").getBool?) n
      (← jAnn (← j.getObjVal? "la")) (← jAnn (← j.getObjVal? "ra"))
    return s!"typed={n.typed} safe={n.safe} | " ++ showDEx e
  | "evaldiv" =>
    let eng ← jEngine (← j.getObjVal? "eng")
    let la ← jAnn (← j.getObjVal? "la")
    let ra ← jAnn (← j.getObjVal? "ra")
    let plain ← (← j.getObjVal? "plain").getBool?
    let n := parseDiv (← (← j.getObjVal? "st").getBool?) (← (← j.getObjVal? "ss").getBool?)
    let dt ← (← j.getObjVal? "dt").getBool?
    let ds ← (← j.getObjVal? "ds").getBool?
    let e := if plain then DEx.div .l .r else genDiv dt ds n la ra
    let lv := operandVal la (← jOptInt (← j.getObjVal? "l"))
    let rv := operandVal ra (← jOptInt (← j.getObjVal? "r"))
    return showDV (evalDiv eng e lv rv)
  | "sort" =>
    -- keys: [[column, desc, nulls(null|bool)], ...] read on an engine of class "no"
    let no ← jNO (← j.getObjVal? "no")
    let keys ← (← (← j.getObjVal? "keys").getArr?).toList.mapM fun k => do
      let a ← k.getArr?
      if h : a.size = 3 then
        let c ← a[0].getNat?
        let spec : OrdSpec := ⟨← jOptBool a[1], ← jOptBool a[2]⟩
        pure (specSem no (col c) spec)
      else throw "key"
    let rows ← jRows (← j.getObjVal? "rows")
    let lim ← jOptInt (← j.getObjVal? "limit")
    let off ← (← j.getObjVal? "offset").getNat?
    let sorted := sortBy keys rows
    return " ".intercalate ((limitOffset (lim.map Int.toNat) off sorted).map showRow)
  | "setops" =>
    let t ← jSetTree (← j.getObjVal? "tree")
    return " ".intercalate ((printSetOps t).map showSetTok)
  | "divtree" =>
    let n := parseDiv (← (← j.getObjVal? "st").getBool?) (← (← j.getObjVal? "ss").getBool?)
    let dt ← (← j.getObjVal? "dt").getBool?
    let ds ← (← j.getObjVal? "ds").getBool?
    let anns ← (← (← j.getObjVal? "anns").getArr?).toList.mapM jAnn
    let t ← jDT (← j.getObjVal? "tree")
    return showCEx (genT dt ds n (fun i => anns.getD i .none) t)
  | "hoist" =>
    let taken ← (← (← j.getObjVal? "taken").getArr?).toList.mapM (·.getStr?)
    let k ← (← j.getObjVal? "k").getNat?
    match hoistAliases (← (← j.getObjVal? "base").getStr?) taken k with
    | some names => return " ".intercalate names
    | none => return "internal"
  | "glue" =>
    let arith ← (← (← j.getObjVal? "arith").getArr?).toList.mapM (·.getStr?)
    return dpipeGlueShape arith (← (← j.getObjVal? "tok").getStr?) (← (← j.getObjVal? "dpipeRight").getBool?)
  | "limit" =>
    let f ← (← j.getObjVal? "form").getStr?
    let a ← (← j.getObjVal? "a").getNat?
    let b ← (← j.getObjVal? "b").getNat?
    let form : LimitForm := match f with
      | "limit" => .limit a
      | "limitOffset" => .limitOffset a b
      | "comma" => .comma a b
      | "offsetOnly" => .offsetOnly a
      | _ => .none
    match genLimit (parseLimit form) with
    | .none => return "none"
    | .limit n => return s!"LIMIT {n}"
    | .limitOffset n o => return s!"LIMIT {n} OFFSET {o}"
    | .comma o n => return s!"LIMIT {o}, {n}"
    | .offsetOnly o => return s!"OFFSET {o}"
  | _ => throw s!"unknown op {op}"

partial def loop (h : IO.FS.Stream) (out : IO.FS.Stream) : IO Unit := do
  let line ← h.getLine
  if line.isEmpty then return
  let l := line.trimAscii.toString
  match handle l with
  | .ok s => out.putStrLn s
  | .error e => out.putStrLn ("harness-error " ++ e)
  loop h out

def main : IO Unit := do
  loop (← IO.getStdin) (← IO.getStdout)
