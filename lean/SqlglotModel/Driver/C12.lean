/- Line-protocol driver for the C12 serde model: one JSON request per line in, one answer per line out.
   {"op":"dump","tree":T,"payload":P}   -> "ok" iff the model's dump of T equals the real payload list P
   {"op":"load","payload":P,"expect":T} -> "ok" iff the model's load of P equals T ("err" = Python raised, "none" = returned None)
   Trees: {"c":cls,"t":tree|null,"o":[str]|null,"m":{..}|null,"a":[[k,0,v]|[k,1,[v..]]]} | {"d":dtype} | {"r":raw}.
   Payload keys come from Generated/C12.lean (extracted from serde.py on every run). -/
import Lean.Data.Json
import SqlglotModel.Model.Serde
import SqlglotModel.Generated.C12

open Lean (Json)
open SqlglotModel.Serde
open SqlglotModel.Generated.C12

partial def rawOfJson : Json → Except String Raw
  | .null => pure .null
  | .bool b => pure (.bool b)
  | .str s => pure (.str s)
  | .arr a => do pure (.arr (← a.toList.mapM rawOfJson))
  | j@(.num _) => match j.getInt? with
    | .ok i => pure (.int i)
    | .error _ => throw "non-integer number"
  | .obj _ => throw "object as raw value"

partial def rawToJson : Raw → Json
  | .null => .null
  | .bool b => .bool b
  | .int i => Json.num (Lean.JsonNumber.fromInt i)
  | .str s => .str s
  | .arr l => .arr (l.map rawToJson).toArray

def optField (j : Json) (k : String) : Option Json :=
  match j.getObjVal? k with
  | .ok v => some v
  | .error _ => none

def commentsOfJson (j : Json) : Except String Comments :=
  if j.isNull then pure none else do
    pure (some (← (← j.getArr?).toList.mapM (·.getStr?)))

mutual
partial def metaOfJson (j : Json) : Except String Meta :=
  if j.isNull then pure none else do
    let o ← j.getObj?
    pure (some (← o.toList.mapM fun (k, v) => do
      match optField v "$e" with
      | some e => pure (MetaE.expr k (← valOfJson e))
      | none => pure (MetaE.raw k (← rawOfJson v))))

partial def valOfJson (j : Json) : Except String Val := do
  match optField j "d" with
  | some d => pure (.dtype (← d.getStr?))
  | none =>
    match optField j "r" with
    | some r => pure (.raw (← rawOfJson r))
    | none =>
      let cls ← (← j.getObjVal? "c").getStr?
      let tj ← j.getObjVal? "t"
      let ty ← if tj.isNull then pure none else do pure (some (← valOfJson tj))
      let c ← commentsOfJson (← j.getObjVal? "o")
      let m ← metaOfJson (← j.getObjVal? "m")
      let args ← (← (← j.getObjVal? "a").getArr?).toList.mapM fun a => do
        let t ← a.getArr?
        if h : t.size = 3 then
          let k ← t[0].getStr?
          let kind ← t[1].getNat?
          if kind = 0 then pure (Arg.one k (← valOfJson t[2]))
          else pure (Arg.many k (← (← t[2].getArr?).toList.mapM valOfJson))
        else throw "arg triple"
      pure (.node cls ty c m args)
end

def commentsToJson : Comments → Json
  | none => .null
  | some l => .arr (l.map Json.str).toArray

mutual
partial def metaToJson : Meta → Json
  | none => .null
  | some l => Json.mkObj (l.map fun
      | .raw k r => (k, rawToJson r)
      | .expr k v => (k, Json.mkObj [("$e", valToJson v)]))

partial def valToJson : Val → Json
  | .dtype s => Json.mkObj [("d", .str s)]
  | .raw r => Json.mkObj [("r", rawToJson r)]
  | .node cls ty c m args => Json.mkObj [
      ("c", .str cls),
      ("t", match ty with | none => .null | some t => valToJson t),
      ("o", commentsToJson c),
      ("m", metaToJson m),
      ("a", .arr (args.map fun
        | .one k v => Json.arr #[.str k, (0 : Nat), valToJson v]
        | .many k vs => Json.arr #[.str k, (1 : Nat), .arr (vs.map valToJson).toArray]).toArray)]
end

/-- a payload dict in the format of serde.py (absent keys are absent) -/
partial def payloadToJson : Payload → Json
  | .mk i k a cls ty c m v =>
    Json.mkObj <|
      (match i with | some n => [(keyIndex, (n : Json))] | none => []) ++
      (match k with | some s => [(keyArgKey, Json.str s)] | none => []) ++
      (if a then [(keyIsArray, Json.bool true)] else []) ++
      (match cls with | some s => [(keyClass, Json.str s)] | none => []) ++
      (match ty with | some ps => [(keyType, Json.arr (ps.map payloadToJson).toArray)] | none => []) ++
      (match c with | some l => [(keyComments, Json.arr (l.map Json.str).toArray)] | none => []) ++
      (match m with
        | some l => [(keyMeta, Json.mkObj (l.map fun
            | .raw k r => (k, rawToJson r)
            | .expr k ps => (k, Json.mkObj [(keyMetaExpr, Json.arr (ps.map payloadToJson).toArray)])))]
        | none => []) ++
      (match v with | some r => [(keyValue, rawToJson r)] | none => [])

/-- strict reading of a payload dict: unknown keys, `"a": false`, ill-typed fields are refused -/
partial def payloadOfJson (j : Json) : Except String Payload := do
  let o ← j.getObj?
  for (k, _) in o.toList do
    if !(allKeys.contains k) then throw s!"unknown payload key {k}"
  let i ← match optField j keyIndex with
    | some x => do pure (some (← x.getNat?))
    | none => pure none
  let k ← match optField j keyArgKey with
    | some x => do pure (some (← x.getStr?))
    | none => pure none
  let a ← match optField j keyIsArray with
    | some x => do
      let b ← x.getBool?
      if b then pure true else throw "is_array false"
    | none => pure false
  let cls ← match optField j keyClass with
    | some x => do pure (some (← x.getStr?))
    | none => pure none
  let ty ← match optField j keyType with
    | some x => do pure (some (← (← x.getArr?).toList.mapM payloadOfJson))
    | none => pure none
  let c ← match optField j keyComments with
    | some x => do
      if x.isNull then throw "comments null" else commentsOfJson x
    | none => pure none
  let m ← match optField j keyMeta with
    | some x => do
      if x.isNull then throw "meta null" else
        let o ← x.getObj?
        pure (some (← o.toList.mapM fun (k, v) => do
          match v with
          | .obj _ =>
            match optField v keyMetaExpr with
            | some e => pure (PMeta.expr k (← (← e.getArr?).toList.mapM payloadOfJson))
            | none => throw "dict meta value"
          | _ => pure (PMeta.raw k (← rawOfJson v))))
    | none => pure none
  let v ← match optField j keyValue with
    | some x => do pure (some (← rawOfJson x))
    | none => pure none
  pure (.mk i k a cls ty c m v)

def optNat : Option Nat → Json
  | none => .null
  | some n => (n : Json)

def cellsToJson (A : List Cell) : Json :=
  .arr (A.map fun
    | .node _ _ _ _ _ l h =>
      match l with
      | none => Json.arr #[.str "n", .null, .null, .null, .bool h.isNone]
      | some lk => Json.arr #[.str "n", (lk.parent : Json), .str lk.key, optNat lk.index, .bool h.isNone]
    | _ => Json.str "s").toArray

/-- arena indices in pre-order from `root` (children in args order, list elements in order) -/
partial def preorder (A : List Cell) (root : Nat) : List Nat :=
  match A[root]? with
  | some (.node _ _ _ _ args _ _) =>
    root :: (args.flatMap fun (_, s) => match s with
      | .one r => preorder A r
      | .many rs => rs.flatMap (preorder A))
  | _ => [root]

/-- the same view as `cellsToJson`, cells listed and numbered in pre-order -/
def preorderView (A : List Cell) : Json :=
  let order := preorder A 0
  let num := fun (i : Nat) => order.idxOf i
  .arr (order.map fun i => match A[i]? with
    | some (.node _ _ _ _ _ l h) =>
      match l with
      | none => Json.arr #[.str "n", .null, .null, .null, .bool h.isNone]
      | some lk => Json.arr #[.str "n", (num lk.parent : Json), .str lk.key, optNat lk.index, .bool h.isNone]
    | _ => Json.str "s").toArray

/-- the classes taking the special branches of `Expression.type` (Generated/C12.lean, from the live classes) -/
def rules : TypeRules where
  isDataType := fun c => dataTypeClasses.contains c
  isCast := fun c => castClasses.contains c

def genKeys : Keys where
  index := keyIndex
  key := keyArgKey
  isArr := keyIsArray
  cls := keyClass
  ty := keyType
  comments := keyComments
  mta := keyMeta
  value := keyValue
  metaExpr := keyMetaExpr

def tokToJson : Tok → Json
  | .lbrace => "{" | .rbrace => "}" | .lbrack => "[" | .rbrack => "]" | .comma => "," | .colon => ":"
  | .null => "null" | .tt => "true" | .ff => "false"
  | .num i => Json.arr #["n", Json.num (Lean.JsonNumber.fromInt i)]
  | .str s => Json.arr #["s", .str s]

/-- `cls.key`: the class name (last component of the dumped name), lower-cased -/
def keyOfCls (c : String) : String := ((c.splitOn ".").getLast?.getD c).toLower

def hashRules : HashRules where
  rawArgs := fun c => hashRawArgClasses.contains c
  keyOf := keyOfCls
  lower := String.toLower

partial def eqkToJson : EqK → Json
  | .node k items => Json.arr #[.str "n", .str k, .arr (items.map fun (a, b) =>
      Json.arr #[.str a, match b with | none => .null | some x => eqkToJson x]).toArray]
  | .str s => Json.arr #[.str "s", .str s]
  | .int i => Json.arr #[.str "i", Json.num (Lean.JsonNumber.fromInt i)]
  | .dtype s => Json.arr #[.str "d", .str s]
  | .unhashable => .str "unhashable"

def clsOf : Val → String
  | .node cls .. => cls
  | _ => ""

def handle (line : String) : Except String String := do
  let j ← Json.parse line
  let op ← (← j.getObjVal? "op").getStr?
  match op with
  | "dump" =>
    let t ← valOfJson (← j.getObjVal? "tree")
    let want ← j.getObjVal? "payload"
    -- the tree carries raw `_type` fields: the model applies the `type` property itself
    let got := Json.arr ((realDump rules t).map payloadToJson).toArray
    if got == want then pure "ok" else pure ("diff " ++ got.compress)
  | "load" =>
    let ps ← (← (← j.getObjVal? "payload").getArr?).toList.mapM payloadOfJson
    let want ← j.getObjVal? "expect"
    let got : Json := match load ps with
      | none => .str "err"
      | some none => .str "none"
      | some (some v) => valToJson v
    if got == want then pure "ok" else pure ("diff " ++ got.compress)
  | "arena" =>
    -- the object graph itself: per cell "s" (scalar / DType) or ["n", parent|null, arg_key|null, index|null, hashIsNone]
    let ps ← (← (← j.getObjVal? "payload").getArr?).toList.mapM payloadOfJson
    let want ← j.getObjVal? "expect"
    let got : Json := match loadArena ps with
      | none => .str "err"
      | some A => cellsToJson A
    if got == want then pure "ok" else pure ("diff " ++ got.compress)
  | "copy" =>
    -- model of __deepcopy__: the copy read back as a tree, and its object graph (links, which hashes survive)
    let t ← valOfJson (← j.getObjVal? "tree")
    let hashed ← (← j.getObjVal? "hashed").getBool?
    let hashOf : Val → Option Nat := fun _ => if hashed then some 1 else none
    let want ← j.getObjVal? "expect"
    let wantView ← j.getObjVal? "view"
    match copyArena hashOf t with
    | none => pure "diff copy-raises"
    | some B =>
      let got : Json := match reify B t.size 0 with
        | none => .str "err"
        | some v => valToJson v
      if got != want then pure ("diff " ++ got.compress)
      else
        let gv := preorderView B
        if gv == wantView then pure "ok" else pure ("diffview " ++ gv.compress)
  | "jsontok" =>
    -- the token sequence of json.dumps(payloads) vs the model's `render` of the payload list
    let ps ← (← (← j.getObjVal? "payload").getArr?).toList.mapM payloadOfJson
    let want ← j.getObjVal? "tokens"
    let toks := render (.list (payloadsToPy genKeys ps))
    let got := Json.arr (toks.map tokToJson).toArray
    let back := match parse (toks.length + 1) toks with
      | some (v, []) => (render v == toks)
      | _ => false
    if got == want && back then pure "ok" else pure ("diff " ++ got.compress)
  | "eq" =>
    -- the model of `a == b`: same class and same `__hash__` fold
    let a ← valOfJson (← j.getObjVal? "a")
    let b ← valOfJson (← j.getObjVal? "b")
    let want ← (← j.getObjVal? "expect").getBool?
    let got := clsOf a == clsOf b && eqkToJson (a.nf hashRules) == eqkToJson (b.nf hashRules)
    if got == want then pure "ok" else pure ("diff " ++ toString got ++ " " ++ (eqkToJson (a.nf hashRules)).compress)
  | "norm" =>
    let t ← valOfJson (← j.getObjVal? "tree")
    pure (valToJson t.norm).compress
  | _ => throw "unknown op"

partial def loop (h : IO.FS.Stream) (out : IO.FS.Stream) : IO Unit := do
  let line ← h.getLine
  if line.isEmpty then return
  let l := line.trimAscii.toString
  match handle l with
  | .ok s => out.putStrLn s
  | .error e => out.putStrLn ("bad " ++ e)
  loop h out

def main : IO Unit := do
  loop (← IO.getStdin) (← IO.getStdout)
