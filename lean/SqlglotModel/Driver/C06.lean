/- Line-protocol driver for the C06 model: one JSON request per line in, one JSON answer per line out. -/
import Lean.Data.Json
import SqlglotModel.Model.Simplify
import SqlglotModel.Generated.C06

open Lean (Json)
open SqlglotModel.ThreeVL SqlglotModel.Simplify

def cmpOfString : String → Except String Cmp
  | "eq" => pure .eq | "neq" => pure .neq | "lt" => pure .lt | "lte" => pure .lte | "gt" => pure .gt | "gte" => pure .gte
  | s => throw ("cmp " ++ s)

def cmpToString : Cmp → String
  | .eq => "eq" | .neq => "neq" | .lt => "lt" | .lte => "lte" | .gt => "gt" | .gte => "gte"

partial def jE (j : Json) : Except String E := do
  let a ← j.getArr?
  let tag ← (a[0]!).getStr?
  let arg (i : Nat) : Except String E := jE (a[i]!)
  let lst (j : Json) : Except String E := do
    let xs ← j.getArr?
    let es ← xs.toList.mapM jE
    pure (es.foldr (fun x acc => E.cons x acc) E.nil)
  match tag with
  | "null" => pure .null
  | "absent" => pure .absent
  | "bool" => pure (.bool (← (a[1]!).getBool?))
  | "int" => pure (.int (← (a[1]!).getInt?))
  | "bcol" => pure (.bcol (← (a[1]!).getNat?) (← (a[2]!).getBool?))
  | "icol" => pure (.icol (← (a[1]!).getNat?) (← (a[2]!).getBool?))
  | "and" => pure (.and (← arg 1) (← arg 2))
  | "or" => pure (.or (← arg 1) (← arg 2))
  | "not" => pure (.not (← arg 1))
  | "paren" => pure (.paren (← arg 1))
  | "cmp" => pure (.cmp (← cmpOfString (← (a[1]!).getStr?)) (← arg 2) (← arg 3))
  | "is" => pure (.is (← arg 1) (← arg 2))
  | "between" => pure (.between (← arg 1) (← arg 2) (← arg 3))
  | "in" => pure (.inList (← arg 1) (← lst (a[2]!)))
  | "coalesce" => pure (.coalesce (← lst (a[1]!)))
  | "case" => pure (.case (← lst (a[1]!)) (← arg 2))
  | "if" => pure (.iff (← arg 1) (← arg 2) (← arg 3))
  | "add" => pure (.add (← arg 1) (← arg 2))
  | "sub" => pure (.sub (← arg 1) (← arg 2))
  | "mul" => pure (.mul (← arg 1) (← arg 2))
  | "neg" => pure (.neg (← arg 1))
  | s => throw ("tag " ++ s)

partial def eJ : E → Json
  | .null => Json.arr #["null"]
  | .absent => Json.arr #["absent"]
  | .nil => Json.arr #["nil"]
  | .cons h t => Json.arr #["cons", eJ h, eJ t]
  | .bool v => Json.arr #["bool", v]
  | .int n => Json.arr #["int", Json.num (Lean.JsonNumber.fromInt n)]
  | .bcol k nn => Json.arr #["bcol", (k : Nat), nn]
  | .icol k nn => Json.arr #["icol", (k : Nat), nn]
  | .and a b => Json.arr #["and", eJ a, eJ b]
  | .or a b => Json.arr #["or", eJ a, eJ b]
  | .not a => Json.arr #["not", eJ a]
  | .paren a => Json.arr #["paren", eJ a]
  | .cmp op a b => Json.arr #["cmp", cmpToString op, eJ a, eJ b]
  | .is a b => Json.arr #["is", eJ a, eJ b]
  | .between a lo hi => Json.arr #["between", eJ a, eJ lo, eJ hi]
  | .inList a xs => Json.arr #["in", eJ a, lJ xs]
  | .coalesce xs => Json.arr #["coalesce", lJ xs]
  | .case ifs d => Json.arr #["case", lJ ifs, eJ d]
  | .iff c t f => Json.arr #["if", eJ c, eJ t, eJ f]
  | .add a b => Json.arr #["add", eJ a, eJ b]
  | .sub a b => Json.arr #["sub", eJ a, eJ b]
  | .mul a b => Json.arr #["mul", eJ a, eJ b]
  | .neg a => Json.arr #["neg", eJ a]
where
  lJ (xs : E) : Json := Json.arr (go xs #[])
  go : E → Array Json → Array Json
    | .cons h t, acc => go t (acc.push (eJ h))
    | _, acc => acc

def pkOfString : String → PK
  | "none" => .none | "not" => .not | "and" => .and | "or" => .or | "paren" => .paren | "cmp" => .cmp | "is" => .is
  | "between" => .between | "in" => .inList | "coalesce" => .coalesce | "case" => .case | "if" => .iff
  | "add" => .add | "sub" => .sub | "mul" => .mul | "neg" => .neg | _ => .other

def pkindOfString : String → Except String PKind
  | "none" => pure .none | "func" => pure .func | "paren" => pure .paren | "or" => pure .or | "and" => pure .and
  | "not" => pure .not | "eq" => pure .eq | "rel" => pure .rel | "is" => pure .is | "between" => pure .between
  | "inList" => pure .inList | "add" => pure .add | "sub" => pure .sub | "mul" => pure .mul | "neg" => pure .neg
  | "atom" => pure .atom
  | s => throw ("pkind " ++ s)

def ruleOfString : String → Except String Rule
  | "uniq_sort" => pure .uniqSort | "absorb_and_eliminate" => pure .absorbAndEliminate
  | "remove_complements" => pure .removeComplements | "flatten" => pure .flatten
  | "distributive_law" => pure .distributiveLaw | "normalize" => pure .normalize
  | "sort_comparison" => pure .sortComparison
  | s => throw ("rule " ++ s)

def binKOfString : String → Except String BinK
  | "is" => pure .is | "add" => pure .add | "sub" => pure .sub | "mul" => pure .mul
  | s => do pure (.cmp (← cmpOfString s))

def valJ : Val → Json
  | .null => Json.null
  | .b v => Json.bool v
  | .i n => Json.num (Lean.JsonNumber.fromInt n)

def optArr (j : Json) : Except String (List (Option Json)) := do
  pure ((← j.getArr?).toList.map (fun x => if x.isNull then none else some x))

def handle (line : String) : Except String Json := do
  let j ← Json.parse line
  let op ← (← j.getObjVal? "op").getStr?
  let getE (k : String) : Except String E := do jE (← j.getObjVal? k)
  let getB (k : String) : Except String Bool := do (← j.getObjVal? k).getBool?
  let getS (k : String) : Except String String := do (← j.getObjVal? k).getStr?
  let C := SqlglotModel.Generated.C06.complement
  let I := SqlglotModel.Generated.C06.inverseCmp
  match op with
  | "rewrite_between" => pure (eJ (rewriteBetween (pkOfString (← getS "p")) (← getE "e")))
  | "simplify_not" =>
    pure (eJ (simplifyNot C ⟨← getB "sdn", false⟩ (pkOfString (← getS "p")) (← getB "ib") (← getE "e")))
  | "conn_pair" =>
    match connPair (← getB "and") (← getE "l") (← getE "r") with
    | .none => pure (Json.arr #["none"])
    | .same => pure (Json.arr #["same"])
    | .res x => pure (Json.arr #["res", eJ x])
  | "bin_pair" =>
    match binPair (← binKOfString (← getS "k")) (← getB "pif") (← getB "sp") (← getE "a") (← getE "b") with
    | none => pure (Json.arr #["none"])
    | some x => pure (Json.arr #["res", eJ x])
  | "flat_simplify" =>
    let gate ← getB "gate"
    let e ← getE "e"
    match (← getS "k") with
    | "and" => pure (eJ (flatSimplify .and (connPairOpt true) gate e))
    | "or" => pure (eJ (flatSimplify .or (connPairOpt false) gate e))
    | "add" => pure (eJ (flatSimplify .add (binPair .add (← getB "pif") true) gate e))
    | "mul" => pure (eJ (flatSimplify .mul (binPair .mul (← getB "pif") true) gate e))
    | s => throw ("flat kind " ++ s)
  | "neg_neg" => pure (eJ (simplifyNegNeg (← getE "e")))
  | "simplify_equality" =>
    pure (eJ (simplifyEquality I SqlglotModel.Generated.C06.addInverseIsSub SqlglotModel.Generated.C06.subInverseIsAdd (← getE "e")))
  | "simplify_conditionals" => pure (eJ (simplifyConditionals (pkOfString (← getS "p")) (← getE "e")))
  | "simplify_coalesce" => pure (eJ (simplifyCoalesce ⟨false, ← getB "cns"⟩ (pkOfString (← getS "p")) (← getE "e")))
  | "simplify_parens" => pure (eJ (simplifyParens (pkOfString (← getS "p")) (← getE "e")))
  | "flatten" => pure (eJ (flatten1 (← getE "e")))
  | "helpers" =>
    let e ← getE "e"
    let num := numVal? e
    pure (Json.arr #[Json.bool (isConstant e), Json.bool num.isSome, Json.bool (isNullE e), Json.bool (isZeroE e),
      Json.bool (isFalseE e), Json.bool (alwaysTrue e), Json.bool (alwaysFalse e), Json.bool (isNonnullConstant e),
      match num with | some n => Json.num (Lean.JsonNumber.fromInt n) | none => Json.null])
  | "reparse_safe" =>
    pure (Json.bool (reparseSafe (← pkindOfString (← getS "p")) (← (← j.getObjVal? "pos").getNat?) (← pkindOfString (← getS "c"))))
  | "propagate_constants" =>
    match propagateConstants (← getB "gate") (← getE "e") with
    | some r => pure (Json.arr #["res", eJ r])
    | none => pure (Json.arr #["conflict"])
  | "remove_complements" =>
    let e ← getE "e"
    pure (Json.arr #[eJ (removeComplements (← getB "gate") (← getB "nonnull") e), Json.bool (nonNullE e)])
  | "uniq_sort" =>
    let order ← (← (← j.getObjVal? "order").getArr?).toList.mapM jE
    pure (eJ (uniqSortWith order (← getB "gate") (← getE "e")))
  | "dist_law" => pure (eJ (distLaw id (← getB "dnf") (← getE "e")))
  | "norm_distance" => pure (Json.num (Lean.JsonNumber.fromInt (normalizationDistance (← getB "dnf") (← getE "e"))))
  | "check_normalize" => pure (Json.bool (checkNormalize I (← getB "dnf") (← getE "a") (← getE "b")))
  | "normalized" => pure (Json.bool (normalizedM (← getB "dnf") (← getE "e")))
  | "check" => pure (Json.bool (checkStep I (← ruleOfString (← getS "rule")) (← getE "a") (← getE "b")))
  | "eval" =>
    let bs ← optArr (← j.getObjVal? "b")
    let is_ ← optArr (← j.getObjVal? "i")
    let bs' ← bs.mapM (fun (x : Option Json) => match x with
      | none => pure (none : Option Bool) | some v => do pure (some (← v.getBool?)))
    let is' ← is_.mapM (fun (x : Option Json) => match x with
      | none => pure (none : Option Int) | some v => do pure (some (← v.getInt?)))
    let env : Env := ⟨fun k => (bs'.getD k none), fun k => (is'.getD k none)⟩
    pure (valJ (eval env (← getE "e")))
  | _ => throw "unknown op"

partial def loop (h : IO.FS.Stream) : IO Unit := do
  let line ← h.getLine
  if line.isEmpty then return ()
  match handle line.trimAscii.toString with
  | .ok out => IO.println out.compress; loop h
  | .error e => IO.println (Json.compress (Json.arr #["error", e])); loop h

def main : IO Unit := do loop (← IO.getStdin)
