/- Line-protocol driver for the C01 model: one JSON request per line in, one JSON answer per line out. -/
import Lean.Data.Json
import SqlglotModel.Model.Parse
import SqlglotModel.Model.Gen
import SqlglotModel.Model.TimeFmt
import SqlglotModel.Generated.C01

open Lean (Json)
open SqlglotModel.Expr SqlglotModel.Parse SqlglotModel.Gen

def jTok (j : Json) : Except String Tok := do
  let a ← j.getArr?
  if h : a.size = 2 then return ⟨← a[0].getStr?, ← a[1].getStr?⟩ else throw "tok"

def tokJ (t : Tok) : Json := Json.arr #[Json.str t.ty, Json.str t.text]

def errName : Err → String
  | .syntax => "syntax" | .unsupported => "unsupported" | .fuel => "fuel"

def findTables (d : String) : Option Tables :=
  (SqlglotModel.Generated.C01.dialects.find? (·.1 == d)).map (·.2)

def handle (line : String) : Except String Json := do
  let j ← Json.parse line
  let op ← (← j.getObjVal? "op").getStr?
  match op with
  | "parse" =>
    let d ← (← j.getObjVal? "d").getStr?
    let some tbl := findTables d | throw "dialect"
    let ts ← (← (← j.getObjVal? "toks").getArr?).toList.mapM jTok
    match parse tbl ts with
    | .error e => return Json.mkObj [("err", errName e)]
    | .ok (e, rest) =>
      if !rest.isEmpty then return Json.mkObj [("err", "trailing"), ("n", rest.length)] else
      let out := g tbl e
      let again : Json := match parse tbl out with
        | .ok (e2, []) => Json.str (sexp e2)
        | .ok (_, _) => Json.str "!trailing"
        | .error er => Json.str ("!" ++ errName er)
      return Json.mkObj [("sexp", sexp e), ("sql", sql tbl e), ("toks", Json.arr (out.map tokJ).toArray), ("sexp2", again)]
  | "ft" =>
    let s ← (← j.getObjVal? "s").getStr?
    let m ← (← (← j.getObjVal? "m").getArr?).toList.mapM fun p => do
      let a ← p.getArr?
      if h : a.size = 2 then pure ((← a[0].getStr?), (← a[1].getStr?)) else throw "pair"
    match SqlglotModel.TimeFmt.formatTime s m with
    | none => return Json.mkObj [("r", Json.null)]
    | some none => return Json.mkObj [("r", "!internal")]
    | some (some r) => return Json.mkObj [("r", Json.str ("=" ++ r))]
  | _ => throw "unknown op"

partial def loop (h : IO.FS.Stream) : IO Unit := do
  let line ← h.getLine
  if line.isEmpty then return ()
  match handle line.trimAscii.toString with
  | .ok j => IO.println j.compress
  | .error e => IO.println (Json.mkObj [("bad", e)]).compress
  loop h

def main : IO Unit := do loop (← IO.getStdin)
