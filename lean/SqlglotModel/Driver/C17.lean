/- Line-protocol driver for the C17 model: one JSON request per line (flattened scopes of a qualified query, root index,
   output column names) in; one JSON answer per line out: per-column leaves with a fresh cache, leaves of the
   shared-cache `lineage(None)` run, the uncached leaves, and the final cache (keys, node names, leaves). -/
import Lean.Data.Json
import SqlglotModel.Model.Lineage
import SqlglotModel.Generated.C17

open Lean (Json)
open SqlglotModel.Lineage

def jStrs (j : Json) : Except String (List String) := do
  (← j.getArr?).toList.mapM (·.getStr?)

def jOptStr (j : Json) : Except String (Option String) :=
  match j with
  | .null => pure none
  | _ => do pure (some (← j.getStr?))

def jPair (j : Json) : Except String (String × String) := do
  let a ← j.getArr?
  if h : a.size = 2 then pure ((← a[0].getStr?), (← a[1].getStr?)) else throw "pair"

def jSubq (j : Json) : Except String (Nat × List String) := do
  let a ← j.getArr?
  if h : a.size = 2 then pure ((← a[0].getNat?), (← jStrs a[1])) else throw "subq"

def jProj (j : Json) : Except String Proj := do
  let name ← (← j.getObjVal? "name").getStr?
  let cols ← (← (← j.getObjVal? "cols").getArr?).toList.mapM jPair
  let subqs ← (← (← j.getObjVal? "subqs").getArr?).toList.mapM jSubq
  pure ⟨name, cols, subqs⟩

def jSrc (j : Json) : Except String (String × Src) := do
  let a ← j.getArr?
  if h : a.size = 2 then
    let alias ← a[0].getStr?
    let o := a[1]
    match (← (← o.getObjVal? "t").getStr?) with
    | "table" => pure (alias, .table (← (← o.getObjVal? "name").getStr?))
    | "scope" =>
      pure (alias, .scope (← (← o.getObjVal? "idx").getNat?) (← (← o.getObjVal? "cte").getBool?)
        (← jOptStr (← o.getObjVal? "ref")) (← jOptStr (← o.getObjVal? "tag")))
    | _ => throw "src kind"
  else throw "src"

def jScope (j : Json) : Except String LScope := do
  match (← (← j.getObjVal? "k").getStr?) with
  | "select" =>
    let projs ← (← (← j.getObjVal? "projs").getArr?).toList.mapM jProj
    let fb ← jProj (← j.getObjVal? "fb")
    let srcs ← (← (← j.getObjVal? "srcs").getArr?).toList.mapM jSrc
    pure (.select projs fb srcs)
  | "union" =>
    pure (.union (← (← j.getObjVal? "op").getStr?) (← (← j.getObjVal? "l").getNat?) (← (← j.getObjVal? "r").getNat?)
      (← jStrs (← j.getObjVal? "names")))
  | "wrap" => pure (.wrap (← (← j.getObjVal? "inner").getNat?))
  | _ => throw "scope kind"

def leavesJson (l : List Leaf) : Json :=
  if l.contains errLeaf then Json.str "error"
  else Json.arr (l.map fun (t, c) => Json.arr #[Json.str t, Json.str c]).toArray

def optJson : Option String → Json
  | none => Json.null
  | some s => Json.str s

def colJson : Col → Json
  | .name s => Json.str ("n:" ++ s)
  | .idx i => Json.str ("i:" ++ toString i)

def keyJson (kv : Key × Res) : Json :=
  let k := kv.1
  Json.mkObj [
    ("col", match k.col with | some c => colJson c | none => Json.str "-"),
    ("scope", match k.scope with | some s => Json.num s | none => Json.str "-"),
    ("scopeName", match k.scopeName with | some s => optJson s | none => Json.str "-"),
    ("sourceName", match k.sourceName with | some s => optJson s | none => Json.str "-"),
    ("refName", match k.refName with | some s => optJson s | none => Json.str "-"),
    ("node", Json.str kv.2.name),
    ("nodeSource", Json.str kv.2.sourceName),
    ("nodeRef", Json.str kv.2.refName),
    ("leaves", leavesJson kv.2.leaves)]

def jIdent (j : Json) : Except String SqlglotModel.Ident.Ident := do
  let a ← j.getArr?
  if h : a.size = 2 then pure ⟨← a[0].getStr?, ← a[1].getBool?⟩ else throw "ident"

def jIdents (j : Json) : Except String (List SqlglotModel.Ident.Ident) := do
  (← j.getArr?).toList.mapM jIdent

def jImplicit (j : Json) : Except String (List (Nat × String)) := do
  (← j.getArr?).toList.mapM fun e => do
    let a ← e.getArr?
    if h : a.size = 2 then pure (← a[0].getNat?, ← a[1].getStr?) else throw "implicit"

def jDef (j : Json) : Except String KeyedDef := do
  let key ← jIdents (← j.getObjVal? "key")
  let scopes ← (← (← j.getObjVal? "scopes").getArr?).toList.mapM jScope
  let implicit ← jImplicit (← j.getObjVal? "implicit")
  pure { key := key, scopes := scopes, implicit := implicit }

def jRef (j : Json) : Except String (String × List SqlglotModel.Ident.Ident) := do
  let a ← j.getArr?
  if h : a.size = 2 then pure (← a[0].getStr?, ← jIdents a[1]) else throw "ref"

def jEnv (j : Json) : Except String CteEnv := do
  (← j.getArr?).toList.mapM fun e => do
    let a ← e.getArr?
    if h : a.size = 2 then pure (← a[0].getStr?, ← a[1].getNat?) else throw "env"

/-- "cte": [{"E": env, "sibs": [env…], "q": [[i, name]…]}…]  ->  per entry the list of resolved scope ids (null = none) -/
def handleCte (j : Json) : Except String Json := do
  let copies := SqlglotModel.Generated.C17.branchCopiesCteSources || !SqlglotModel.Generated.C17.traverseCtesUpdatesInPlace
  let entries ← j.getArr?
  let outs ← entries.toList.mapM fun e => do
    let E ← jEnv (← e.getObjVal? "E")
    let sibs ← (← (← e.getObjVal? "sibs").getArr?).toList.mapM jEnv
    let qs ← (← (← e.getObjVal? "q").getArr?).toList.mapM fun q => do
      let a ← q.getArr?
      if h : a.size = 2 then pure (← a[0].getNat?, ← a[1].getStr?) else throw "q"
    pure (Json.arr (qs.map fun (i, n) => match cteVisible copies E sibs i n with
      | some k => Json.num k
      | none => Json.null).toArray)
  pure (Json.arr outs.toArray)

def handle (line : String) : Except String String := do
  let j ← Json.parse line
  let scopes0 ← (← (← j.getObjVal? "scopes").getArr?).toList.mapM jScope
  let cols ← jStrs (← j.getObjVal? "cols")
  -- with "defs": the request is the UN-expanded query plus the `sources=` definitions; the model expands
  let (scopes, root, inl) ← match j.getObjVal? "defs" with
    | .ok dj => do
      let defs ← (← dj.getArr?).toList.mapM jDef
      let refs ← (← (← j.getObjVal? "refs").getArr?).toList.mapM jRef
      let strat ← match SqlglotModel.Ident.Strategy.ofString? (← (← j.getObjVal? "strategy").getStr?) with
        | some s => pure s
        | none => throw "strategy"
      -- keys go through as many normalisation passes as the current source applies (Generated.keyNormalisations)
      let look := lookupKeyed SqlglotModel.Ident.asciiFns strat SqlglotModel.Generated.C17.keyNormalisations defs refs
      let implicit ← jImplicit (← j.getObjVal? "implicit")
      -- the alias of a replacing derived table follows the expression the current source uses
      let al := expandAlias SqlglotModel.Generated.C17.expandAliasVariant SqlglotModel.Ident.asciiFns strat
      let ex := expandQA expandTag al look (defs.length + 1) implicit scopes0
      let il := expandQA (fun _ => none) al look (defs.length + 1) implicit scopes0
      let cfgI : Cfg := ⟨SqlglotModel.Generated.C17.keyComps, true⟩
      pure (ex.1, ex.2, cols.map fun c => leavesJson (lineageOne cfgI il.1 il.2 c).1.leaves)
    | .error _ => do
      let root ← (← j.getObjVal? "root").getNat?
      pure (scopes0, root, [])
  let cfgC : Cfg := ⟨SqlglotModel.Generated.C17.keyComps, true⟩
  let cfgU : Cfg := ⟨SqlglotModel.Generated.C17.keyComps, false⟩
  let one := cols.map fun c => leavesJson (lineageOne cfgC scopes root c).1.leaves
  let unc := cols.map fun c => leavesJson (lineageOne cfgU scopes root c).1.leaves
  let flw := cols.map fun c => leavesJson (flow scopes root (.name c))
  let all := (lineageAll cfgC scopes root cols []).map leavesJson
  let cache := (lineageAllCache cfgC scopes root cols []).map keyJson
  let cte ← match j.getObjVal? "cte" with
    | .ok cj => handleCte cj
    | .error _ => pure (Json.arr #[])
  pure (Json.mkObj [("one", Json.arr one.toArray), ("unc", Json.arr unc.toArray), ("flow", Json.arr flw.toArray),
    ("all", Json.arr all.toArray), ("cache", Json.arr cache.toArray), ("inl", Json.arr inl.toArray), ("cte", cte),
    ("root", Json.num root), ("nscopes", Json.num scopes.length)]).compress

partial def loop (h : IO.FS.Stream) : IO Unit := do
  let line ← h.getLine
  if line.isEmpty then return ()
  match handle line.trimAscii.toString with
  | .ok out => IO.println out; loop h
  | .error e => IO.println ("bad-request " ++ e); loop h

def main : IO Unit := do loop (← IO.getStdin)
