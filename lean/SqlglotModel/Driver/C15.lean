/- Line-protocol driver for the C15 model.
   {"op":"uniq","xor":b,"xs":[n…]}  ->  keys=[…] true=True|False
   {"op":"tsort","dag":[[n,[dep…]],…]}  ->  [n, …] | cycle
   {"op":"absorb","ops":[[[lit…],dual],…]}  ->  [true|false, …] -/
import Lean.Data.Json
import SqlglotModel.Model.Determinism

open Lean (Json)
open SqlglotModel.Determinism

def jNats (j : Json) : Except String (List Nat) := do
  (← j.getArr?).toList.mapM (·.getNat?)

def handle (line : String) : Except String String := do
  let j ← Json.parse line
  match (← (← j.getObjVal? "op").getStr?) with
  | "uniq" =>
    let r := uniqSort (← (← j.getObjVal? "xor").getBool?) (← jNats (← j.getObjVal? "xs"))
    pure s!"keys={r.keys} true={if r.plusTrue then "True" else "False"}"
  | "tsort" =>
    let d ← (← (← j.getObjVal? "dag").getArr?).toList.mapM fun e => do
      let a ← e.getArr?
      if h : a.size = 2 then pure ((← a[0].getNat?), (← jNats a[1])) else throw "entry"
    match tsort d with
    | some l => pure (toString l)
    | none => pure "cycle"
  | "absorb" =>
    let ops ← (← (← j.getObjVal? "ops").getArr?).toList.mapM fun e => do
      let a ← e.getArr?
      if h : a.size = 2 then pure (AOp.mk (← jNats a[0]) (← a[1].getBool?)) else throw "operand"
    pure (toString (absorbPass ops))
  | _ => throw "unknown op"

partial def loop (h : IO.FS.Stream) : IO Unit := do
  let line ← h.getLine
  if line.isEmpty then return ()
  match handle line.trimAscii.toString with
  | .ok out => IO.println out
  | .error e => IO.println ("bad-op " ++ e)
  loop h

def main : IO Unit := do loop (← IO.getStdin)
