/- Line-protocol driver for the C18 model: one JSON op per line in, one canonical answer per line out. -/
import Lean.Data.Json
import SqlglotModel.Model.Schema
import SqlglotModel.Generated.C18

open Lean (Json)
open SqlglotModel.Schema SqlglotModel.Ident

def jIdent (j : Json) : Except String Ident := do
  let a ← j.getArr?
  if h : a.size = 2 then
    return ⟨← a[0].getStr?, ← a[1].getBool?⟩
  else throw "ident"

def jIdents (j : Json) : Except String (List Ident) := do
  (← j.getArr?).toList.mapM jIdent

def jStrs (j : Json) : Except String (List String) := do
  (← j.getArr?).toList.mapM (·.getStr?)

def jStrat (j : Json) : Except String Strategy := do
  match Strategy.ofString? (← j.getStr?) with
  | some s => pure s
  | none => throw "strategy"

def showFind : FindR → String
  | .found c => "found " ++ toString (c.map fun (a, b) => a ++ ":" ++ b)
  | .notFound => "none"
  | .err .ambiguous => "err ambiguous"
  | .err .depthMismatch => "err depth"
  | .err .internal => "err internal"

def showOut : Out → String
  | .unit => "ok"
  | .names l => "names " ++ toString l
  | .ty t => "type " ++ t
  | .bool b => "bool " ++ toString b
  | .findR r => showFind r
  | .err .ambiguous => "err ambiguous"
  | .err .depthMismatch => "err depth"
  | .err .internal => "err internal"

def handle (S : St) (line : String) : Except String (St × String) := do
  let j ← Json.parse line
  let op ← (← j.getObjVal? "op").getStr?
  match op with
  | "reset" =>
    let m ← (← j.getObjVal? "mapping").getArr?
    let entries ← m.toList.mapM fun e => do
      let a ← e.getArr?
      if h : a.size = 2 then
        let path ← jStrs a[0]
        let cols ← (← a[1].getArr?).toList.mapM fun c => do
          let ca ← c.getArr?
          if h2 : ca.size = 2 then pure ((← ca[0].getStr?), (← ca[1].getStr?)) else throw "col"
        pure (path, cols)
      else throw "entry"
    return (fresh ⟨entries, [], []⟩, "ok")
  | "add" =>
    let st ← jStrat (← j.getObjVal? "st")
    let norm ← (← j.getObjVal? "norm").getBool?
    let table ← jIdents (← j.getObjVal? "table")
    let cols ← (← (← j.getObjVal? "cols").getArr?).toList.mapM fun c => do
      let ca ← c.getArr?
      if h2 : ca.size = 2 then pure ((← jIdent ca[0]), (← ca[1].getStr?)) else throw "col"
    let (S', o) := step SqlglotModel.Generated.C18.evictionPolicy S (.addTable st norm table cols)
    return (S', showOut o)
  | "names" =>
    let (S', o) := step .all S (.columnNames (← jStrat (← j.getObjVal? "st")) (← (← j.getObjVal? "norm").getBool?)
      (← jIdents (← j.getObjVal? "table")))
    return (S', showOut o)
  | "type" =>
    let (S', o) := step .all S (.columnType (← jStrat (← j.getObjVal? "st")) (← (← j.getObjVal? "norm").getBool?)
      (← jIdents (← j.getObjVal? "table")) (← jIdent (← j.getObjVal? "col")))
    return (S', showOut o)
  | "has" =>
    let (S', o) := step .all S (.hasColumn (← jStrat (← j.getObjVal? "st")) (← (← j.getObjVal? "norm").getBool?)
      (← jIdents (← j.getObjVal? "table")) (← jIdent (← j.getObjVal? "col")))
    return (S', showOut o)
  | "find" =>
    let (S', o) := step .all S (.find (← jIdents (← j.getObjVal? "table")) (← (← j.getObjVal? "raise").getBool?)
      (← (← j.getObjVal? "ensure").getBool?))
    return (S', showOut o)
  | _ => throw "unknown op"

partial def loop (h : IO.FS.Stream) (S : St) : IO Unit := do
  let line ← h.getLine
  if line.isEmpty then return ()
  match handle S line.trimAscii.toString with
  | .ok (S', out) => IO.println out; loop h S'
  | .error e => IO.println ("bad-op " ++ e); loop h S

def main : IO Unit := do loop (← IO.getStdin) empty
