/- Line-protocol driver for the C18 FULL model (Model/SchemaFull.lean): one JSON op per line in, one canonical
   answer per line out.  Key layouts / eviction policy come from Generated/C18.lean (re-extracted every run). -/
import Lean.Data.Json
import SqlglotModel.Model.SchemaFull
import SqlglotModel.Generated.C18

open Lean (Json)
open SqlglotModel.Schema SqlglotModel.Ident

def jIdent (j : Json) : Except String Ident := do
  let a ← j.getArr?
  if h : a.size = 2 then
    return ⟨← a[0].getStr?, ← a[1].getBool?⟩
  else throw "ident"

def jIdents (j : Json) : Except String (List Ident) := do
  (← j.getArr?).toList.mapM jIdent

def jStrPair (j : Json) : Except String (String × String) := do
  let a ← j.getArr?
  if h : a.size = 2 then return (← a[0].getStr?, ← a[1].getStr?) else throw "pair"

def jStrPairs (j : Json) : Except String (List (String × String)) := do
  (← j.getArr?).toList.mapM jStrPair

def jDialect (j : Json) : Except String DialectRef := do
  let name ← (← j.getObjVal? "name").getStr?
  let st ← match Strategy.ofString? (← (← j.getObjVal? "st").getStr?) with
    | some s => pure s
    | none => throw "strategy"
  let ts ← (← j.getObjVal? "ts").getBool?
  return ⟨name, ⟨st, ts⟩⟩

/-- a dict is shipped as `{"n": [[key, sub], …]}` (namespace level) or `{"l": [[col, type], …]}` (column dict) -/
partial def jTree (j : Json) : Except String Tree := do
  match j.getObjVal? "l" with
  | .ok l => return .leaf (← jStrPairs l)
  | .error _ =>
    let kids ← (← (← j.getObjVal? "n").getArr?).toList.mapM fun e => do
      let a ← e.getArr?
      if h : a.size = 2 then pure ((← a[0].getStr?), (← jTree a[1])) else throw "kid"
    return .node kids

def jCol (j : Json) : Except String ColArg := do
  match j.getObjVal? "str" with
  | .ok s => return .str (← s.getStr?)
  | .error _ => return .ident (← jIdent (← j.getObjVal? "id"))

def showErr : Err → String
  | .ambiguous => "err ambiguous"
  | .depthMismatch => "err depth"
  | .internal => "err internal"
  | .unknownTable => "err unknown"
  | .noColumns => "err nocols"

def showFind : FindR → String
  | .found c => "found " ++ toString (c.map fun (a, b) => a ++ ":" ++ b)
  | .notFound => "none"
  | .err e => showErr e

def showOut : Out → String
  | .unit => "ok"
  | .names l => "names " ++ toString l
  | .ty t => "type " ++ t
  | .bool b => "bool " ++ toString b
  | .findR r => showFind r
  | .err e => showErr e

def layouts : Layouts :=
  { name := SqlglotModel.Generated.C18.nameCacheKey
    table := SqlglotModel.Generated.C18.tableCacheKey
    ty := SqlglotModel.Generated.C18.typeCacheKey
    evict := SqlglotModel.Generated.C18.evictionPolicy }

/-- `nested_get(path, self.visible)` on the shipped visible tree -/
def visOf (v : Tree) (path : List Name) : Option (List Name) :=
  match nestedGet v path with
  | .found (.leaf cols) => some (cols.map (·.1))
  | .found (.node kids) => some (kids.map (·.1))
  | _ => none

structure DSt where
  tbl : TyTable
  env : Env
  st : FSt
  others : List FSt := []     -- the other live schemas (copy / use)
  cur : Nat := 0

def emptyF : FSt := ⟨coreOfMapping (.node []), [], []⟩

def handle (D : DSt) (line : String) : Except String (DSt × String) := do
  let j ← Json.parse line
  let op ← (← j.getObjVal? "op").getStr?
  let tableArg : Except String TableArg := do
    return ⟨← jIdents (← j.getObjVal? "table"), ← (← j.getObjVal? "as_str").getBool?⟩
  let dn : Except String (DialectRef × Bool) := do
    return (← jDialect (← j.getObjVal? "d"), ← (← j.getObjVal? "norm").getBool?)
  let run (fop : FOp) : Except String (DSt × String) := do
    let (F, o) := fStep D.env layouts D.st fop
    return ({ D with st := F }, showOut o)
  match op with
  | "tytable" =>
    let rows ← (← (← j.getObjVal? "rows").getArr?).toList.mapM fun r => do
      let a ← r.getArr?
      if h : a.size = 3 then pure (((← a[0].getStr?), (← a[1].getStr?)), (← a[2].getStr?)) else throw "row"
    return ({ D with tbl := rows, env := { D.env with ty := tyOfTable rows } }, "ok")
  | "init" =>
    let raw ← jTree (← j.getObjVal? "raw")
    let normalize ← (← j.getObjVal? "normalize").getBool?
    let self ← jDialect (← j.getObjVal? "self")
    let vis ← match j.getObjVal? "visible" with
      | .ok Json.null => pure none
      | .ok v => pure (some (← jTree v))
      | .error _ => pure none
    let env : Env := { f := asciiFns, ty := tyOfTable D.tbl, self := self,
                       visEmpty := match vis with | none => true | some v => v.isEmptyDict,
                       vis := match vis with | none => fun _ => none | some v => visOf v }
    match fInit env layouts raw normalize with
    | .ok F => return ({ D with env := env, st := F, others := [], cur := 0 }, "ok")
    | .error e => return ({ D with env := env, st := emptyF, others := [], cur := 0 }, showErr e)
  | "add" =>
    let (d, n) ← dn
    let cm ← match j.getObjVal? "cols_str" with
      | .ok (Json.str text) => pure (ColMapping.str text)
      | _ =>
        match j.getObjVal? "cols" with
        | .ok Json.null => pure ColMapping.none_
        | .ok c => pure (ColMapping.dict (← jStrPairs c))
        | .error _ => pure ColMapping.none_
    run (.addTable d n (← tableArg) cm)
  | "names" =>
    let (d, n) ← dn
    run (.columnNames d n (← tableArg) (← (← j.getObjVal? "ov").getBool?))
  | "type" =>
    let (d, n) ← dn
    run (.columnType d n (← tableArg) (← jCol (← j.getObjVal? "col")))
  | "has" =>
    let (d, n) ← dn
    run (.hasColumn d n (← tableArg) (← jCol (← j.getObjVal? "col")))
  | "copy" =>
    -- the world is `others` with the current schema spliced in at `cur`
    let W : World := D.others.take D.cur ++ [D.st] ++ D.others.drop D.cur
    match wCopy D.env layouts W D.cur (← (← j.getObjVal? "normalize").getBool?) with
    | (W', none) => return ({ D with others := W'.eraseIdx D.cur }, "ok")
    | (_, some e) => return (D, showErr e)
  | "use" =>
    let i ← (← j.getObjVal? "i").getNat?
    let W : World := D.others.take D.cur ++ [D.st] ++ D.others.drop D.cur
    match W[i]? with
    | some F => return ({ D with st := F, others := W.eraseIdx i, cur := i }, "ok")
    | none => throw "use: no such schema"
  | "empty" => return (D, "bool " ++ toString (fEmpty D.st))
  | "find" =>
    run (.find (← jIdents (← j.getObjVal? "table")) (← (← j.getObjVal? "raise").getBool?)
      (← (← j.getObjVal? "ensure").getBool?))
  | _ => throw "unknown op"

partial def loop (h : IO.FS.Stream) (D : DSt) : IO Unit := do
  let line ← h.getLine
  if line.isEmpty then return ()
  match handle D line.trimAscii.toString with
  | .ok (D', out) => IO.println out; loop h D'
  | .error e => IO.println ("bad-op " ++ e); loop h D

def main : IO Unit := do
  let env : Env := { f := asciiFns, ty := fun _ t => t, self := default, visEmpty := true, vis := fun _ => none }
  loop (← IO.getStdin) { tbl := [], env := env, st := emptyF }
