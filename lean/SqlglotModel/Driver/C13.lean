/- Line-protocol driver for the C13 model: one JSON op per line in, one canonical answer per line out.
   ops: cfg (sets the tokenizer configuration), lex, highlight, linecol. -/
import Lean.Data.Json
import SqlglotModel.Model.Lex
import SqlglotModel.Generated.C13

open Lean (Json)
open SqlglotModel.Lex

def jStr (j : Json) (k : String) : Except String String := do (← j.getObjVal? k).getStr?
def jBool (j : Json) (k : String) : Except String Bool := do (← j.getObjVal? k).getBool?
def jStrs (j : Json) (k : String) : Except String (List String) := do
  (← (← j.getObjVal? k).getArr?).toList.mapM (·.getStr?)
def jPairs (j : Json) (k : String) : Except String (List (String × String)) := do
  (← (← j.getObjVal? k).getArr?).toList.mapM fun p => do
    let a ← p.getArr?
    if h : a.size = 2 then pure ((← a[0].getStr?), (← a[1].getStr?)) else throw "pair"
def jTriples (j : Json) (k : String) : Except String (List (String × String × String)) := do
  (← (← j.getObjVal? k).getArr?).toList.mapM fun p => do
    let a ← p.getArr?
    if h : a.size = 3 then pure ((← a[0].getStr?), (← a[1].getStr?), (← a[2].getStr?)) else throw "triple"

def parseCfg (j : Json) : Except String Cfg := do
  let line ← jStrs j "lineComments"
  let comments ← jPairs j "comments"
  return {
    single := ← jPairs j "single", keywords := ← jPairs j "keywords", trie := ← jStrs j "trie",
    quotes := ← jPairs j "quotes", formats := ← jTriples j "formats", identifiers := ← jPairs j "identifiers",
    comments := comments.filter (fun kv => !line.contains kv.1), lineComments := line,
    stringEscapes := ← jStrs j "stringEscapes", byteEscapes := ← jStrs j "byteEscapes",
    identEscapes := ← jStrs j "identEscapes", followChars := ← jStrs j "followChars", unescaped := ← jPairs j "unescaped",
    commands := ← jStrs j "commands", commandPrefix := ← jStrs j "commandPrefix", nested := ← jBool j "nested",
    hintStart := ← jStr j "hintStart", precedingHint := ← jStrs j "precedingHint", hasBit := ← jBool j "hasBit",
    hasHex := ← jBool j "hasHex", numericLiterals := ← jPairs j "numericLiterals", varSingle := ← jStrs j "varSingle",
    rawEsc := ← jBool j "rawEsc", underscore := ← jBool j "underscore", decimals := ← jBool j "decimals",
    identDigit := ← jBool j "identDigit",
    fixLoneCR := SqlglotModel.Generated.C13.fixLoneCR, fixKwJump := SqlglotModel.Generated.C13.fixKwJump,
    fixEscJump := SqlglotModel.Generated.C13.fixEscJump }

def parseCh (j : Json) : Except String Ch := do
  let a ← j.getArr?
  if h : a.size ≥ 2 then
    let cp ← a[0].getNat?
    let bits ← a[1].getNat?
    let c := Char.ofNat cp
    let up ← if h3 : a.size ≥ 3 then (do
        let l ← a[2].getArr?
        let l ← l.toList.mapM (·.getNat?)
        pure (l.map Char.ofNat)) else pure [c]
    return ⟨c, bits % 2 == 1, (bits / 2) % 2 == 1, (bits / 4) % 2 == 1, up⟩
  else throw "ch"

def jsonStr (l : List Char) : String := (Json.str (String.ofList l)).compress

def showTok (t : Tok) : String :=
  "[" ++ (Json.str t.ty).compress ++ "," ++ jsonStr t.text ++ "," ++ toString t.line ++ "," ++ toString t.col ++ ","
    ++ toString t.start ++ "," ++ toString t.stop ++ "]"

def showRes (size : Nat) : Res St → String
  | .ok st => (if st.skew then "ok! " else "ok ") ++ "[" ++ ",".intercalate (st.toks.map showTok) ++ "]"
  | .error cur => let w := errorWindow size cur; "error " ++ toString w.1 ++ " " ++ toString w.2
  | .unsupported w => "unsupported " ++ w
  | .fuel => "fuel"

def chars (j : Json) : Except String (List Char) := do
  let l ← (← j.getArr?).toList.mapM (·.getNat?)
  pure (l.map Char.ofNat)

def jTok (j : Json) : Except String (Option Tok) := do
  if j.isNull then return none
  let a ← j.getArr?
  if h : a.size = 4 then
    return some ⟨"VAR", ['x'], ← a[0].getNat?, ← a[1].getNat?, ← a[2].getNat?, ← a[3].getNat?⟩
  else throw "tok"

def jOptNat (j : Json) : Except String (Option Nat) := do
  if j.isNull then return none else return some (← j.getNat?)

/-- "A" = key absent, null = present with None, n = present -/
def jKey (j : Json) : Except String (Option (Option Nat)) := do
  match j with
  | .str _ => return none
  | _ => return some (← jOptNat j)

def jMeta (j : Json) : Except String Meta := do
  let a ← j.getArr?
  if h : a.size = 4 then return ⟨← jKey a[0], ← jKey a[1], ← jKey a[2], ← jKey a[3]⟩ else throw "meta"

def showKey : Option (Option Nat) → String
  | none => "\"A\""
  | some none => "null"
  | some (some n) => toString n

def handle (cfg : Cfg) (line : String) : Except String (Cfg × String) := do
  let j ← Json.parse line
  match ← jStr j "op" with
  | "cfg" =>
    let c ← parseCfg (← j.getObjVal? "cfg")
    return (c, "ok " ++ (if cleanCfg c then "clean" else "unclean"))
  | "lex" =>
    let sql ← (← (← j.getObjVal? "sql").getArr?).mapM parseCh
    return (cfg, showRes sql.size (lex cfg sql))
  | "highlight" =>
    let s ← chars (← j.getObjVal? "sql")
    let pos ← (← (← j.getObjVal? "pos").getArr?).toList.mapM fun p => do
      let a ← p.getArr?
      if h : a.size = 2 then pure ((← a[0].getNat?), (← a[1].getNat?)) else throw "pos"
    let ctx ← (← j.getObjVal? "ctx").getNat?
    let h := highlightSql s pos ctx
    return (cfg, "[" ++ jsonStr h.formatted ++ "," ++ jsonStr h.startCtx ++ "," ++ jsonStr h.highlight ++ "," ++ jsonStr h.endCtx ++ "]")
  | "linecol" =>
    let s ← chars (← j.getObjVal? "sql")
    let sql : Sql := (s.map fun c => (⟨c, false, false, false, [c]⟩ : Ch)).toArray
    let ps := (List.range sql.size).map fun p => "[" ++ toString (lineOf sql p) ++ "," ++ toString (colOf sql p - crlfAdj sql p) ++ "]"
    return (cfg, "[" ++ ",".intercalate ps ++ "]")
  | "raise" =>
    let s ← chars (← j.getObjVal? "sql")
    let tk ← jTok (← j.getObjVal? "token")
    let cu ← jTok (← j.getObjVal? "curr")
    let pv ← jTok (← j.getObjVal? "prev")
    let ctx ← (← j.getObjVal? "ctx").getNat?
    let e := raiseError s tk cu pv ctx
    return (cfg, "[" ++ toString e.line ++ "," ++ toString e.col ++ "," ++ jsonStr e.startCtx ++ "," ++ jsonStr e.highlight ++ ","
      ++ jsonStr e.endCtx ++ "," ++ jsonStr e.formatted ++ ",\"msg\"]")
  | "meta" =>
    let init ← jMeta (← j.getObjVal? "init")
    let src ← j.getObjVal? "src"
    let r ← match ← jStr src "kind" with
      | "token" => do
        match ← jTok (← src.getObjVal? "t") with
        | some t => pure (updatePositions init (.token t))
        | none => throw "token"
      | "expr" => do
        let o ← jMeta (← src.getObjVal? "other")
        let extra ← jBool src "extra"
        let empty := o.line.isNone && o.col.isNone && o.start.isNone && o.stop.isNone && !extra
        pure (updatePositions init (.expr (if empty then none else some o)))
      | "explicit" => do
        let a ← (← src.getObjVal? "v").getArr?
        if h : a.size = 4 then
          pure (updatePositions init (.explicit (← jOptNat a[0]) (← jOptNat a[1]) (← jOptNat a[2]) (← jOptNat a[3])))
        else throw "explicit"
      | _ => throw "src"
    return (cfg, "[" ++ ",".intercalate [showKey r.line, showKey r.col, showKey r.start, showKey r.stop] ++ "]")
  | "merge" =>
    let a ← jMeta (← j.getObjVal? "first")
    let b ← jMeta (← j.getObjVal? "last")
    let r := mergeSpan {} a b SqlglotModel.Generated.C13.mergeLineOfLast
    return (cfg, "[" ++ ",".intercalate [showKey r.line, showKey r.col, showKey r.start, showKey r.stop] ++ "]")
  | _ => throw "unknown op"

partial def loop (h : IO.FS.Stream) (cfg : Cfg) : IO Unit := do
  let line ← h.getLine
  if line.isEmpty then return ()
  match handle cfg line.trimAscii.toString with
  | .ok (cfg', out) => IO.println out; loop h cfg'
  | .error e => IO.println ("bad-op " ++ e); loop h cfg

def main : IO Unit := do loop (← IO.getStdin) SqlglotModel.Generated.C13.baseCfg
