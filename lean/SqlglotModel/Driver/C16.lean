/- Line-protocol driver for the C16 model: one JSON expression per line in; out: `<annot> <final> <eng> <wf>`. -/
import Lean.Data.Json
import SqlglotModel.Model.Types
import SqlglotModel.Generated.C16

open Lean (Json)
open SqlglotModel.Types

def T0 : Tables := SqlglotModel.Generated.C16.tables

def tyOfName (s : String) : Except String Ty :=
  match s with
  | "boolean" => pure .boolean | "tinyint" => pure .tinyint | "smallint" => pure .smallint | "int" => pure .int
  | "bigint" => pure .bigint | "double" => pure .double | "decimal" => pure .decimal | "decimalP" => pure .decimalP
  | "varchar" => pure .varchar | "text" => pure .text | "date" => pure .date | "datetime" => pure .datetime | "timestamp" => pure .timestamp
  | "timestampntz" => pure .timestampntz | "interval" => pure .interval | "null" => pure .null | "unknown" => pure .unknown
  | _ => throw ("type " ++ s)

def tyName : Ty → String
  | .boolean => "boolean" | .tinyint => "tinyint" | .smallint => "smallint" | .int => "int" | .bigint => "bigint"
  | .double => "double" | .decimal => "decimal" | .decimalP => "decimalP" | .varchar => "varchar" | .text => "text" | .date => "date"
  | .datetime => "datetime" | .timestamp => "timestamp" | .timestampntz => "timestampntz" | .interval => "interval"
  | .null => "null" | .unknown => "unknown"

def etyName : ETy → String
  | .boolean => "boolean" | .integer => "integer" | .hugeint => "hugeint" | .double => "double" | .decimal => "decimal"
  | .text => "text" | .strlit => "strlit" | .date => "date" | .timestamp => "timestamp" | .interval => "interval"
  | .null => "null" | .other => "other" | .error => "error"

def isoOfName (s : String) : Except String Iso :=
  match s with
  | "other" => pure .other | "num" => pure .num | "isoDate" => pure .isoDate | "isoDatetime" => pure .isoDatetime
  | _ => throw ("iso " ++ s)

def unOfName (s : String) : Except String UnK :=
  match s with
  | "neg" => pure .neg | "not" => pure .not | "isNull" => pure .isNull | "length" => pure .length | "upper" => pure .upper
  | "lower" => pure .lower | "abs" => pure .abs | "sqrt" => pure .sqrt | "ln" => pure .ln | "exp" => pure .exp
  | "sign" => pure .sign | "year" => pure .year | "month" => pure .month | "day" => pure .day
  | "extractYear" => pure .extractYear | "count" => pure .count | "sum" => pure .sum | "min" => pure .min | "max" => pure .max
  | "avg" => pure .avg | "sumOver" => pure .sumOver | "maxOver" => pure .maxOver | "countOver" => pure .countOver
  | "avgOver" => pure .avgOver
  | s => if s.startsWith "cast_" then do pure (.cast (← tyOfName (s.drop 5).toString)) else throw ("un " ++ s)

def binOfName (s : String) : Except String BinK :=
  match s with
  | "add" => pure .add | "sub" => pure .sub | "mul" => pure .mul | "div" => pure .div | "intdiv" => pure .intdiv
  | "mod" => pure .mod | "pow" => pure .pow | "eq" => pure .eq | "neq" => pure .neq | "lt" => pure .lt | "le" => pure .le | "gt" => pure .gt
  | "ge" => pure .ge | "and" => pure .and | "or" => pure .or | "dpipe" => pure .dpipe | "like" => pure .like
  | "coalesce" => pure .coalesce | "nullif" => pure .nullif | "concat" => pure .concat
  | _ => throw ("bin " ++ s)

def ternOfName (s : String) : Except String TernK :=
  match s with
  | "caseWhen" => pure .caseWhen | "iff" => pure .iff
  | _ => throw ("tern " ++ s)

partial def parseE (j : Json) : Except String TExpr := do
  let a ← j.getArr?
  let tag ← (a[0]?.getD Json.null).getStr?
  let arg (i : Nat) : Json := a[i]?.getD Json.null
  match tag with
  | "col" => pure (.col (← tyOfName (← (arg 1).getStr?)))
  | "int" => pure .intLit
  | "dec" => pure .decLit
  | "str" => pure (.strLit (← isoOfName (← (arg 1).getStr?)))
  | "null" => pure .nullLit
  | "bool" => pure .boolLit
  | "iv" => pure (.interval (← (arg 1).getBool?))
  | "un" => pure (.un (← unOfName (← (arg 1).getStr?)) (← parseE (arg 2)))
  | "bin" => pure (.bin (← binOfName (← (arg 1).getStr?)) (← parseE (arg 2)) (← parseE (arg 3)))
  | "tern" => pure (.tern (← ternOfName (← (arg 1).getStr?)) (← parseE (arg 2)) (← parseE (arg 3)) (← parseE (arg 4)))
  | t => throw ("tag " ++ t)

def handle (line : String) : String :=
  match Json.parse line >>= parseE with
  | .ok e => tyName (annot T0 e) ++ " " ++ tyName (annotFinal T0 e) ++ " " ++ etyName (eng T0 e) ++ " " ++ toString (WF T0 e)
  | .error m => "bad-input " ++ m

partial def loop (h : IO.FS.Stream) : IO Unit := do
  let line ← h.getLine
  if line.isEmpty then return ()
  IO.println (handle line.trimAscii.toString)
  loop h

def main : IO Unit := do loop (← IO.getStdin)
