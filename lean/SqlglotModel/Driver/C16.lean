/- Line-protocol driver for the C16 model. Lines in:
     {"schema": [[name, type], ...]}      -> ok            (sets the base table's schema for the following lines)
     {"derive": [[alias, [[name, expr], ...]], ...]} -> ok  (the scope for the following lines: the base table plus these
                                                            derived tables, their projections annotated over the base table)
     [expression JSON]                    -> <annot> <final> <eng> <wf>
     {"census": true}                     -> JSON: the depth-1 census (accepted / agreeing / per family) by arity
     {"dec": [isDiv, p1?, s1?, p2?, s2?]} -> the DECIMAL parameters sqlglot annotates (`none` or `p,s`) -/
import Lean.Data.Json
import SqlglotModel.Model.Types
import SqlglotModel.Generated.C16

open Lean (Json)
open SqlglotModel.Types

def T0 : Tables := SqlglotModel.Generated.C16.tables

def tyOfName (s : String) : Except String Ty :=
  match s with
  | "boolean" => pure .boolean | "tinyint" => pure .tinyint | "smallint" => pure .smallint | "int" => pure .int
  | "bigint" => pure .bigint | "double" => pure .double | "decimal" => pure .decimal | "decimalP" => pure .decimalP
  | "varchar" => pure .varchar | "text" => pure .text | "date" => pure .date | "datetime" => pure .datetime | "timestamp" => pure .timestamp
  | "timestampntz" => pure .timestampntz | "interval" => pure .interval | "null" => pure .null | "unknown" => pure .unknown
  | _ => throw ("type " ++ s)

def tyName : Ty → String
  | .boolean => "boolean" | .tinyint => "tinyint" | .smallint => "smallint" | .int => "int" | .bigint => "bigint"
  | .double => "double" | .decimal => "decimal" | .decimalP => "decimalP" | .varchar => "varchar" | .text => "text" | .date => "date"
  | .datetime => "datetime" | .timestamp => "timestamp" | .timestampntz => "timestampntz" | .interval => "interval"
  | .null => "null" | .unknown => "unknown"

def etyName : ETy → String
  | .boolean => "boolean" | .integer => "integer" | .hugeint => "hugeint" | .double => "double" | .decimal => "decimal"
  | .text => "text" | .strlit => "strlit" | .date => "date" | .timestamp => "timestamp" | .interval => "interval"
  | .null => "null" | .other => "other" | .error => "error"

def isoOfName (s : String) : Except String Iso :=
  match s with
  | "other" => pure .other | "num" => pure .num | "isoDate" => pure .isoDate | "isoDatetime" => pure .isoDatetime
  | _ => throw ("iso " ++ s)

def unOfName (s : String) : Except String UnK :=
  match s with
  | "neg" => pure .neg | "not" => pure .not | "isNull" => pure .isNull | "length" => pure .length | "upper" => pure .upper
  | "lower" => pure .lower | "abs" => pure .abs | "sqrt" => pure .sqrt | "ln" => pure .ln | "exp" => pure .exp
  | "sign" => pure .sign | "year" => pure .year | "month" => pure .month | "day" => pure .day
  | "extractYear" => pure .extractYear | "count" => pure .count | "sum" => pure .sum | "min" => pure .min | "max" => pure .max
  | "avg" => pure .avg | "ceil" => pure .ceil | "floor" => pure .floor | "round" => pure .round | "over" => pure .over
  | "filter" => pure .filter
  | "anyValue" => pure .anyValue | "stddev" => pure .stddev | "variance" => pure .variance | "boolAnd" => pure .boolAnd
  | "boolOr" => pure .boolOr | "groupConcat" => pure .groupConcat | "approxDistinct" => pure .approxDistinct
  | "lag" => pure .lag | "lead" => pure .lead | "firstValue" => pure .firstValue | "lastValue" => pure .lastValue
  | "subq" => pure .subq | "exists" => pure .exists | "structField" => pure .structField
  | "arrayAggElem" => pure .arrayAggElem | "mapElem" => pure .mapElem
  | s =>
    if s.startsWith "cast_" then do pure (.cast (← tyOfName (s.drop 5).toString))
    else if s.startsWith "tryCast_" then do pure (.tryCast (← tyOfName (s.drop 8).toString))
    else throw ("un " ++ s)

def binOfName (s : String) : Except String BinK :=
  match s with
  | "add" => pure .add | "sub" => pure .sub | "mul" => pure .mul | "div" => pure .div | "intdiv" => pure .intdiv
  | "mod" => pure .mod | "pow" => pure .pow | "eq" => pure .eq | "neq" => pure .neq | "lt" => pure .lt | "le" => pure .le | "gt" => pure .gt
  | "ge" => pure .ge | "and" => pure .and | "or" => pure .or | "dpipe" => pure .dpipe | "like" => pure .like
  | "coalesce" => pure .coalesce | "nullif" => pure .nullif | "concat" => pure .concat | "greatest" => pure .greatest
  | "least" => pure .least | "corr" => pure .corr | "isDistinct" => pure .isDistinct | "ilike" => pure .ilike
  | "arrayElem" => pure .arrayElem | "unionCol" => pure .unionCol
  | "listConcatElem" => pure .listConcatElem | "sliceElem" => pure .sliceElem | "unnest2" => pure .unnest2
  | _ => throw ("bin " ++ s)

def ternOfName (s : String) : Except String TernK :=
  match s with
  | "caseWhen" => pure .caseWhen | "iff" => pure .iff
  | _ => throw ("tern " ++ s)

def pred3OfName (s : String) : Except String Pred3K :=
  match s with
  | "between" => pure .between | "inList" => pure .inList
  | _ => throw ("pred3 " ++ s)

def win0OfName (s : String) : Except String Win0K :=
  match s with
  | "rowNumber" => pure .rowNumber | "rank" => pure .rank | "denseRank" => pure .denseRank | "cumeDist" => pure .cumeDist
  | "percentRank" => pure .percentRank
  | _ => throw ("win0 " ++ s)

def numLitOfName (s : String) : Except String NumLitK :=
  match s with
  | "big" => pure .big | "huge" => pure .huge | "overflow" => pure .overflow | "sci" => pure .sci
  | _ => throw ("numlit " ++ s)

def naryOfName (s : String) : Except String NaryK :=
  match s with
  | "coalesce" => pure .coalesce | "greatest" => pure .greatest | "least" => pure .least | "caseN" => pure .caseN
  | _ => throw ("nary " ++ s)

def qualOfName (s : String) : Except String Qual :=
  match s with
  | "none" => pure .none | "this" => pure .this | "other" => pure .other
  | s => if s.startsWith "d:" then pure (.derived (s.drop 2).toString) else throw ("qual " ++ s)

def mkArgs : List TExpr → TArgs
  | [] => .nil
  | e :: rest => .cons e (mkArgs rest)

partial def parseE (j : Json) : Except String TExpr := do
  let a ← j.getArr?
  let tag ← (a[0]?.getD Json.null).getStr?
  let arg (i : Nat) : Json := a[i]?.getD Json.null
  match tag with
  | "col" => pure (.col (← qualOfName (← (arg 1).getStr?)) (← (arg 2).getStr?))
  | "nary" => do
    let k ← naryOfName (← (arg 1).getStr?)
    let xs ← (a.toList.drop 2).mapM parseE
    pure (.nary k (mkArgs xs))
  | "int" => pure .intLit
  | "dec" => pure .decLit
  | "str" => pure (.strLit (← isoOfName (← (arg 1).getStr?)))
  | "null" => pure .nullLit
  | "bool" => pure .boolLit
  | "iv" => pure (.interval (← (arg 1).getBool?))
  | "numlit" => pure (.numLit (← numLitOfName (← (arg 1).getStr?)))
  | "win0" => pure (.win0 (← win0OfName (← (arg 1).getStr?)))
  | "pred3" => pure (.pred3 (← pred3OfName (← (arg 1).getStr?)) (← parseE (arg 2)) (← parseE (arg 3)) (← parseE (arg 4)))
  | "un" => pure (.un (← unOfName (← (arg 1).getStr?)) (← parseE (arg 2)))
  | "bin" => pure (.bin (← binOfName (← (arg 1).getStr?)) (← parseE (arg 2)) (← parseE (arg 3)))
  | "tern" => pure (.tern (← ternOfName (← (arg 1).getStr?)) (← parseE (arg 2)) (← parseE (arg 3)) (← parseE (arg 4)))
  | t => throw ("tag " ++ t)

def famName : Option Family → String
  | none => "agree"
  | some f => (toString (repr f)).replace "SqlglotModel.Types.Family." ""

def tally (l : List (Option Family)) : Json :=
  let keys := (none :: Family.all.map some)
  Json.mkObj ([("accepted", Json.num l.length)] ++ keys.filterMap fun k =>
    let n := (l.filter (· == k)).length
    if n == 0 then none else some (famName k, Json.num n))

def census : String :=
  (Json.mkObj [("un", tally (censusUn T0)), ("bin", tally (censusBin T0)), ("tern", tally (censusTern T0))]).compress

def optDec (p s : Json) : Option Dec :=
  match p.getNat?, s.getNat? with
  | .ok p, .ok s => some ⟨p, s⟩
  | _, _ => none

def handleObj (S : Schema) (j : Json) : Except String (Schema × String) := do
  if let .ok sch := j.getObjVal? "schema" then
    let cols ← (← sch.getArr?).toList.mapM fun c => do
      let a ← c.getArr?
      pure ((← (a[0]?.getD Json.null).getStr?), (← tyOfName (← (a[1]?.getD Json.null).getStr?)))
    return ({ table := cols }, "ok")
  if let .ok dv := j.getObjVal? "derive" then
    let base : Schema := { table := S.table }
    let ds ← (← dv.getArr?).toList.mapM fun d => do
      let a ← d.getArr?
      let alias ← (a[0]?.getD Json.null).getStr?
      let ps ← (← (a[1]?.getD Json.null).getArr?).toList.mapM fun p => do
        let pa ← p.getArr?
        pure ((← (pa[0]?.getD Json.null).getStr?), (← parseE (pa[1]?.getD Json.null)))
      pure (alias, ps)
    return (deriveScope T0 base ds, "ok")
  if let .ok _ := j.getObjVal? "census" then
    return (S, census)
  if let .ok d := j.getObjVal? "dec" then
    let a ← d.getArr?
    let g (i : Nat) : Json := a[i]?.getD Json.null
    let r := sgDecArith ((g 0).getBool?.toOption.getD false) (optDec (g 1) (g 2)) (optDec (g 3) (g 4))
    return (S, match r with | none => "none" | some d => s!"{d.p},{d.s}")
  throw "unknown command"

def handle (S : Schema) (line : String) : Schema × String :=
  match Json.parse line with
  | .error m => (S, "bad-input " ++ m)
  | .ok j =>
    match j with
    | .obj _ => (match handleObj S j with | .ok r => r | .error m => (S, "bad-input " ++ m))
    | _ =>
      match parseE j with
      | .ok e => (S, tyName (annot T0 S e) ++ " " ++ tyName (annotFinal T0 S e) ++ " " ++ etyName (eng T0 S e) ++ " "
                      ++ toString (WF T0 S e))
      | .error m => (S, "bad-input " ++ m)

partial def loop (h : IO.FS.Stream) (S : Schema) : IO Unit := do
  let line ← h.getLine
  if line.isEmpty then return ()
  let (S', out) := handle S line.trimAscii.toString
  IO.println out
  loop h S'

def main : IO Unit := do loop (← IO.getStdin) { table := [] }
