/- Line-protocol driver for the C03 decision model: one JSON request per line in, one canonical answer per line out. -/
import Lean.Data.Json
import SqlglotModel.Model.Opt
import SqlglotModel.Generated.C03

open Lean (Json)
open SqlglotModel.Opt
open SqlglotModel.Generated.C03

def gb (j : Json) (k : String) : Except String Bool := do
  match j.getObjVal? k with
  | .ok v => v.getBool?
  | .error _ => pure false

def jShape (j : Json) : Except String SelShape := do
  return ⟨← gb j "group", ← gb j "window", ← gb j "limit", ← gb j "offset", ← gb j "qualify",
          ← (← j.getObjVal? "ref").getNat?⟩

def jSource (j : Json) : Except String Source := do
  let name ← (← j.getObjVal? "name").getStr?
  let kind ← (← j.getObjVal? "kind").getStr?
  match kind with
  | "table" => return ⟨name, .table⟩
  | "derived" => return ⟨name, .derived (← jShape (← j.getObjVal? "shape"))⟩
  | "cte" => return ⟨name, .cte (← jShape (← j.getObjVal? "shape"))⟩
  | _ => throw "kind"

def jSide (j : Json) : Except String Side := do
  match Side.ofString? (← j.getStr?) with
  | some s => pure s
  | none => throw "side"

def jQuery (j : Json) : Except String PQuery := do
  let f ← jSource (← j.getObjVal? "from")
  let js ← (← (← j.getObjVal? "joins").getArr?).toList.mapM fun x => do
    let a ← x.getArr?
    if h : a.size = 2 then pure ((← jSide a[0]), (← jSource a[1])) else throw "join"
  return ⟨f, js⟩

def jStrs (j : Json) : Except String (List String) := do
  (← j.getArr?).toList.mapM (·.getStr?)

def showTarget : Target → String
  | .on j => "on:" ++ j
  | .select s => "select:" ++ s

def showTargets (ts : List Target) : String :=
  if ts.isEmpty then "-" else " ".intercalate (ts.map showTarget)

def handle (line : String) : Except String String := do
  let j ← Json.parse line
  let op ← (← j.getObjVal? "op").getStr?
  match op with
  | "where" =>
    let q ← jQuery j
    return showTargets (whereDecision pushAtoms rightJoinLastOnly q (← jStrs (← j.getObjVal? "tables")))
  | "on" =>
    let q ← jQuery j
    return showTargets (onDecision pushAtoms q (← (← j.getObjVal? "j").getNat?) (← jStrs (← j.getObjVal? "tables")))
  | "merge" =>
    let s : MergeShape := {
      outerNotSelect := ← gb j "outerNotSelect", outerIsStar := ← gb j "outerIsStar",
      innerNotSelect := ← gb j "innerNotSelect", innerUnmergeableArg := ← gb j "innerUnmergeableArg",
      innerNoFrom := ← gb j "innerNoFrom", outerPivots := ← gb j "outerPivots",
      isolatedMultiSource := ← gb j "isolatedMultiSource", joinWithInnerJoins := ← gb j "joinWithInnerJoins",
      sidedJoinInnerWhere := ← gb j "sidedJoinInnerWhere",
      fromInnerWhereOuterFullRight := ← gb j "fromInnerWhereOuterFullRight",
      innerOrderOuterUnion := ← gb j "innerOrderOuterUnion", queryTransform := ← gb j "queryTransform",
      projAggSubqueryExplode := ← gb j "projAggSubqueryExplode",
      joinOnNonFirstInnerTable := ← gb j "joinOnNonFirstInnerTable", windowBlocks := ← gb j "windowBlocks",
      literalGroup := ← gb j "literalGroup", literalOrder := ← gb j "literalOrder",
      recursiveCte := ← gb j "recursiveCte" }
    return toString (mergeable mergeRejects s)
  | "elim" =>
    let s : ElimShape := {
      isScope := ← gb j "isScope", used := ← gb j "used", side := ← jSide (← j.getObjVal? "side"),
      hasOn := ← gb j "hasOn", uniqueOutputs := ← jStrs (← j.getObjVal? "uniqueOutputs"),
      joinKeys := ← jStrs (← j.getObjVal? "joinKeys"), allAgg := ← gb j "allAgg", limit1 := ← gb j "limit1",
      noFrom := ← gb j "noFrom", group := ← gb j "group", having := ← gb j "having", where_ := ← gb j "where",
      distinctOrGroup := ← gb j "distinctOrGroup", namedSelects := ← jStrs (← j.getObjVal? "namedSelects") }
    return toString (shouldEliminateJoin singleRowGuards elimTop elimBranchA elimBranchB s)
  | "reorder" =>
    let sides ← (← (← j.getObjVal? "sides").getArr?).toList.mapM jSide
    return toString (isReorderable reorderRequiresNoSide sides)
  | _ => throw s!"unknown op {op}"

partial def loop (h : IO.FS.Stream) (out : IO.FS.Stream) : IO Unit := do
  let line ← h.getLine
  if line.isEmpty then return
  let l := line.trimAscii.toString
  match handle l with
  | .ok s => out.putStrLn s
  | .error e => out.putStrLn ("harness-error " ++ e)
  loop h out

def main : IO Unit := do
  loop (← IO.getStdin) (← IO.getStdout)
