/- Line-protocol driver for the C10 model.
   {"op":"norm","st":S,"name":N,"quoted":B}                      -> "<name>\t<quoted>"  (Ident.normalize, ASCII maps)
   {"op":"cs","st":S,"bits":[[isLower,isUpper],...]}             -> "true"/"false"      (Dialect.case_sensitive)
   {"op":"canq","quoted":B,"func":B,"cs":B,"re":B,"identify":I}  -> "true"/"false"      (Dialect.can_quote)
   {"op":"qualify","st":S,"schema":[[path,cols],..],"scopes":[..]} -> "ok <json>" | "err <kind>"
   identifiers in "qualify" input are [name, quoted]; the driver normalises them with the strategy (ASCII maps)
   and hands plain names to `qualifyModel`. -/
import Lean.Data.Json
import SqlglotModel.Model.Qualify
import SqlglotModel.Generated.C10

open Lean (Json)
open SqlglotModel.Ident SqlglotModel.Qualify

def jStrat (j : Json) : Except String Strategy := do
  match Strategy.ofString? (← j.getStr?) with
  | some s => pure s
  | none => throw "strategy"

def nm (st : Strategy) (j : Json) : Except String String := do
  let a ← j.getArr?
  if h : a.size = 2 then
    return (normalize asciiFns st ⟨← a[0].getStr?, ← a[1].getBool?⟩).name
  else throw "ident"

def nmOpt (st : Strategy) (j : Json) : Except String (Option String) :=
  if j.isNull then pure none else do return some (← nm st j)

def nms (st : Strategy) (j : Json) : Except String (List String) := do
  (← j.getArr?).toList.mapM (nm st)

def jOp : String → Except String Op
  | "add" => pure .add | "sub" => pure .sub | "mul" => pure .mul
  | "eq" => pure .eq | "gt" => pure .gt | "and" => pure .and
  | _ => throw "op"

partial def jExpr (st : Strategy) (j : Json) : Except String Expr := do
  if let .ok c := j.getObjVal? "c" then
    let a ← c.getArr?
    if h : a.size = 2 then return .col (← nmOpt st a[0]) (← nm st a[1]) else throw "col"
  else if let .ok l := j.getObjVal? "l" then
    return .lit (← l.getNat?)
  else if let .ok b := j.getObjVal? "b" then
    let a ← b.getArr?
    if h : a.size = 3 then return .bin (← jOp (← a[0].getStr?)) (← jExpr st a[1]) (← jExpr st a[2]) else throw "bin"
  else if let .ok p := j.getObjVal? "p" then
    return .paren (← jExpr st p)
  else if let .ok f := j.getObjVal? "f" then
    let args ← (← f.getArr?).toList.mapM fun x => do
      let a ← x.getArr?
      if h : a.size = 2 then pure ((← nm st a[0]), (← nm st a[1])) else throw "coalesce arg"
    return .coalesce args
  else throw "expr"

def jExprOpt (st : Strategy) (j : Json) : Except String (Option Expr) :=
  if j.isNull then pure none else do return some (← jExpr st j)

def jSrc (st : Strategy) (j : Json) : Except String Src := do
  let alias ← nmOpt st (← j.getObjVal? "alias")
  if let .ok p := j.getObjVal? "parts" then
    return ⟨.table (← nms st p), alias⟩
  else
    return ⟨.scope (← (← j.getObjVal? "idx").getNat?) (← (← j.getObjVal? "derived").getBool?), alias⟩

def jJoin (st : Strategy) (j : Json) : Except String Join := do
  return { natural := ← (← j.getObjVal? "natural").getBool?,
           usingCols := ← nms st (← j.getObjVal? "using"),
           on := ← jExprOpt st (← j.getObjVal? "on") }

def jProj (st : Strategy) (j : Json) : Except String Proj := do
  if let .ok s := j.getObjVal? "star" then
    return .star (← nmOpt st s) (← nms st (← j.getObjVal? "except"))
  else
    return .item (← jExpr st (← j.getObjVal? "e")) (← nmOpt st (← j.getObjVal? "alias"))

def jScope (st : Strategy) (j : Json) : Except String Scope := do
  return {
    outer := ← nms st (← j.getObjVal? "outer"),
    srcs := ← (← (← j.getObjVal? "srcs").getArr?).toList.mapM (jSrc st),
    joins := ← (← (← j.getObjVal? "joins").getArr?).toList.mapM (jJoin st),
    projs := ← (← (← j.getObjVal? "projs").getArr?).toList.mapM (jProj st),
    whr := ← jExprOpt st (← j.getObjVal? "where"),
    group := ← (← (← j.getObjVal? "group").getArr?).toList.mapM (jExpr st),
    having := ← jExprOpt st (← j.getObjVal? "having"),
    order := ← (← (← j.getObjVal? "order").getArr?).toList.mapM (jExpr st) }

def oStr (o : Option String) : Json := match o with | some s => .str s | none => .null

def opName : Op → String
  | .add => "add" | .sub => "sub" | .mul => "mul" | .eq => "eq" | .gt => "gt" | .and => "and"

def eJson : Expr → Json
  | .col t n => Json.mkObj [("c", .arr #[oStr t, .str n])]
  | .lit k => Json.mkObj [("l", .num k)]
  | .bin op l r => Json.mkObj [("b", .arr #[.str (opName op), eJson l, eJson r])]
  | .paren e => Json.mkObj [("p", eJson e)]
  | .coalesce args => Json.mkObj [("f", .arr (args.map (fun a => Json.arr #[.str a.1, .str a.2])).toArray)]

def eOptJson : Option Expr → Json
  | some e => eJson e
  | none => .null

def srcJson (s : Src) : Json :=
  match s.kind with
  | .table parts => Json.mkObj [("parts", .arr (parts.map Json.str).toArray), ("alias", oStr s.alias)]
  | .scope i d => Json.mkObj [("idx", .num i), ("derived", .bool d), ("alias", oStr s.alias)]

def projJson : Proj → Json
  | .star t exc => Json.mkObj [("star", oStr t), ("except", .arr (exc.map Json.str).toArray)]
  | .item e a => Json.mkObj [("e", eJson e), ("alias", oStr a)]

def joinJson (j : Join) : Json :=
  Json.mkObj [("natural", .bool j.natural), ("using", .arr (j.usingCols.map Json.str).toArray), ("on", eOptJson j.on)]

def scopeJson (s : Scope) : Json :=
  Json.mkObj [
    ("joins", .arr (s.joins.map joinJson).toArray),
    ("outer", .arr (s.outer.map Json.str).toArray),
    ("srcs", .arr (s.srcs.map srcJson).toArray),
    ("projs", .arr (s.projs.map projJson).toArray),
    ("where", eOptJson s.whr),
    ("group", .arr (s.group.map eJson).toArray),
    ("having", eOptJson s.having),
    ("order", .arr (s.order.map eJson).toArray)]

def jBits (j : Json) : Except String (List (Bool × Bool)) := do
  (← j.getArr?).toList.mapM fun p => do
    let a ← p.getArr?
    if h : a.size = 2 then pure ((← a[0].getBool?), (← a[1].getBool?)) else throw "bits"

def jIdentify : String → Except String Identify
  | "true" => pure .always | "safe" => pure .safe | "unsafe" => pure .unsafeOnly | "false" => pure .never
  | _ => throw "identify"

def handle (line : String) : Except String String := do
  let j ← Json.parse line
  let op ← (← j.getObjVal? "op").getStr?
  match op with
  | "norm" =>
    let st ← jStrat (← j.getObjVal? "st")
    let i := normalize asciiFns st ⟨← (← j.getObjVal? "name").getStr?, ← (← j.getObjVal? "quoted").getBool?⟩
    return i.name ++ "\t" ++ toString i.quoted
  | "cs" =>
    let st ← jStrat (← j.getObjVal? "st")
    let bits ← jBits (← j.getObjVal? "bits")
    -- characters are shipped as their (islower, isupper) class bits; encode each as an index into the list
    let chars := (List.range bits.length).map (fun i => Char.ofNat (i + 1))
    let look (f : Bool × Bool → Bool) (c : Char) : Bool :=
      match bits[c.toNat - 1]? with | some b => f b | none => false
    return toString (caseSensitiveText (look (·.1)) (look (·.2)) st chars)
  | "canq" =>
    let g (k : String) : Except String Bool := do (← j.getObjVal? k).getBool?
    return toString (canQuote (← g "quoted") (← g "func") (← g "cs") (← g "re")
      (← jIdentify (← (← j.getObjVal? "identify").getStr?)))
  | "normt" =>
    let st ← jStrat (← j.getObjVal? "st")
    let b (k : String) : Except String Bool := do (← j.getObjVal? k).getBool?
    let c : TableCtx := ⟨← b "udf", ← b "twd", ← b "qt", ← b "mc", ← b "tag"⟩
    let i := normalizeT asciiFns (← b "ts") st c ⟨← (← j.getObjVal? "name").getStr?, ← b "quoted"⟩
    return i.name ++ "\t" ++ toString i.quoted
  | "defq" =>
    let st ← jStrat (← j.getObjVal? "st")
    let b (k : String) : Except String Bool := do (← j.getObjVal? k).getBool?
    let i := defaultQualifier asciiFns (← b "ts") st SqlglotModel.Generated.C10.defaultQualifierTagFirst
      ⟨← (← j.getObjVal? "name").getStr?, ← b "quoted"⟩
    return i.name ++ "\t" ++ toString i.quoted
  | "normmemo" =>
    let st ← jStrat (← j.getObjVal? "st")
    let ts ← (← j.getObjVal? "ts").getBool?
    let ks ← (← (← j.getObjVal? "calls").getArr?).toList.mapM fun c => do
      let a ← c.getArr?
      if h : a.size = 3 then pure (NKey.mk (← a[0].getStr?) (← a[1].getBool?) (← a[2].getBool?)) else throw "call"
    let hasRole := SqlglotModel.Generated.C10.schemaNameMemoKey.contains "is_table"
    return "\t".intercalate (normMemoRun hasRole asciiFns ts st [] ks)
  | "ctes" =>
    let jEnv (x : Json) : Except String CteEnv := do
      (← x.getArr?).toList.mapM fun p => do
        let a ← p.getArr?
        if h : a.size = 2 then pure ((← a[0].getStr?), (← a[1].getNat?)) else throw "cte env"
    let ops ← (← (← j.getObjVal? "ops").getArr?).toList.mapM fun o => do
      let k ← (← o.getObjVal? "o").getStr?
      match k with
      | "branch" => pure (COp.branch (← (← o.getObjVal? "p").getNat?) (← jEnv (← o.getObjVal? "x")))
      | "update" => pure (COp.update (← (← o.getObjVal? "s").getNat?) (← jEnv (← o.getObjVal? "d")))
      | "resolve" => pure (COp.resolve (← (← o.getObjVal? "s").getNat?) (← (← o.getObjVal? "n").getStr?))
      | _ => throw "cte op"
    let res := crun SqlglotModel.Generated.C10.branchCopiesCteSources CState.root ops
    return " ".intercalate (res.map (fun r => match r with | some k => toString k | none => "-"))
  | "qualify" =>
    let st ← jStrat (← j.getObjVal? "st")
    let σ ← (← (← j.getObjVal? "schema").getArr?).toList.mapM fun e => do
      let a ← e.getArr?
      if h : a.size = 2 then
        pure ((← (← a[0].getArr?).toList.mapM (·.getStr?)), (← (← a[1].getArr?).toList.mapM (·.getStr?)))
      else throw "schema"
    let scopes ← (← (← j.getObjVal? "scopes").getArr?).toList.mapM (jScope st)
    let colName (i : Nat) : String := (normalize asciiFns st ⟨"_col_" ++ toString i, false⟩).name
    let refold (n : String) : String := (normalize asciiFns st ⟨n, false⟩).name
    match qualifyModel ⟨colName, refold, SqlglotModel.Generated.C10.joinContextDefinitionOrder⟩ σ scopes with
    | .ok r => return "ok " ++ (Json.arr (r.map scopeJson).toArray).compress
    | .error .optimize => return "err optimize"
    | .error .unsupported => return "err unsupported"
    | .error .internal => return "err internal"
  | _ => throw "unknown op"

partial def loop (h : IO.FS.Stream) : IO Unit := do
  let line ← h.getLine
  if line.isEmpty then return ()
  match handle line.trimAscii.toString with
  | .ok out => IO.println out; loop h
  | .error e => IO.println ("bad-op " ++ e); loop h

def main : IO Unit := do loop (← IO.getStdin)
