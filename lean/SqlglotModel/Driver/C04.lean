/- Line-protocol driver for the C04 model: one JSON op per line in, one canonical answer per line out.
   Characters travel as code-point arrays.  Configurations are looked up in the GENERATED table by (dialect, kind, pass). -/
import Lean.Data.Json
import SqlglotModel.Model.StrLex
import SqlglotModel.Generated.C04

open Lean (Json)
open SqlglotModel.Str

def jChars (j : Json) : Except String (List Char) := do
  (← j.getArr?).toList.mapM fun x => do pure (Char.ofNat (← x.getNat?))

def showChars (l : List Char) : String := ",".intercalate (l.map fun c => toString c.toNat)

def getCfg (j : Json) : Except String (Bool × Cfg) := do
  let d ← (← j.getObjVal? "d").getStr?
  let kind ← (← j.getObjVal? "kind").getStr?
  let k ← (← j.getObjVal? "k").getNat?
  match SqlglotModel.Generated.C04.dialects.find? (·.name == d) with
  | none => throw s!"no dialect {d}"
  | some e =>
    match (if kind == "str" then e.strCfgs else if kind == "byte" then e.byteCfgs else e.idCfgs)[k]? with
    | none => throw "no such pass"
    | some c => pure c

def kindName : TokKind → String
  | .str => "str" | .national => "national" | .byte => "byte" | .raw => "raw" | .unicode => "unicode"
  | .hex => "hex" | .bit => "bit" | .heredoc => "heredoc" | .ident => "ident" | .other => "other"

def getLex (j : Json) : Except String LexCfg := do
  let d ← (← j.getObjVal? "d").getStr?
  let k ← (← j.getObjVal? "k").getNat?
  match SqlglotModel.Generated.C04.dialects.find? (·.name == d) with
  | none => throw s!"no dialect {d}"
  | some e =>
    match e.lex[k]? with
    | none => throw "no such pass"
    | some c => pure c

def showR : R → String
  | .ok t r => "ok " ++ showChars t ++ "|" ++ toString r.length
  | .err => "err"

def handle (line : String) : Except String String := do
  let j ← Json.parse line
  let op ← (← j.getObjVal? "op").getStr?
  match op with
  | "extract" => pure (showR (extract (← getCfg j).2 (← jChars (← j.getObjVal? "s"))))
  | "scan" => pure (showR (scanL (← getCfg j).2 (← jChars (← j.getObjVal? "s")) []))
  | "fast" =>
    match fastPath (← getCfg j).2 (← jChars (← j.getObjVal? "s")) with
    | none => pure "none"
    | some (t, r) => pure ("some " ++ showChars t ++ "|" ++ toString r.length)
  | "esc" => pure (showChars (escapeStr (← getCfg j).2 (← jChars (← j.getObjVal? "v"))))
  | "ident" => pure (showChars (identifierSql (← getCfg j).2 (← jChars (← j.getObjVal? "v"))))
  | "wf" =>
    let (ok, c) ← getCfg j
    pure (toString (ok && wf c) ++ " " ++ toString (wfFast c))
  | "san" =>
    let sp ← jChars (← j.getObjVal? "sp")
    pure (showChars (sanitizeComment (fun x => sp.contains x) (← jChars (← j.getObjVal? "c"))))
  | "scanc" =>
    match readComment (← (← j.getObjVal? "nested").getBool?) (← jChars (← j.getObjVal? "s")) with
    | none => pure "none"
    | some (t, r) => pure ("some " ++ toString r.length ++ "|" ++ showChars t)
  | "lex" =>
    let L ← getLex j
    let sp ← jChars (← j.getObjVal? "sp")
    let isSpace := fun x => sp.contains x
    match lexLoop L isSpace (otherSimple L isSpace) (← jChars (← j.getObjVal? "s")) with
    | none => pure "unsupported"
    | some none => pure "err"
    | some (some ts) => pure ("ok " ++ ";".intercalate (ts.map fun t => kindName t.kind ++ ":" ++ showChars t.text))
  | "mc" =>
    let sp ← jChars (← j.getObjVal? "sp")
    let cs ← (← (← j.getObjVal? "cs").getArr?).toList.mapM jChars
    pure (showChars (maybeComment (fun x => sp.contains x) (← jChars (← j.getObjVal? "sql")) cs))
  | "bytesql" => pure (showChars (byteSql (← getCfg j).2 (← jChars (← j.getObjVal? "v"))))
  | "rawsql" => pure (showChars (rawSql (← getCfg j).2 (← jChars (← j.getObjVal? "v"))))
  | _ => throw "unknown op"

partial def loop (h : IO.FS.Stream) : IO Unit := do
  let line ← h.getLine
  if line.isEmpty then return ()
  match handle line.trimAscii.toString with
  | .ok out => IO.println out
  | .error e => IO.println ("bad-op " ++ e)
  loop h

def main : IO Unit := do loop (← IO.getStdin)
