/- Line-protocol driver for the C07 model (Model/Pretty.lean): one JSON request per line, one JSON string answer. -/
import Lean.Data.Json
import SqlglotModel.Model.Pretty

open Lean (Json)
open SqlglotModel.Pretty

def gS (j : Json) (k : String) : Except String Str := do return (← (← j.getObjVal? k).getStr?).toList
def gB (j : Json) (k : String) : Except String Bool := do (← j.getObjVal? k).getBool?
def gN (j : Json) (k : String) : Except String Nat := do (← j.getObjVal? k).getNat?
def gL (j : Json) (k : String) : Except String (List Str) := do
  (← (← j.getObjVal? k).getArr?).toList.mapM fun x => do return (← x.getStr?).toList

def handle (line : String) : Except String String := do
  let j ← Json.parse line
  let o : Opts := ⟨← gB j "pretty", ← gN j "pad", ← gN j "indent", ← gN j "mtw", ← gB j "lc"⟩
  let op ← (← j.getObjVal? "op").getStr?
  let r ← match op with
    | "sep" => pure (sep o (← gS j "s"))
    | "seg" => pure (seg o (← gS j "sql") (← gS j "s"))
    | "indent" =>
      let pad := match j.getObjVal? "padarg" with
        | .ok (Json.num n) => some n.mantissa.toNat
        | _ => none
      pure (indent o (← gS j "sql") (← gN j "level") pad (← gB j "sf") (← gB j "sl"))
    | "wrap" => pure (wrap o (← gS j "sql"))
    | "expressions" =>
      pure (expressions o (← gL j "items") (← gB j "flat") (← gB j "ind") (← gB j "sf") (← gB j "sl") (← gS j "s")
        (← gS j "prefix") (← gB j "dynamic") (← gB j "nl"))
    | "literal" => pure (literalOut o (← gS j "v"))
    | "sanitize" => pure (sanitizeComment (← gS j "c"))
    | "comment" => pure (maybeComment o (← gB j "comments") (← gS j "sql") (← gL j "cs"))
    | _ => throw "unknown op"
  return (Json.str (String.ofList r)).compress

partial def loop (h : IO.FS.Stream) : IO Unit := do
  let line ← h.getLine
  if line.isEmpty then return ()
  match handle line.trimAscii.toString with
  | .ok s => IO.println s
  | .error e => IO.println (Json.str ("!bad " ++ e)).compress
  loop h

def main : IO Unit := do loop (← IO.getStdin)
