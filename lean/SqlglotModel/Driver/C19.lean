/-
  Line-protocol driver for the C19 model (Model/Threads.lean).
  in : {"kind":"rlock|plain|absent","bodies":[[m,[["lazy"|"direct",d],...]],...],"progs":[[["access"|"gen",m],...],...],
        "trace":[[tid,"call",m],[tid,"acq"],[tid,"imp",m],[tid,"exec",m],[tid,"reg",m],[tid,"rel"],
                 [tid,"chit",m],[tid,"cmiss",m],[tid,"cset",m],...]}          -- replay of a recorded trace
       or the same with "sched":[tid,...] instead of "trace"                      -- run a scheduler choice list
  out: {"ok":true,"complete":b,"results":[[["attr",m,b]|["disp",m,v],...],...],"loads":[[m,n],...],"lock":d,"steps":n}
       {"ok":false,"at":i,"why":"...","model":"label the model can do next"}
  Unobservable (`tau`) steps of a thread are taken eagerly before each of its observable events and at the end.
-/
import Lean.Data.Json
import SqlglotModel.Model.Threads

open Lean (Json)
open SqlglotModel.Threads

def jNat (j : Json) : Except String Nat := j.getNat?

def jItem (j : Json) : Except String Item := do
  let a ← j.getArr?
  if h : a.size = 2 then
    let m ← jNat a[1]
    match ← a[0].getStr? with
    | "lazy" => pure (.lazy m)
    | "direct" => pure (.direct m)
    | _ => throw "item"
  else throw "item"

def jOp (j : Json) : Except String Op := do
  let a ← j.getArr?
  if h : a.size = 2 then
    let m ← jNat a[1]
    match ← a[0].getStr? with
    | "access" => pure (.access m)
    | "gen" => pure (.gen m)
    | _ => throw "op"
  else throw "op"

def jEvent (j : Json) : Except String (Tid × Label) := do
  let a ← j.getArr?
  if h : a.size ≥ 2 then
    let t ← jNat a[0]
    let k ← a[1].getStr?
    let m : Nat := match a[2]? with
      | some x => (x.getNat?.toOption.getD 0)
      | none => 0
    match k with
    | "call" => pure (t, .call m)
    | "acq" => pure (t, .acq)
    | "imp" => pure (t, .imp m)
    | "exec" => pure (t, .exec m)
    | "reg" => pure (t, .reg m)
    | "rel" => pure (t, .rel)
    | "chit" => pure (t, .chit m)
    | "cmiss" => pure (t, .cmiss m)
    | "cset" => pure (t, .cset m)
    | _ => throw ("event kind " ++ k)
  else throw "event"

def showLabel : Label → String
  | .call m => s!"call {m}"
  | .acq => "acq"
  | .imp m => s!"imp {m}"
  | .exec m => s!"exec {m}"
  | .reg m => s!"reg {m}"
  | .rel => "rel"
  | .tau => "tau"
  | .chit m => s!"chit {m}"
  | .cmiss m => s!"cmiss {m}"
  | .cset m => s!"cset {m}"

def lookupBody (tbl : List (Mod × List Item)) (m : Mod) : List Item :=
  match tbl.find? (fun p => p.1 == m) with
  | some p => p.2
  | none => []

/-- take thread `t`'s unobservable steps (bounded by fuel) -/
def advanceTau (cfg : Cfg) : Nat → State → Tid → State
  | 0, s, _ => s
  | n + 1, s, t =>
    match step cfg s t with
    | some (.tau, s') => advanceTau cfg n s' t
    | _ => s

def nextLabel (cfg : Cfg) (s : State) (t : Tid) : String :=
  match step cfg s t with
  | some (l, _) => showLabel l
  | none => if (s.threads t).finished then "finished" else "blocked"

def replay (cfg : Cfg) : State → Nat → List (Tid × Label) → Except (Nat × String × String) State
  | s, _, [] => pure s
  | s, i, (t, l) :: rest =>
    let s1 := advanceTau cfg 10000 s t
    match step cfg s1 t with
    | none => throw (i, s!"thread {t} does {showLabel l} but the model thread is " ++ nextLabel cfg s1 t, nextLabel cfg s1 t)
    | some (l', s2) =>
      if l' = l then replay cfg s2 (i + 1) rest
      else throw (i, s!"thread {t} does {showLabel l}; the model's next step of that thread is {showLabel l'}", showLabel l')

def resJson : Res → Json
  | .attr m ok => Json.arr #["attr", m, ok]
  | .disp m v => Json.arr #["disp", m, v]

def summary (cfg : Cfg) (s0 : State) (nThreads : Nat) (mods : List Mod) (steps : Nat) : Json :=
  let s := (List.range nThreads).foldl (fun s t => advanceTau cfg 10000 s t) s0
  let complete := (List.range nThreads).all fun t => (s.threads t).finished
  let stuck := (List.range nThreads).all fun t => (step cfg s t).isNone
  Json.mkObj [
    ("ok", true), ("complete", complete), ("stuck", stuck && !complete),
    ("results", Json.arr ((List.range nThreads).map fun t => Json.arr (((s.threads t).results.map resJson).toArray)).toArray),
    ("loads", Json.arr (mods.map fun m => Json.arr #[(m : Nat), s.loads m]).toArray),
    ("registered", Json.arr ((mods.filter s.registered).map fun m => ((m : Nat) : Json)).toArray),
    ("lock", match s.lock with | some (_, d) => (d : Nat) | none => (0 : Nat)),
    ("steps", steps)]

def handle (line : String) : Except String String := do
  let j ← Json.parse line
  let kind ← match ← (← j.getObjVal? "kind").getStr? with
    | "rlock" => pure LockKind.rlock
    | "plain" => pure LockKind.plain
    | "absent" => pure LockKind.absent
    | k => throw ("kind " ++ k)
  let bodies ← (← (← j.getObjVal? "bodies").getArr?).toList.mapM fun e => do
    let a ← e.getArr?
    if h : a.size = 2 then
      pure ((← jNat a[0]), (← (← a[1].getArr?).toList.mapM jItem))
    else throw "body"
  let progs ← (← (← j.getObjVal? "progs").getArr?).toList.mapM fun p => do (← p.getArr?).toList.mapM jOp
  let cfg : Cfg := { kind := kind, body := lookupBody bodies, build := fun m => m + 1000 }
  let s0 := initState fun t => progs.getD t []
  let mods := (bodies.map (·.1)).eraseDups
  match j.getObjVal? "trace" with
  | .ok tr =>
    let evs ← (← tr.getArr?).toList.mapM jEvent
    match replay cfg s0 0 evs with
    | .ok s => pure (summary cfg s progs.length mods evs.length).compress
    | .error (i, why, nxt) =>
      pure (Json.mkObj [("ok", false), ("at", (i : Nat)), ("why", why), ("model", nxt)]).compress
  | .error _ =>
    let sched ← (← (← j.getObjVal? "sched").getArr?).toList.mapM jNat
    pure (summary cfg (runSched cfg s0 sched) progs.length mods sched.length).compress

partial def loop (h : IO.FS.Stream) (out : IO.FS.Stream) : IO Unit := do
  let line ← h.getLine
  if line.isEmpty then return
  let l := line.trimAscii.toString
  if l.isEmpty then
    out.putStrLn "{}"
  else
    match handle l with
    | .ok r => out.putStrLn r
    | .error e => out.putStrLn (Json.mkObj [("ok", false), ("at", (0 : Nat)), ("why", "protocol: " ++ e), ("model", "")]).compress
  loop h out

def main : IO Unit := do
  let i ← IO.getStdin
  let o ← IO.getStdout
  loop i o
