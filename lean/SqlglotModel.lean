-- Root of the `SqlglotModel` library: every property file (and through them every model and proof file).
import SqlglotModel.Properties.C13
import SqlglotModel.Properties.C18
