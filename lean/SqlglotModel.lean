-- Root of the `SqlglotModel` library: every property file (and through them every model and proof file).
import SqlglotModel.Properties.C04
import SqlglotModel.Properties.C06
import SqlglotModel.Properties.C10
import SqlglotModel.Properties.C11
import SqlglotModel.Properties.C12
import SqlglotModel.Properties.C13
import SqlglotModel.Properties.C14
import SqlglotModel.Properties.C15
import SqlglotModel.Properties.C16
import SqlglotModel.Properties.C17
import SqlglotModel.Properties.C18
import SqlglotModel.Properties.C19
import SqlglotModel.Properties.C20
