"""Regenerates the machine-written tables of DESIGN.md (between <!-- BEGIN:x --> / <!-- END:x --> markers):

  findings   : known_findings.json (fixed / known), one row per entry
  seeded     : seeded/*/meta.json catch matrix (which check catches which seeded change, at which stage)
  claims     : per-property technique / obligations, from vf/claims.json + evidence/*.json

run: python3 -m vf.design_tables
"""

import glob
import json
import os
import re

ROOT = os.path.dirname(os.path.dirname(os.path.abspath(__file__)))


def esc(s: str) -> str:
    return str(s).replace("|", "\\|").replace("\n", " ")


def findings_table() -> str:
    d = json.load(open(os.path.join(ROOT, "known_findings.json")))["findings"]
    rows = ["| property | id | status | what fails (minimal input / call site) |", "|---|---|---|---|"]
    for f in sorted(d, key=lambda f: (f["property"], f["kind"], f["id"])):
        status = f"fixed in /repo {f.get('commit', '')}" if f["kind"] == "fixed" else "known finding"
        desc = f.get("description", "")
        desc = re.sub(r"^fixed: property=\S+ \S+ ", "", desc)
        rows.append(f"| {f['property']} | `{f['id']}` | {status} | {esc(desc)[:420]} |")
    nf = sum(1 for f in d if f["kind"] == "fixed")
    rows.append("")
    rows.append(f"{len(d)} entries: {nf} repaired by `fix:` commits, {len(d) - nf} recorded as known findings.")
    return "\n".join(rows)


def stage_of(run: dict) -> str:
    st = set()
    for w in run.get("what", []):
        if "violation on the real code" in w:
            st.add("search (concrete replay)")
        if "correspondence differs" in w:
            st.add("correspondence")
        if "no longer check" in w:
            st.add("proof/translator")
    for v in run.get("violation_lines", []):
        if "no-failing-input-found" in v:
            st.add("tie broken, no failing input found")
        elif v.startswith("VIOLATION"):
            st.add("search (concrete replay)")
    return ", ".join(sorted(st)) or "-"


def seeded_table() -> str:
    rows = ["| seeded change | property | what it does / what it needs to manifest | tests pass | demo (changed/clean) | caught by `./check` | stage |",
            "|---|---|---|---|---|---|---|"]
    n = c = 0
    for p in sorted(glob.glob(os.path.join(ROOT, "seeded", "*", "meta.json"))):
        m = json.load(open(p))
        conf = m.get("confirmed", {})
        sid = os.path.basename(os.path.dirname(p))
        if not conf.get("applies", False):
            rows.append(f"| `{sid}` | {m.get('property')} | {esc(m.get('summary', ''))[:200]} | - | - | patch no longer applies to /repo HEAD | - |")
            continue
        n += 1
        det = conf.get("detected")
        c += bool(det)
        runs = conf.get("check_runs", [])
        stages = "; ".join(sorted({stage_of(r) for r in runs}))
        tests = "yes" if "passed" in conf.get("tests", "") and "failed" not in conf.get("tests", "") else conf.get("tests", "?")
        rows.append(
            f"| `{sid}` | {m.get('property')} | {esc(m.get('summary', ''))[:220]} — needs: {esc(m.get('needs', ''))[:220]} | {tests} | "
            f"{conf.get('demo_exit_changed')}/{conf.get('demo_exit_clean')} | {'YES' if det else 'no'} ({', '.join('seed %s: exit %s' % (r['seed'], r['exit']) for r in runs)}) | {stages} |")
    rows.append("")
    rows.append(f"{c} of {n} confirmed seeded changes are caught by the quick tier on both seeds tried.")
    return "\n".join(rows)


def claims_table() -> str:
    claims = json.load(open(os.path.join(ROOT, "vf", "claims.json")))
    rows = ["| property | deciding technique | theorems (obligations) | correspondence cases / run | known findings hit on the clean tree |", "|---|---|---|---|---|"]
    for pid in sorted(claims):
        ev = {}
        p = os.path.join(ROOT, "evidence", f"{pid}.json")
        if os.path.exists(p):
            ev = json.load(open(p)).get("coverage", {})
        rows.append(f"| {pid} | {esc(claims[pid]['technique'])} | {ev.get('discharged', '?')}/{ev.get('obligations', '?')} | "
                    f"{ev.get('correspondence', {}).get('cases', '?')} | {len(ev.get('known_findings_hit', []))} |")
    return "\n".join(rows)


def properties_block() -> str:
    claims = json.load(open(os.path.join(ROOT, "vf", "claims.json")))
    out = []
    for pid in sorted(claims):
        ev = {}
        q = os.path.join(ROOT, "evidence", f"{pid}.json")
        if os.path.exists(q):
            ev = json.load(open(q)).get("coverage", {})
        c = claims[pid]
        names = [t["name"].split(".")[-1] for t in ev.get("theorems", [])]
        out.append(f"### {pid}\n")
        out.append(f"*Deciding technique.* {c['technique']}\n")
        out.append(f"*What the check establishes.* {c['text']}\n")
        out.append(f"*Trusted / modelled rather than verified.* {c['note']}\n")
        if names:
            out.append(f"*Theorems re-checked on every run ({len(names)} obligations; `lean/SqlglotModel/Properties/{pid}.lean`).* "
                       + ", ".join(f"`{n}`" for n in names) + "\n")
        gen = ev.get("generated_tables", {})
        if gen:
            out.append("*Regenerated from the source on every run.* " + ", ".join(f"`Generated/{k}.lean` ({v.get('bytes')} bytes)" for k, v in gen.items()) + "\n")
    return "\n".join(out)


def main() -> None:
    path = os.path.join(ROOT, "DESIGN.md")
    s = open(path).read()
    for name, fn in (("findings", findings_table), ("seeded", seeded_table), ("claims", claims_table), ("properties", properties_block)):
        pat = re.compile(rf"(<!-- BEGIN:{name} -->\n).*?(\n<!-- END:{name} -->)", re.S)
        if pat.search(s):
            s = pat.sub(lambda m: m.group(1) + fn() + m.group(2), s)
    open(path, "w").write(s)


if __name__ == "__main__":
    main()
