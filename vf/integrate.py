"""Integrator helper.

  python3 -m vf.integrate merge Cxx [--fixed <finding-id>=<commit> ...]
      move known_pending/Cxx.json entries into known_findings.json (kind=known), or as kind=fixed with the
      /repo commit that repaired them; deletes known_pending/Cxx.json.
  python3 -m vf.integrate seeds Cxx [seeds...]
      run ./check Cxx for the given seeds (default 0 1 2 12345) and print one summary line each.
"""

import json
import os
import subprocess
import sys

ROOT = os.path.dirname(os.path.dirname(os.path.abspath(__file__)))


def merge(pid: str, fixed: dict) -> None:
    kf = os.path.join(ROOT, "known_findings.json")
    d = json.load(open(kf))
    pend_path = os.path.join(ROOT, "known_pending", f"{pid}.json")
    pend = json.load(open(pend_path))
    entries = pend.get("findings", pend) if isinstance(pend, dict) else pend
    have = {f["id"] for f in d["findings"]}
    for e in entries:
        e.setdefault("property", pid)
        if e["id"] in have:
            d["findings"] = [f for f in d["findings"] if f["id"] != e["id"]]
        if e["id"] in fixed:
            e["kind"] = "fixed"
            e["commit"] = fixed[e["id"]]
            e["description"] = f"fixed: property={e['property']} {fixed[e['id']]} " + e.get("description", "")
        else:
            e["kind"] = "known"
        d["findings"].append(e)
    json.dump(d, open(kf, "w"), indent=1)
    os.remove(pend_path)
    print(f"merged {len(entries)} entries for {pid} ({len(fixed)} fixed)")


def seeds(pid: str, ss: list) -> None:
    for s in ss:
        env = dict(os.environ, VERIF_SEED=str(s))
        p = subprocess.run(["./check", pid], cwd=ROOT, env=env, capture_output=True, text=True)
        lines = p.stdout.strip().splitlines()
        vio = [l for l in lines if l.startswith("VIOLATION")]
        kn = [l for l in lines if l.startswith("KNOWN-FINDING")]
        print(f"seed={s} exit={p.returncode} known={len(kn)} viol={len(vio)} :: {lines[-1] if lines else p.stderr[-200:]}")
        for v in vio[:3]:
            print("   ", v)
        if p.returncode == 2:
            print("   ", (p.stdout + p.stderr)[-600:])


if __name__ == "__main__":
    cmd, pid = sys.argv[1], sys.argv[2].upper()
    if cmd == "merge":
        fx = {}
        args = sys.argv[3:]
        for a in args:
            if "=" in a and not a.startswith("--"):
                k, v = a.split("=", 1)
                fx[k] = v
        merge(pid, fx)
    elif cmd == "fix":
        kf = os.path.join(ROOT, "known_findings.json")
        d = json.load(open(kf))
        for a in sys.argv[3:]:
            k, v = a.split("=", 1)
            for f in d["findings"]:
                if f["id"] == k:
                    f["kind"] = "fixed"
                    f["commit"] = v
                    if not f.get("description", "").startswith("fixed:"):
                        f["description"] = f"fixed: property={f['property']} {v} " + f.get("description", "")
                    print("marked fixed:", k)
        json.dump(d, open(kf, "w"), indent=1)
    elif cmd == "all":
        # python3 -m vf.integrate all ALL [seed]  — every claimed check once, 4 at a time
        from concurrent.futures import ThreadPoolExecutor
        seed = sys.argv[3] if len(sys.argv) > 3 else "0"
        pids = sorted(json.load(open(os.path.join(ROOT, "vf", "claims.json"))))
        def one(p):
            env = dict(os.environ, VERIF_SEED=seed)
            r = subprocess.run(["./check", p], cwd=ROOT, env=env, capture_output=True, text=True)
            lines = r.stdout.strip().splitlines()
            return p, r.returncode, (lines[-1] if lines else r.stderr[-200:]), [l for l in lines if l.startswith("VIOLATION")]
        with ThreadPoolExecutor(4) as ex:
            for p, rc, last, vio in ex.map(one, pids):
                print(("OK  " if rc == 0 else "FAIL") + f" {p} exit={rc} :: {last[:170]}")
                for v in vio[:2]:
                    print("     ", v)
    elif cmd == "seeds":
        seeds(pid, [int(x) for x in sys.argv[3:]] or [0, 1, 2, 12345])
