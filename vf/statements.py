"""python3 -m vf.statements  — (re)write lean/statements.json from the evidence files of the last runs (theorem -> statement hash)."""
import glob, json, os
ROOT = os.path.dirname(os.path.dirname(os.path.abspath(__file__)))
out = {}
for p in sorted(glob.glob(os.path.join(ROOT, "evidence", "C*.json"))):
    ev = json.load(open(p))
    pid = ev["property_id"]
    out[pid] = {t["name"]: t["statement_sha"] for t in ev["coverage"].get("theorems", []) if "statement_sha" in t}
json.dump(out, open(os.path.join(ROOT, "lean", "statements.json"), "w"), indent=1, sort_keys=True)
print({k: len(v) for k, v in out.items()})
