"""Writes /verif/MANIFEST.json from the table below (run: python3 -m vf.gen_manifest)."""

import json
import os

ROOT = os.path.dirname(os.path.dirname(os.path.abspath(__file__)))

# pid -> (technique, level text, level note, design ref)
CLAIMED = {
    "C13": (
        "Lean 4 invariant proofs for the tokenizer's cursor/position arithmetic and highlight_sql + translator (delimiter tables, repair flags) + six-field token correspondence + position oracle on the real code",
        "Proof (partial): Model/Lex.lean mirrors TokenizerCore (_scan, _advance incl. alnum batch and rewinds, _add, keyword/number/var/identifier/"
        "string/comment scanners, _extract_string fast and slow path) and errors.highlight_sql. Properties/C13.lean proves for all inputs and "
        "configurations that _advance keeps line = 1 + breaks-before and col = offset-in-line (single steps unconditionally, jumps/rewinds when no "
        "CR/LF is skipped), that _add stamps tokens whose line/col agree with their end offset, that under the _scan phase discipline tokens are "
        "strictly ordered, non-overlapping and inside the input, and that highlight_sql selects exactly s[a..b] with bounded contexts; per-dialect "
        "delimiter facts are decided completely on tables regenerated every run. That lex's whole control flow follows the phase discipline and the "
        "gap/coverage clause are NOT Lean theorems: they rest on exact model-vs-implementation correspondence (six token fields, ~6200 cases/run, "
        "32 dialects) and on the search oracle, which alone covers ParseError/TokenError/meta positions.",
        "Trusted: Lean kernel; hand-written Model/Lex.lean tied by sampled correspondence; CPython str.isspace/isalnum/isidentifier/upper shipped "
        "per character on the protocol; behavioural probe of the three repair flags in the translator; the harness's reference line/col and gap parser.",
        "DESIGN.md §4 C13",
    ),
    "C18": (
        "Lean 4 refinement proof (cache-coherence invariant by induction over histories) + translator for the eviction policy + differential histories",
        "Proof: Model/Schema.lean mirrors MappingSchema.find/add_table/column_names/get_column_type/has_column, the trie lookup and the "
        "caches; Properties/C18.lean proves, for every history of any length, that each answer equals the answer of a schema freshly built "
        "from the current mapping (schema_refines_fresh, by the invariant run_inv). The eviction policy is re-extracted from schema.py on "
        "every run and the theorem generated_policy_ok re-checked; histories (exhaustive to length 3/4 over a small alphabet, random beyond) "
        "are run on the real MappingSchema and on the model and compared answer by answer; the property's own oracle (fresh schema / "
        "adds-only schema) is searched on the real code over all dialects.",
        "Trusted: Lean kernel; translator (ast of add_table); hand-written model tied by sampled correspondence; normalisation modelled for the "
        "base normalize_identifier on ASCII names (bigquery override and non-ASCII: search oracle only); visible/udf mappings not modelled.",
        "DESIGN.md §4 C18",
    ),
}

PENDING_REASON = "not yet built in this round: the check for this property is still under construction (see DESIGN.md §8 build order)"


def main() -> None:
    checks = []
    for pid in sorted(CLAIMED):
        tech, text, note, ref = CLAIMED[pid]
        checks.append(
            {
                "property_id": pid,
                "quick_cmd": f"./check {pid} --tier quick",
                "thorough_cmd": f"./check {pid} --tier thorough",
                "evidence_file": f"evidence/{pid}.json",
                "replay_cmd_template": f"./check {pid} --replay {{path}}",
                "engine": "lean4-model",
                "level_claimed": {"category": "proof", "text": text, "design_ref": ref},
                "level_note": note,
                "technique": tech,
            }
        )
    all_ids = [json.loads(l)["id"] for l in open(os.path.join(ROOT, "properties.jsonl"))]
    na = [{"property_id": p, "reason": PENDING_REASON} for p in all_ids if p not in CLAIMED]
    manifest = {
        "version": 1,
        "setup_cmd": "cd lean && lake build",
        "hooks": {
            "guard": "TOBYMAO_SQLGLOT_VERIF",
            "enable": "no source hooks: all instrumentation is installed by the harness at import time (wrapping attributes in its own "
                      "process); ./check exports TOBYMAO_SQLGLOT_VERIF=1 for uniformity",
            "baseline_off_cmd": "cd /repo && /venv/bin/python -m pytest -ra -q -p no:cacheprovider --timeout=900 --continue-on-collection-errors",
            "source_commits": [],
            "add_only": True,
        },
        "engines": [
            {
                "name": "lean4-model",
                "path": "lean/",
                "serves_properties": sorted(CLAIMED),
                "kind_free_text": "Lean 4.33 library SqlglotModel: executable models (Model/), proofs (Proofs/, Properties/), tables regenerated "
                                  "from /repo on every run (Generated/), line-protocol drivers (Driver/); Python harness in vf/",
            }
        ],
        "checks": checks,
        "not_applicable": na,
        "notes": "Every check: translate -> lake build + axiom audit -> correspondence (model vs implementation) -> failing-input search on "
                 "the real code -> report. Exit 0 held / 1 violation / 2 harness error or timeout. VERIF_SEED and VERIF_TIER honoured.",
    }
    with open(os.path.join(ROOT, "MANIFEST.json"), "w") as f:
        json.dump(manifest, f, indent=1)
        f.write("\n")


if __name__ == "__main__":
    main()
