"""Writes /verif/MANIFEST.json from the table below (run: python3 -m vf.gen_manifest)."""

import json
import os

ROOT = os.path.dirname(os.path.dirname(os.path.abspath(__file__)))

# pid -> {technique, text, note, ref}; edited through `python3 -m vf.claim` or by hand
CLAIMS_FILE = os.path.join(ROOT, "vf", "claims.json")
CLAIMED = {k: (v["technique"], v["text"], v["note"], v["ref"]) for k, v in json.load(open(CLAIMS_FILE)).items()}

PENDING_REASON = "not yet built in this round: the check for this property is still under construction (see DESIGN.md §8 build order)"


def main() -> None:
    checks = []
    for pid in sorted(CLAIMED):
        tech, text, note, ref = CLAIMED[pid]
        checks.append(
            {
                "property_id": pid,
                "quick_cmd": f"./check {pid} --tier quick",
                "thorough_cmd": f"./check {pid} --tier thorough",
                "evidence_file": f"evidence/{pid}.json",
                "replay_cmd_template": f"./check {pid} --replay {{path}}",
                "engine": "lean4-model",
                "level_claimed": {"category": "proof", "text": text, "design_ref": ref},
                "level_note": note,
                "technique": tech,
            }
        )
    all_ids = [json.loads(l)["id"] for l in open(os.path.join(ROOT, "properties.jsonl"))]
    na = [{"property_id": p, "reason": PENDING_REASON} for p in all_ids if p not in CLAIMED]
    manifest = {
        "version": 1,
        "setup_cmd": "cd lean && (lake build || echo 'warm-up build incomplete: every check rebuilds its own targets from regenerated tables')",
        "hooks": {
            "guard": "TOBYMAO_SQLGLOT_VERIF",
            "enable": "no source hooks: all instrumentation is installed by the harness at import time (wrapping attributes in its own "
                      "process); ./check exports TOBYMAO_SQLGLOT_VERIF=1 for uniformity",
            "baseline_off_cmd": "cd /repo && /venv/bin/python -m pytest -ra -q -p no:cacheprovider --timeout=900 --continue-on-collection-errors",
            "source_commits": [],
            "add_only": True,
        },
        "engines": [
            {
                "name": "lean4-model",
                "path": "lean/",
                "serves_properties": sorted(CLAIMED),
                "kind_free_text": "Lean 4.33 library SqlglotModel: executable models (Model/), proofs (Proofs/, Properties/), tables regenerated "
                                  "from /repo on every run (Generated/), line-protocol drivers (Driver/); Python harness in vf/",
            }
        ],
        "checks": checks,
        "not_applicable": na,
        "notes": "Every check: translate -> lake build + axiom audit -> correspondence (model vs implementation) -> failing-input search on "
                 "the real code -> report. Exit 0 held / 1 violation / 2 harness error or timeout. VERIF_SEED and VERIF_TIER honoured.",
    }
    with open(os.path.join(ROOT, "MANIFEST.json"), "w") as f:
        json.dump(manifest, f, indent=1)
        f.write("\n")


if __name__ == "__main__":
    main()
