"""C18 — Schema lookups always reflect the current registrations (DESIGN.md §4 C18).

translate : from the ast of sqlglot/schema.py: which `_find_cache` entries `add_table` evicts; the KEY LAYOUT of the three
            memo tables (`_normalize_name`'s `cache_key` tuple, `_normalize_table`'s get / store tuples, `_to_data_type`'s
            key) and the inputs each memoised computation reads
prove     : Properties/C18.lean — refinement to a fresh schema for every history (flat specification), memo transparency
            for every history for covering key layouts (+ `decide`d obligations on the extracted layouts), refinement of
            the nested dict / nested trie / lazily cached depth to the flat view, constructor = incremental add_table
correspond: op histories (raw-constructor and pre-normalised starts, per-call dialect / normalize overrides, BigQuery,
            a settings-string dialect, visible columns, reused Table objects) -> real MappingSchema vs the FULL Lean model
search    : the property's own oracle on the real code: every answer equals the answer of a schema freshly built from the
            current mapping, of a schema that saw only the add_table calls, and (raw start) of a schema that registered the
            same tables one by one
"""

from __future__ import annotations

import ast
import copy
import itertools
import json
import os
import re

from vf.core import Check, REPO, HarnessError

MODULES = ["Model.Ident", "Model.Schema", "Model.SchemaMemo", "Model.SchemaTree", "Model.SchemaFull", "Model.SchemaHash",
           "Proofs.Schema", "Proofs.SchemaMemo", "Proofs.SchemaTree", "Proofs.SchemaFull", "Proofs.SchemaHash",
           "Generated.C18", "Properties.C18"]
P = "SqlglotModel.Properties.C18."
THEOREMS = [P + n for n in [
    # flat specification (cache coherence of find)
    "step_inv", "run_inv", "answer_eq_of_same_mapping", "schema_refines_fresh", "init_inv", "generated_policy_ok",
    "witness_ok_with_clear", "stale_partial_lookup_witness",
    # memo tables
    "memo_transparent", "name_compute_reads_only", "name_key_determines", "name_cache_transparent",
    "generated_name_cache_key_ok", "name_cache_key_needs_quoted", "name_cache_key_needs_is_table",
    "table_compute_reads_only", "table_cache_transparent", "generated_table_cache_key_ok",
    "table_store_key_determines",
    "type_parse_reads_only", "type_cache_transparent", "type_cache_stale_witness", "generated_type_cache_key_known",
    # nested dict / nested trie / lazily cached depth refine the flat view
    "nested_get_refines", "nested_set_refines", "nested_set_keeps_uniform", "flatten_schema_refines", "dict_depth_uniform",
    "new_trie_refines", "in_trie_refines", "find_in_trie_set_congr", "step_equiv_congr", "depth_cache_correct",
    "supported_args_cache_correct", "match_depth_error", "stale_depth_witness", "core_step_refines",
    # the full model (what the driver runs) refines the specification, for every history
    "type_key_ok_of_covers", "type_key_ok_of_dialect_insensitive", "generated_keys_ok", "full_step_refines",
    "full_run_refines", "full_schema_refines_fresh", "constructor_state_ok", "full_refines_fresh_from_mapping",
    "full_refines_fresh_from_empty",
    # constructor path
    "constructor_eq_incremental", "constructor_answers_eq_incremental", "constructor_merge_witness", "nested_set_col_refines",
    "stepN_inv", "answerN_eq_of_same_mapping",
    # find-cache key, per-call overrides in every key, expression-keyed caches and cached hashes
    "generated_find_cache_key_ok", "find_cache_raise_irrelevant", "generated_option_overrides_in_every_key",
    "expression_keys_are_content_keys", "rename_via_api_fresh", "find_via_api_transparent", "stale_hash_witness",
    "generated_rename_invalidates_hash",
    # the real constructor loop refines ctorFlat; helper laws
    "find_three_outcomes", "find_raise_dependence", "store_misses_hides_ambiguity_witness", "generated_find_cache_policy_ok",
    "generated_normalisation_inputs_in_every_key", "generated_role_is_read_and_keyed", "role_less_key_history_witness",
    "generated_schema_readers_are_model_operations", "match_depth_false_partial", "match_depth_false_nonuniform_witness",
    "copy_frame", "copy_independent", "copy_is_constructor", "empty_refines",
    "constructor_refines_flat", "full_refines_fresh_from_raw_constructor", "raw_constructor_answers_eq_incremental",
    "nested_get_set_same", "nested_get_set_other", "dict_depth_nested_set", "flatten_after_set_mem",
]]


# ------------------------------------------------------------------------------------------ translate
class Shape(Exception):
    pass


def _fn(cls, name):
    for n in cls.body:
        if isinstance(n, ast.FunctionDef) and n.name == name:
            return n
    raise Shape(f"MappingSchema.{name} not found")


def _is_self_attr(node, attr):
    return isinstance(node, ast.Attribute) and node.attr == attr and isinstance(node.value, ast.Name) and node.value.id == "self"


def _names(node):
    return {n.id for n in ast.walk(node) if isinstance(n, ast.Name)}


def _assignments(fn):
    out = {}
    for node in ast.walk(fn):
        if isinstance(node, ast.Assign) and len(node.targets) == 1 and isinstance(node.targets[0], ast.Name):
            out.setdefault(node.targets[0].id, []).append(node.value)
        if isinstance(node, ast.NamedExpr) and isinstance(node.target, ast.Name):
            out.setdefault(node.target.id, []).append(node.value)
    return out


def _key_elems(expr, assigns):
    """the component expressions of a cache key: a tuple literal, a name bound to one, or a single expression"""
    if isinstance(expr, ast.Name) and expr.id in assigns and len(assigns[expr.id]) == 1 and isinstance(assigns[expr.id][0], ast.Tuple):
        expr = assigns[expr.id][0]
    if isinstance(expr, ast.Tuple):
        return list(expr.elts)
    return [expr]


def _cache_uses(fn, attr):
    """(lookup key expressions, store key expressions) of self.<attr> inside fn"""
    gets, sets = [], []
    for node in ast.walk(fn):
        if isinstance(node, ast.Call) and isinstance(node.func, ast.Attribute) and node.func.attr == "get" and _is_self_attr(node.func.value, attr):
            gets.append(node.args[0])
        if isinstance(node, ast.Subscript) and _is_self_attr(node.value, attr):
            (sets if isinstance(node.ctx, ast.Store) else gets).append(node.slice)
        if isinstance(node, ast.Compare) and len(node.ops) == 1 and isinstance(node.ops[0], (ast.In, ast.NotIn)) and _is_self_attr(node.comparators[0], attr):
            gets.append(node.left)
    return gets, sets


def name_cache_layout(cls):
    fn = _fn(cls, "_normalize_name")
    assigns = _assignments(fn)
    params = {a.arg for a in fn.args.args}
    if not {"name", "dialect", "is_table", "normalize"} <= params:
        raise Shape(f"_normalize_name parameters changed: {sorted(params)}")
    gets, sets = _cache_uses(fn, "_normalized_name_cache")
    if len(gets) != 1 or len(sets) != 1:
        raise Shape("_normalize_name: expected one cache lookup and one cache store")

    def field(e):
        if isinstance(e, ast.Name) and e.id in ("dialect", "is_table", "normalize"):
            return {"dialect": "dialect", "is_table": "isTable", "normalize": "normalize"}[e.id]
        src = assigns.get(e.id, []) if isinstance(e, ast.Name) else [e]
        if len(src) != 1:
            raise Shape(f"_normalize_name: cannot resolve key component {ast.dump(e)}")
        rhs = src[0]
        if "name" not in _names(rhs):
            raise Shape(f"_normalize_name: key component {ast.unparse(e)} does not come from `name`")
        if any(isinstance(n, ast.Attribute) and n.attr == "quoted" for n in ast.walk(rhs)):
            return "quoted"
        return "name"

    lay_get = [field(e) for e in _key_elems(gets[0], assigns)]
    lay_set = [field(e) for e in _key_elems(sets[0], assigns)]
    if lay_get != lay_set:
        raise Shape("_normalize_name: lookup key and store key differ")
    # what the memoised computation reads: the arguments of the `normalize_name(...)` call
    calls = [n for n in ast.walk(fn) if isinstance(n, ast.Call) and isinstance(n.func, ast.Name) and n.func.id == "normalize_name"]
    if len(calls) != 1:
        raise Shape("_normalize_name: expected exactly one normalize_name(...) call")
    reads = []
    used = set()
    for a in calls[0].args:
        used |= _names(a)
    for kw in calls[0].keywords:
        used |= _names(kw.value)
    if "name" in used:
        reads += ["name", "quoted"]  # the whole str / Identifier: an Identifier carries its quoting
    for p, f in (("dialect", "dialect"), ("is_table", "isTable"), ("normalize", "normalize")):
        if p in used:
            reads.append(f)
    return lay_get, reads


def table_cache_layout(cls):
    fn = _fn(cls, "_normalize_table")
    assigns = _assignments(fn)
    gets, sets = _cache_uses(fn, "_normalized_table_cache")
    if len(gets) != 1 or len(sets) != 1:
        raise Shape("_normalize_table: expected one cache lookup and one cache store")

    def field(e, first):
        if isinstance(e, ast.Name) and e.id in ("dialect", "normalize"):
            return e.id
        if isinstance(e, ast.Name) and e.id == first:
            return "table"
        raise Shape(f"_normalize_table: unknown key component {ast.unparse(e)}")

    lay_get = [field(e, "table") for e in _key_elems(gets[0], assigns)]
    lay_set = [field(e, "normalized_table") for e in _key_elems(sets[0], assigns)]
    if lay_get != lay_set:
        raise Shape("_normalize_table: lookup key and store key differ")
    # the stored value must be the normalised table itself
    stores = [n for n in ast.walk(fn) if isinstance(n, ast.Assign) and any(isinstance(t, ast.Subscript) and _is_self_attr(t.value, "_normalized_table_cache") for t in n.targets)]
    if not (len(stores) == 1 and isinstance(stores[0].value, ast.Name) and stores[0].value.id == "normalized_table"):
        raise Shape("_normalize_table: the cached value is not `normalized_table`")
    used = set()
    for n in ast.walk(fn):
        if isinstance(n, ast.Call) and isinstance(n.func, (ast.Name, ast.Attribute)):
            fname = n.func.id if isinstance(n.func, ast.Name) else n.func.attr
            if fname in ("normalize_name", "maybe_parse"):
                for a in n.args:
                    used |= _names(a)
                for kw in n.keywords:
                    used |= _names(kw.value)
    reads = [f for f in ("table", "dialect", "normalize") if f in used]
    return lay_get, reads


def type_cache_layout(cls):
    fn = _fn(cls, "_to_data_type")
    assigns = _assignments(fn)
    gets, sets = _cache_uses(fn, "_type_mapping_cache")
    if not gets or len(sets) != 1:
        raise Shape("_to_data_type: expected cache lookups and one cache store")

    def field(e):
        if isinstance(e, ast.Name) and e.id == "schema_type":
            return "tyStr"
        if isinstance(e, ast.Name) and e.id == "dialect":
            return "dialect"
        raise Shape(f"_to_data_type: unknown key component {ast.unparse(e)}")

    lays = [[field(e) for e in _key_elems(k, assigns)] for k in gets + sets]
    if any(l != lays[0] for l in lays):
        raise Shape("_to_data_type: the cache is addressed with different keys")
    calls = [n for n in ast.walk(fn) if isinstance(n, ast.Call) and isinstance(n.func, ast.Attribute) and n.func.attr == "from_str"]
    if len(calls) != 1:
        raise Shape("_to_data_type: expected one DataType.from_str(...) call")
    used = set()
    for a in calls[0].args:
        used |= _names(a)
    for kw in calls[0].keywords:
        used |= _names(kw.value)
    reads = [f for p, f in (("schema_type", "tyStr"), ("dialect", "dialect")) if p in used]
    return lays[0], reads


def find_cache_layout(cls):
    fn = _fn(cls, "find")
    assigns = _assignments(fn)
    gets, sets = _cache_uses(fn, "_find_cache")
    if len(gets) != 1 or len(sets) != 1:
        raise Shape("find: expected one cache lookup and one cache store")
    names = {"table": "table", "raise_on_missing": "raise", "ensure_data_types": "ensure"}

    def field(e):
        if isinstance(e, ast.Name) and e.id in names:
            return names[e.id]
        raise Shape(f"find: unknown key component {ast.unparse(e)}")

    lay_get = [field(e) for e in _key_elems(gets[0], assigns)]
    lay_set = [field(e) for e in _key_elems(sets[0], assigns)]
    if lay_get != lay_set:
        raise Shape("find: lookup key and store key differ")
    used = set()
    for node in ast.walk(fn):
        if isinstance(node, ast.Name) and isinstance(node.ctx, ast.Load) and node.id in names:
            used.add(node.id)
    reads = [f for p, f in names.items() if p in used]
    return lay_get, reads


def find_serves_cached_none(cls):
    """is a cached `None` served (policy "store misses") or recomputed (`if schema is None:` — "store hits only")?"""
    fn = _fn(cls, "find")
    for node in ast.walk(fn):
        if isinstance(node, ast.If) and any(isinstance(c, ast.Call) and isinstance(c.func, ast.Attribute) and c.func.attr == "find"
                                             for c in ast.walk(node)):
            t = node.test
            if isinstance(t, ast.Compare) and len(t.ops) == 1 and isinstance(t.ops[0], ast.Is) and isinstance(t.comparators[0], ast.Constant) \
                    and t.comparators[0].value is None and isinstance(t.left, ast.Name):
                return False
            if isinstance(t, ast.Compare) and len(t.ops) == 1 and isinstance(t.ops[0], ast.NotIn):
                return True
            raise Shape(f"find: unrecognised guard around the uncached lookup: {ast.unparse(t)}")
    raise Shape("find: the uncached lookup is not guarded by a cache test")


SCHEMA_READERS = ["sqlglot/optimizer/*.py", "sqlglot/lineage.py", "sqlglot/planner.py", "sqlglot/executor/__init__.py", "sqlglot/executor/python.py"]
METHOD_CTORS = {"column_names": "columnNames", "get_column_type": "getColumnType", "has_column": "hasColumn", "find": "find",
                "add_table": "addTable", "empty": "empty", "dialect": "dialect", "supported_table_args": "supportedTableArgs",
                "copy": "copy", "get_udf_type": "getUdfType"}


def schema_call_sites(tree):
    """which members of the Schema API every reader module touches (on a name / attribute called `schema`)"""
    import glob

    members = set()
    for cls in [n for n in tree.body if isinstance(n, ast.ClassDef) and n.name in ("Schema", "AbstractMappingSchema", "MappingSchema")]:
        for n in ast.walk(cls):
            if isinstance(n, ast.FunctionDef):
                members.add(n.name)
            if isinstance(n, ast.Attribute) and isinstance(n.ctx, ast.Store) and isinstance(n.value, ast.Name) and n.value.id == "self":
                members.add(n.attr)
    if not {"column_names", "get_column_type", "find", "mapping"} <= members:
        raise Shape("Schema API members not found")
    out = []
    files = []
    for pat in SCHEMA_READERS:
        files += glob.glob(os.path.join(REPO, pat))
    for f in sorted(set(files)):
        used = set()
        for n in ast.walk(ast.parse(open(f, encoding="utf-8").read())):
            if isinstance(n, ast.Attribute) and n.attr in members:
                v = n.value
                if (isinstance(v, ast.Name) and v.id in ("schema", "_schema")) or (isinstance(v, ast.Attribute) and v.attr in ("schema", "_schema")):
                    used.add(n.attr)
        if used:
            out.append((os.path.relpath(f, REPO), sorted(used)))
    if not out:
        raise Shape("no reader of the Schema API found")
    return out


def role_reaches_normalize_identifier(tree):
    """does the module function `normalize_name` hand its `is_table` parameter to `Dialect.normalize_identifier`
    (via `identifier.meta["is_table"] = is_table`)?"""
    fns = [n for n in tree.body if isinstance(n, ast.FunctionDef) and n.name == "normalize_name"]
    if len(fns) != 1:
        raise Shape("normalize_name not found")
    fn = fns[0]
    if "is_table" not in {a.arg for a in fn.args.args}:
        return False
    writes = calls = False
    for node in ast.walk(fn):
        if isinstance(node, ast.Assign) and isinstance(node.value, ast.Name) and node.value.id == "is_table":
            for t in node.targets:
                if isinstance(t, ast.Subscript) and isinstance(t.value, ast.Attribute) and t.value.attr == "meta" \
                        and isinstance(t.slice, ast.Constant) and t.slice.value == "is_table":
                    writes = True
        if isinstance(node, ast.Call) and isinstance(node.func, ast.Attribute) and node.func.attr == "normalize_identifier":
            calls = True
    if not calls:
        raise Shape("normalize_name no longer calls Dialect.normalize_identifier")
    return writes


def table_rename_keeps_hash(tree, cls):
    """does `_normalize_table` (or the helpers it renames parts with) write `node.args[...] = …` directly, i.e.
    outside the hash-invalidating set / replace API?"""
    fns = [_fn(cls, "_normalize_table"), _fn(cls, "_normalize_name")]
    fns += [n for n in tree.body if isinstance(n, ast.FunctionDef) and n.name == "normalize_name"]
    direct = api = 0
    for fn in fns:
        for node in ast.walk(fn):
            tgts = []
            if isinstance(node, ast.Assign):
                tgts = node.targets
            elif isinstance(node, (ast.AugAssign, ast.AnnAssign)):
                tgts = [node.target]
            for t in tgts:
                for sub in ast.walk(t):
                    if isinstance(sub, ast.Attribute) and sub.attr in ("args", "_hash", "this"):
                        direct += 1
            if isinstance(node, ast.Call) and isinstance(node.func, ast.Attribute):
                if node.func.attr in ("replace", "set"):
                    api += 1
                if node.func.attr in ("update", "__setitem__", "pop", "setdefault") and isinstance(node.func.value, ast.Attribute) and node.func.value.attr == "args":
                    direct += 1
    if not direct and not api:
        raise Shape("_normalize_table: cannot see how the table parts are renamed")
    return bool(direct)


def eviction_policy(cls):
    fn = _fn(cls, "add_table")
    clears = pops = 0
    for node in ast.walk(fn):
        if isinstance(node, ast.Call) and isinstance(node.func, ast.Attribute):
            tgt = node.func.value
            if isinstance(tgt, ast.Attribute) and tgt.attr == "_find_cache":
                if node.func.attr == "clear":
                    clears += 1
                elif node.func.attr == "pop":
                    pops += 1
        if isinstance(node, ast.Assign):
            for tg in node.targets:
                if isinstance(tg, ast.Attribute) and tg.attr == "_find_cache":
                    if isinstance(node.value, ast.Dict) and not node.value.keys:
                        clears += 1
    # the eviction must not sit under an `if` (a conditional clear is a different policy)
    uncond_clear = False
    for stmt in fn.body:
        if isinstance(stmt, ast.Expr) and isinstance(stmt.value, ast.Call):
            f = stmt.value.func
            if isinstance(f, ast.Attribute) and f.attr == "clear" and isinstance(f.value, ast.Attribute) and f.value.attr == "_find_cache":
                uncond_clear = True
        if isinstance(stmt, ast.Assign) and any(isinstance(tg, ast.Attribute) and tg.attr == "_find_cache" for tg in stmt.targets):
            uncond_clear = True
    if uncond_clear:
        return "all"
    if not clears:
        return "exactKeys"  # pops only / no eviction at all: the model's weakest policy stands in
    raise Shape(f"add_table: unrecognised eviction shape (clear={clears}, pop={pops})")


DEFAULT_LAYOUT = {
    "policy": "exactKeys",
    "name": (["name", "quoted", "dialect", "isTable", "normalize"], ["name", "quoted", "dialect", "isTable", "normalize"]),
    "table": (["table", "dialect", "normalize"], ["table", "dialect", "normalize"]),
    "type": (["tyStr"], ["tyStr", "dialect"]),
    "find": (["table", "ensure"], ["table", "raise", "ensure"]),
    "rename_keeps_hash": True,
    "serves_none": True,
    "role_reaches": True,
    "call_sites": [("?", ["?"])],
}


def translate(chk: Check) -> str:
    src = open(os.path.join(REPO, "sqlglot", "schema.py"), encoding="utf-8").read()
    tree = ast.parse(src)
    cls = next((n for n in tree.body if isinstance(n, ast.ClassDef) and n.name == "MappingSchema"), None)
    lay = dict(DEFAULT_LAYOUT)
    if cls is None:
        chk.broken.append({"kind": "translator", "what": "C18 translator: structure changed: class MappingSchema not found"})
    else:
        for key, fn in (("policy", eviction_policy), ("name", name_cache_layout), ("table", table_cache_layout), ("type", type_cache_layout),
                        ("find", find_cache_layout), ("rename_keeps_hash", lambda c: table_rename_keeps_hash(tree, c)),
                        ("serves_none", find_serves_cached_none), ("call_sites", lambda c: schema_call_sites(tree)),
                        ("role_reaches", lambda c: role_reaches_normalize_identifier(tree))):
            try:
                lay[key] = fn(cls)
            except Shape as e:
                chk.broken.append({"kind": "translator", "what": f"C18 translator: structure changed: {e}"})
            except Exception as e:  # noqa
                chk.broken.append({"kind": "translator", "what": f"C18 translator: structure changed: {type(e).__name__}: {e}"})
    chk.cov["eviction_policy"] = lay["policy"]
    chk.cov["cache_key_layouts"] = {k: {"key": lay[k][0], "reads": lay[k][1]} for k in ("name", "table", "type", "find")}
    chk.cov["table_rename_keeps_hash"] = lay["rename_keeps_hash"]
    chk.cov["find_serves_cached_none"] = lay["serves_none"]
    chk.cov["schema_call_sites"] = {m: ms for m, ms in lay["call_sites"]}

    def meth(m):
        return "." + METHOD_CTORS[m] if m in METHOD_CTORS else f".other {json.dumps(m)}"

    sites = ", ".join(f"({json.dumps(m)}, [{', '.join(meth(x) for x in ms)}])" for m, ms in lay["call_sites"])

    def ll(xs):
        return "[" + ", ".join("." + x for x in xs) + "]"

    return (
        "-- GENERATED by vf/props/c18.py from sqlglot/schema.py (add_table, _normalize_name, _normalize_table, _to_data_type). Do not edit.\n"
        "import SqlglotModel.Model.SchemaMemo\n"
        "namespace SqlglotModel.Generated.C18\n"
        "open SqlglotModel.Schema\n"
        f"def evictionPolicy : Evict := .{lay['policy']}\n"
        f"def nameCacheKey : List NField := {ll(lay['name'][0])}\n"
        f"def nameCacheReads : List NField := {ll(lay['name'][1])}\n"
        f"def tableCacheKey : List TField := {ll(lay['table'][0])}\n"
        f"def tableCacheReads : List TField := {ll(lay['table'][1])}\n"
        f"def typeCacheKey : List YField := {ll(lay['type'][0])}\n"
        f"def typeCacheReads : List YField := {ll(lay['type'][1])}\n"
        f"def findCacheKey : List FField := {ll(lay['find'][0])}\n"
        f"def findCacheReads : List FField := {ll(lay['find'][1])}\n"
        f"def tableRenameKeepsHash : Bool := {'true' if lay['rename_keeps_hash'] else 'false'}\n"
        f"def findServesCachedNone : Bool := {'true' if lay['serves_none'] else 'false'}\n"
        f"def roleReachesNormalizeIdentifier : Bool := {'true' if lay['role_reaches'] else 'false'}\n"
        f"def schemaCallSites : List (String × List SchemaMethod) := [{sites}]\n"
        "end SqlglotModel.Generated.C18\n"
    )


# ------------------------------------------------------------------------------------------ the real side
def sg():
    import sqlglot
    from sqlglot import exp
    from sqlglot.schema import MappingSchema
    from sqlglot.errors import SchemaError
    from sqlglot.dialects.dialect import Dialect

    return sqlglot, exp, MappingSchema, SchemaError, Dialect


SETTINGS_DIALECT = "mysql, normalization_strategy = case_insensitive_uppercase"
_DIA_CACHE: dict = {}


def dia_of(dialect) -> dict:
    """what the model needs to know of a dialect, or None when its normalize_identifier is neither the base
    implementation nor BigQuery's override"""
    if dialect in _DIA_CACHE:
        return _DIA_CACHE[dialect]
    _, _, _, _, Dialect = sg()
    from sqlglot.dialects.bigquery import BigQuery

    inst = Dialect.get_or_raise(dialect)
    fn = type(inst).normalize_identifier
    if fn is Dialect.normalize_identifier:
        r = {"st": inst.normalization_strategy.value, "ts": False}
    elif fn is BigQuery.normalize_identifier:
        r = {"st": inst.normalization_strategy.value, "ts": True}
    else:
        r = None
    _DIA_CACHE[dialect] = r
    return r


def strategy_of(dialect) -> str:
    _, _, _, _, Dialect = sg()
    return Dialect.get_or_raise(dialect).normalization_strategy.value


def all_dialects() -> list:
    from sqlglot.dialects.dialect import Dialects

    return [d.value or None for d in Dialects] + [SETTINGS_DIALECT]


def model_dialects() -> list:
    return [d for d in all_dialects() if dia_of(d) is not None]


def canon_type(dt) -> str:
    r = re.sub(r"\s+", "", repr(dt))
    return "UNKNOWN" if r == "DataType(this=DType.UNKNOWN)" else r


def uncached_type(ty: str, dialect) -> str:
    """the memoised function of `_to_data_type`, called directly"""
    _, exp, _, _, Dialect = sg()
    D = Dialect.get_or_raise(dialect)
    e = exp.DataType.from_str(ty, dialect=D, udt=D.SUPPORTS_USER_DEFINED_TYPES)
    e.transform(D.normalize_identifier, copy=False)
    return canon_type(e)


def ident_sql(name, quoted, dialect):
    _, exp, *_ = sg()
    return exp.to_identifier(name, quoted=quoted).sql(dialect=dialect)


def cols_text(cols, render) -> str:
    """the `"a: INT, b: TEXT"` form of a column mapping, with irregular blanks"""
    seps = [": ", ":", " : ", ":  "]
    return " , ".join(render(c[0], c[1]) + seps[(len(c[0]) + i) % 4] + ty for i, (c, ty) in enumerate(cols)).replace(" , ", ", ", 1)


def show_names(l):
    return "[" + ", ".join(l) + "]"


def show_cols(d):
    _, exp, *_ = sg()
    items = []
    for k, v in d.items():
        items.append(f"{k}:{canon_type(v) if isinstance(v, exp.Expr) else v}")
    return "[" + ", ".join(items) + "]"


def classify_exc(e) -> str:
    _, _, _, SchemaError, _ = sg()
    msg = str(e)
    if isinstance(e, SchemaError) and "Ambiguous mapping" in msg:
        return "err ambiguous"
    if isinstance(e, SchemaError) and "nesting level" in msg:
        return "err depth"
    if isinstance(e, SchemaError) and "at least one column" in msg:
        return "err nocols"
    if isinstance(e, ValueError) and not isinstance(e, SchemaError) and msg.startswith("Unknown "):
        return "err unknown"
    return f"err internal:{type(e).__name__}"


def nested(flat, leaf=dict):
    m: dict = {}
    for path, cols in flat:
        d = m
        for p in path[:-1]:
            d = d.setdefault(p, {})
        d[path[-1]] = leaf(cols)
    return m


class Real:
    """Executes protocol ops on a real MappingSchema."""

    def __init__(self, init, dialect, normalize, raw=False, visible=None):
        _, _, MappingSchema, *_ = sg()
        self.dialect = dialect
        self.normalize = normalize
        self.visible = visible
        self.pool: dict = {}
        self.ctor_error = None
        self.world: list = []
        self.cur = 0
        self.deep_copy = False  # diagnostic: copy() over a deep copy of the mapping
        self.md_only_matching = False  # match_depth=False only where the table has the schema's depth (else the default)
        vis = None if visible is None else nested(visible, leaf=lambda cols: set(cols))
        if raw:
            # raw (un-normalized) initial mapping through the public constructor; keys rendered in the dialect
            flat = [([ident_sql(p, q, dialect) for p, q in path], [(ident_sql(c[0], c[1], dialect), ty) for c, ty in cols])
                    for path, cols in init]
            try:
                self.s = MappingSchema(nested(flat), visible=vis, dialect=dialect, normalize=normalize)
            except Exception as e:  # noqa
                self.ctor_error = classify_exc(e)
                self.s = MappingSchema({}, visible=vis, dialect=dialect, normalize=normalize)
        else:
            # the initial mapping is given already normalized: construct without renormalising
            self.s = MappingSchema(nested(init), visible=vis, dialect=dialect, normalize=False)
            self.s.normalize = normalize

    @property
    def s(self):
        return self.world[self.cur]

    @s.setter
    def s(self, v):
        if self.world:
            self.world[self.cur] = v
        else:
            self.world.append(v)

    def fresh(self):
        """MappingSchema(final mapping): same configuration, nothing cached"""
        _, _, MappingSchema, *_ = sg()
        f = MappingSchema(copy.deepcopy(self.s.mapping), visible=copy.deepcopy(self.s.visible), dialect=self.dialect, normalize=False)
        f.normalize = self.normalize
        return f

    def table_obj(self, idents, reuse):
        _, exp, *_ = sg()
        key = tuple((n, q) for n, q in idents)
        if reuse and key in self.pool:
            return self.pool[key]
        parts = [exp.to_identifier(n, quoted=q) for n, q in idents]
        parts = [None] * (3 - len(parts)) + parts
        t = exp.Table(this=parts[2], db=parts[1], catalog=parts[0])
        self.pool[key] = t
        return t

    def visible_now(self, op):
        """right after a successful add_table: the table is found, and shows the columns just given"""
        d = op.get("dialect_arg", None)
        n = op.get("norm_arg", None)
        dd = d if d is not None else self.dialect
        try:
            table = self.table_obj(op["table"], False)
            nt = self.s._normalize_table(table, dialect=d, normalize=n)
            got = self.s.find(nt, raise_on_missing=False)
            if got is None:
                return f"add_table({[x for x, _ in op['table']]}) returned, but find() does not see the table"
            for c, _ in op["cols"]:
                if not self.s.has_column(table, ident_sql(c[0], c[1], dd), dialect=d, normalize=n):
                    return f"add_table({[x for x, _ in op['table']]}, …{c[0]}…) returned, but has_column({c[0]}) is False"
        except Exception as e:  # noqa
            return f"lookup right after add_table leaked {classify_exc(e)}"
        return None

    def apply(self, op, schema=None):
        _, exp, *_ = sg()
        s = schema or self.s
        kind = op["op"]
        try:
            if kind == "copy":
                _, _, MappingSchema, *_ = sg()
                from sqlglot.schema import ensure_schema

                if ensure_schema(s) is not s:
                    return "err internal:ensure_schema rebuilt an existing Schema"
                if self.deep_copy:
                    c = MappingSchema(copy.deepcopy(s.mapping), visible=copy.deepcopy(s.visible), dialect=s.dialect, normalize=s.normalize)
                elif op.get("how") == "from":
                    c = MappingSchema.from_mapping_schema(s)
                else:
                    c = s.copy()
                self.world.append(c)
                return "ok"
            if kind == "use":
                self.cur = op["i"] % len(self.world)
                return "ok"
            if kind == "empty":
                return "bool " + ("true" if s.empty else "false")
            if kind == "find":
                r = s.find(self.table_obj(op["table"], op.get("reuse", False)), raise_on_missing=op["raise"], ensure_data_types=op["ensure"])
                return "none" if r is None else "found " + show_cols(r)
            d = op.get("dialect_arg", None)
            n = op.get("norm_arg", None)
            dd = d if d is not None else self.dialect
            if op.get("as_str"):
                table = ".".join(ident_sql(nm, q, dd) for nm, q in op["table"])
            else:
                table = self.table_obj(op["table"], op.get("reuse", False))
            if kind == "add":
                form = op.get("cols_form", "dict")
                if form == "str":
                    cm = cols_text(op["cols"], lambda nm, q: ident_sql(nm, q, dd))
                elif form == "none":
                    cm = None
                else:
                    cm = {ident_sql(c[0], c[1], dd): ty for c, ty in op["cols"]}
                md = op.get("md", True)
                if not md and self.md_only_matching and not s.empty and len(op["table"]) != s.depth():
                    md = True
                s.add_table(table, cm, dialect=d, normalize=n, match_depth=md)
                return "ok"
            if kind == "opt":
                # an optimizer caller: qualify + annotate_types read the schema through column_names / get_column_type
                from sqlglot import parse_one
                from sqlglot.optimizer.qualify import qualify
                from sqlglot.optimizer.annotate_types import annotate_types

                tsql = ".".join(ident_sql(nm, q, self.dialect) for nm, q in op["table"])
                proj = ", ".join(ident_sql(c[0], c[1], self.dialect) for c in op["cols"]) or "*"
                e = parse_one(f"SELECT {proj} FROM {tsql}", dialect=self.dialect)
                e = qualify(e, schema=s, dialect=self.dialect, validate_qualify_columns=op.get("validate", True))
                e = annotate_types(e, schema=s, dialect=self.dialect)
                return "opt " + e.sql(dialect=self.dialect) + " :: " + ",".join(canon_type(x.type) if x.type else "-" for x in e.selects)
            if kind == "names":
                return "names " + show_names(list(s.column_names(table, only_visible=op.get("ov", False), dialect=d, normalize=n)))
            c = op["col"]
            col = ident_sql(c[0], c[1], dd) if op.get("col_str", True) else exp.column(exp.to_identifier(c[0], quoted=c[1]))
            if kind == "type":
                return "type " + canon_type(s.get_column_type(table, col, dialect=d, normalize=n))
            if kind == "has":
                return "bool " + ("true" if s.has_column(table, col, dialect=d, normalize=n) else "false")
            raise HarnessError(f"unknown op {kind}")
        except HarnessError:
            raise
        except Exception as e:  # noqa
            return classify_exc(e)


# ------------------------------------------------------------------------------------------ generators
CATS = ["c1", "C2"]
DBS = ["d1", "D2", "d1x"]
TABS = ["t", "T", "u"]
COLS = ["a", "b", "B", "Ab"]
TYPES = ["INT", "TEXT", "DOUBLE", "DATE", "FLOAT", "TIMESTAMP", "DATETIME"]
SHARED = ["t", "T", "u", "a", "B", "Ab", "d1", "D2", "Foo", "foo"]
SHARE_NAMES = [False]


def rand_ident(rng, pool, ascii_only=True):
    name = rng.choice(pool)
    if SHARE_NAMES[0] and rng.random() < 0.5:
        # the same spelling in table / db / column position (cache keys must tell them apart)
        name = rng.choice(SHARED)
    if not ascii_only and rng.random() < 0.25:
        name = rng.choice(["Ünï", "straße", "ǅx", "ÀB", "İi", "σΣς", "t", "T"])
    return [name, rng.random() < 0.3]


def rand_table(rng, depth, partial_ok, ascii_only=True):
    n = depth
    if partial_ok and rng.random() < 0.55:
        n = rng.randint(1, 3)
    parts = [rand_ident(rng, CATS, ascii_only), rand_ident(rng, DBS, ascii_only), rand_ident(rng, TABS, ascii_only)]
    return parts[3 - n:]


def rand_cols(rng, ascii_only=True):
    k = rng.choice([0, 1, 1, 2, 2, 3])
    return [[rand_ident(rng, COLS, ascii_only), rng.choice(TYPES)] for _ in range(k)]


def rand_op(rng, depth, dialects, ascii_only=True, p_add=0.33, p_dialect=0.25, visible=False, p_opt=0.0, p_copy=0.0):
    r = rng.random()
    op: dict = {}
    if p_copy and rng.random() < p_copy:
        r0 = rng.random()
        if r0 < 0.35:
            return {"op": "copy", "how": rng.choice(["copy", "from"]), "table": []}
        if r0 < 0.85:
            return {"op": "use", "i": rng.randrange(4), "table": []}
        return {"op": "empty", "table": []}
    if p_opt and rng.random() < p_opt:
        k = rng.choice([0, 1, 2])
        return {"op": "opt", "table": rand_table(rng, depth, True, ascii_only), "validate": rng.random() < 0.7,
                "cols": [rand_ident(rng, COLS, ascii_only) for _ in range(k)]}
    if r < p_add:
        op["op"] = "add"
        # mostly the right depth; sometimes wrong (must raise the depth error and change nothing)
        op["table"] = rand_table(rng, depth, partial_ok=rng.random() < 0.12, ascii_only=ascii_only)
        op["cols"] = rand_cols(rng, ascii_only)
        if rng.random() < 0.15:
            op["md"] = False  # match_depth=False
        # column_mapping forms: dict (default), the "a: INT, b: TEXT" string, None
        r2 = rng.random()
        if r2 < 0.2 and op["cols"]:
            op["cols_form"] = "str"
        elif r2 < 0.3:
            op["cols_form"] = "none"
            op["cols"] = []
    elif r < p_add + 0.22:
        op["op"] = "names"
        op["table"] = rand_table(rng, depth, True, ascii_only)
        op["ov"] = visible and rng.random() < 0.6
    elif r < p_add + 0.42:
        op["op"] = "type"
        op["table"] = rand_table(rng, depth, True, ascii_only)
        op["col"] = rand_ident(rng, COLS, ascii_only)
        op["col_str"] = rng.random() < 0.5
    elif r < p_add + 0.54:
        op["op"] = "has"
        op["table"] = rand_table(rng, depth, True, ascii_only)
        op["col"] = rand_ident(rng, COLS, ascii_only)
        op["col_str"] = rng.random() < 0.5
    else:
        op["op"] = "find"
        op["table"] = rand_table(rng, depth, True, ascii_only)
        op["raise"] = rng.random() < 0.5
        op["ensure"] = rng.random() < 0.4
        op["reuse"] = rng.random() < 0.5
        return op
    op["as_str"] = rng.random() < 0.5
    op["reuse"] = rng.random() < 0.5
    if rng.random() < p_dialect:
        op["dialect_arg"] = rng.choice([d for d in dialects if d])
    if rng.random() < 0.25:
        op["norm_arg"] = rng.random() < 0.5
    return op


def fold_fn(dialect):
    """how an already-normalised name looks under this dialect (used to build pre-normalised initial mappings)"""
    st = strategy_of(dialect)
    if st in ("UPPERCASE", "CASE_INSENSITIVE_UPPERCASE"):
        return str.upper
    if st == "CASE_SENSITIVE":
        return lambda s: s
    return str.lower


def rand_initial(rng, depth, strategy_fn):
    """an initial mapping whose keys are already normalized (unquoted names folded): [[path, [[col, ty]…]]…]"""
    flat = []
    seen = set()
    for _ in range(rng.choice([0, 1, 2, 3])):
        parts = [strategy_fn(x) for x in (rng.choice(CATS), rng.choice(DBS), rng.choice(TABS))][3 - depth:]
        if tuple(parts) in seen:
            continue
        seen.add(tuple(parts))
        cd: dict = {}
        for c in rng.sample(COLS, rng.choice([1, 2])):
            cd.setdefault(strategy_fn(c), rng.choice(TYPES))
        flat.append([parts, [[k, v] for k, v in cd.items()]])
    return flat


MIXED = ["Tbl", "Ds", "Foo", "Cat"]


def coinciding_initial(rng, depth):
    """raw mapping whose column names are spelled like its own mixed-case table / db / catalog keys (role-sensitive
    dialects fold the column but keep the table part: a role-less cache key replays the wrong one)"""
    flat, seen = [], set()
    for _ in range(rng.choice([1, 2])):
        parts = [[rng.choice(MIXED), False] for _ in range(depth)]
        key = tuple(p.lower() for p, _ in parts)
        if key in seen:
            continue
        seen.add(key)
        names = list(dict.fromkeys([p for p, _ in parts if rng.random() < 0.8] + [rng.choice(["x", "Ab"])]))
        cols, cseen = [], set()
        for c in names:
            if c.lower() not in cseen:
                cseen.add(c.lower())
                cols.append([[c, False], rng.choice(TYPES)])
        rng.shuffle(cols)
        flat.append([parts, cols])
    return flat


def raw_initial(rng, depth, quoted_ok=True):
    """a raw (un-normalized) initial mapping without case-fold collisions: [[[[name, quoted]…], [[[col, quoted], ty]…]]…]"""
    flat, seen = [], set()
    for _ in range(rng.choice([1, 1, 2, 3])):
        parts = [rand_ident(rng, CATS), rand_ident(rng, DBS), rand_ident(rng, TABS)][3 - depth:]
        if not quoted_ok:
            parts = [[p, False] for p, _ in parts]
        key = tuple(p.lower() for p, _ in parts)
        if key in seen:
            continue
        seen.add(key)
        cols, cseen = [], set()
        for _ in range(rng.choice([1, 2, 3])):
            c = rand_ident(rng, COLS)
            if not quoted_ok:
                c[1] = False
            if c[0].lower() in cseen:
                continue
            cseen.add(c[0].lower())
            cols.append([c, rng.choice(TYPES)])
        flat.append([parts, cols])
    return flat


def focused_history(rng, dialects, avoid_settings_clash=False):
    """lookups that HIT: existing tables / columns, two or three dialects recurring (cache keys recur)"""
    d = rng.choice(dialects)
    if avoid_settings_clash and d == SETTINGS_DIALECT:
        dialects = [x for x in dialects if x != "mysql"]
    depth = rng.choice([1, 2])
    f = fold_fn(d)
    init = rand_initial(rng, depth, f)
    while not init:
        init = rand_initial(rng, depth, f)
    few = [None] + [rng.choice([x for x in dialects if x]) for _ in range(2)]
    ops = []
    for _ in range(rng.randint(2, 10)):
        path, cols = rng.choice(init)
        table = [[p, rng.random() < 0.2] for p in path]
        if rng.random() < 0.3:
            table = table[-1:]
        r = rng.random()
        if r < 0.15:
            op = {"op": "add", "table": [[p, False] for p in path], "cols": [[[rng.choice(COLS), False], rng.choice(TYPES)] for _ in range(rng.choice([1, 2]))]}
        elif r < 0.3:
            ops.append({"op": "find", "table": table, "raise": False, "ensure": True, "reuse": rng.random() < 0.5})
            continue
        elif r < 0.4:
            op = {"op": "names", "table": table, "ov": False}
        else:
            c = rng.choice(cols)[0] if rng.random() < 0.85 else rng.choice(COLS)
            op = {"op": rng.choice(["type", "type", "has"]), "table": table, "col": [c, rng.random() < 0.2], "col_str": rng.random() < 0.5}
        op["as_str"] = rng.random() < 0.5
        op["reuse"] = rng.random() < 0.5
        da = rng.choice(few)
        if da:
            op["dialect_arg"] = da
        ops.append(op)
    return (d, True, init, ops, False, None)


def rand_visible(rng, init_paths_cols):
    """a visible mapping mirroring (part of) the initial mapping: [[path, [col…]]…]"""
    out = []
    for path, cols in init_paths_cols:
        if rng.random() < 0.75:
            out.append([path, [c for c in cols if rng.random() < 0.6]])
    return out


# ------------------------------------------------------------------------------------------ model protocol
def canon_text(name, quoted):
    return '"' + name + '"' if quoted else name


def dref(dialect_arg, default_dialect) -> dict:
    d = dialect_arg if dialect_arg is not None else default_dialect
    info = dia_of(d)
    # the key identity: `dialect or self.dialect` is the per-call string, or the schema's own Dialect instance
    name = ("arg:" + dialect_arg) if dialect_arg is not None else ("self:" + (default_dialect or ""))
    return {"name": name, "st": info["st"], "ts": info["ts"]}


def tree_json(flat, leaf_of):
    """nested insertion-ordered dicts as {"n": [[key, sub]…]} / {"l": [[col, ty]…]}"""
    root: list = []

    def child(kids, key):
        for k, sub in kids:
            if k == key:
                return sub
        sub = {"n": []}
        kids.append([key, sub])
        return sub

    for path, cols in flat:
        kids = root
        for p in path[:-1]:
            kids = child(kids, p)["n"]
        leaf = {"l": leaf_of(cols)}
        for i, (k, _) in enumerate(kids):
            if k == path[-1]:
                kids[i][1] = leaf
                break
        else:
            kids.append([path[-1], leaf])
    return {"n": root}


def init_line(h) -> str:
    d, norm, init, ops, raw, visible = h
    if raw:
        flat = [([canon_text(p, q) for p, q in path], [[canon_text(c[0], c[1]), ty] for c, ty in cols]) for path, cols in init]
    else:
        flat = [(path, cols) for path, cols in init]
    # a Python dict collapses duplicate keys (first position, last value) before sqlglot sees them
    fl2 = []
    for path, cols in flat:
        cd: dict = {}
        for c, ty in cols:
            cd[c] = ty
        fl2.append((path, [[c, ty] for c, ty in cd.items()]))
    vis = None if visible is None else tree_json([(p, [[c, ""] for c in dict.fromkeys(cs)]) for p, cs in visible], lambda x: x)
    return json.dumps({"op": "init", "raw": tree_json(fl2, lambda x: x), "normalize": bool(raw and norm),
                       "self": dref(None, d), "visible": vis})


def to_model_line(op, default_dialect, default_norm, cur=0):
    if op["op"] == "copy":
        return json.dumps({"op": "copy", "normalize": default_norm})
    if op["op"] == "use":
        return json.dumps({"op": "use", "i": cur})
    if op["op"] == "empty":
        return json.dumps({"op": "empty"})
    if op["op"] == "find":
        return json.dumps({"op": "find", "table": op["table"], "raise": op["raise"], "ensure": op["ensure"]})
    n = op.get("norm_arg")
    base = {"op": op["op"], "d": dref(op.get("dialect_arg"), default_dialect), "norm": default_norm if n is None else n,
            "table": op["table"], "as_str": bool(op.get("as_str"))}
    if op["op"] == "add":
        form = op.get("cols_form", "dict")
        if form == "str":
            base["cols_str"] = cols_text(op["cols"], canon_text)
        elif form == "none":
            base["cols"] = None
        else:
            dd: dict = {}
            for (nm, q), ty in op["cols"]:
                dd[canon_text(nm, q)] = ty
            base["cols"] = [[k, v] for k, v in dd.items()]
    elif op["op"] == "names":
        base["ov"] = bool(op.get("ov", False))
    else:
        c = op["col"]
        base["col"] = {"str": canon_text(c[0], c[1])} if op.get("col_str", True) else {"id": [c[0], c[1]]}
    return json.dumps(base)


def tytable_line(dialects) -> str:
    rows = []
    for d in dialects:
        for ty in TYPES:
            v = uncached_type(ty, d)
            if d:
                rows.append(["arg:" + d, ty, v])
            rows.append(["self:" + (d or ""), ty, v])
    return json.dumps({"op": "tytable", "rows": rows})


# ------------------------------------------------------------------------------------------ correspondence
def init_view(d, init, raw, norm=True):
    """(path, cols) of the initial mapping as names (for building a mirroring `visible`)"""
    if not raw:
        return [(list(p), [c for c, _ in cols]) for p, cols in init]
    f = fold_fn(d) if norm else (lambda x: x)
    return [([f(p) if not q else p for p, q in path], [f(c[0]) if not c[1] else c[0] for c, _ in cols]) for path, cols in init]


def histories(chk: Check, dialects):
    rng = chk.rng
    n_random = chk.pick(1500, 8000)
    max_len = chk.pick(14, 50)
    out = []
    # corpus first: the DESIGN §6 history and its update variant
    out.append((None, True, [[["db", "t"], [["a", "INT"]]]], [
        {"op": "names", "table": [["t", False]], "as_str": True},
        {"op": "add", "table": [["db2", False], ["t", False]], "cols": [[["b", False], "INT"]], "as_str": True},
        {"op": "names", "table": [["t", False]], "as_str": True},
        {"op": "add", "table": [["db", False], ["t", False]], "cols": [[["c", False], "TEXT"]], "as_str": False},
        {"op": "type", "table": [["t", False]], "col": ["c", False]},
        {"op": "find", "table": [["t", False]], "raise": False, "ensure": True},
    ], False, None))
    # the two name-cache key witnesses (Properties: name_cache_key_needs_quoted / _is_table) as real histories
    out.append(("postgres", True, [[[["Foo", False]], [[["Foo", True], "INT"], [["bar", False], "INT"]]]], [
        {"op": "has", "table": [["foo", False]], "col": ["Foo", True], "col_str": False, "as_str": True},
        {"op": "has", "table": [["foo", False]], "col": ["Foo", False], "col_str": False, "as_str": True},
        {"op": "type", "table": [["foo", False]], "col": ["Foo", False], "col_str": True, "as_str": True},
    ], True, None))
    out.append(("bigquery", True, [[[["Foo", False]], [[["Foo", False], "INT"]]]], [
        {"op": "has", "table": [["Foo", False]], "col": ["Foo", False], "col_str": True, "as_str": True},
        {"op": "names", "table": [["Foo", False]], "as_str": True},
        {"op": "names", "table": [["foo", False]], "as_str": False},
    ], True, None))
    out.append(WITNESS_ROLE)
    special = [d for d in dialects if d and dia_of(d)["ts"]] + [SETTINGS_DIALECT]
    for _ in range(n_random):
        r = rng.random()
        if r > 0.85:
            out.append(focused_history(rng, dialects, avoid_settings_clash=True))
            continue
        d = rng.choice(special) if r < 0.22 else rng.choice(dialects)
        norm = rng.random() < 0.8
        depth = rng.choice([1, 2, 2, 3])
        raw = rng.random() < 0.4
        SHARE_NAMES[0] = rng.random() < 0.4
        try:
            if raw:
                # without normalisation the raw keys are kept verbatim (quote characters included): unquoted only
                init = raw_initial(rng, depth, quoted_ok=norm)
                if norm and dia_of(d)["ts"] and rng.random() < 0.6:
                    init = coinciding_initial(rng, depth)
                if norm and init and rng.random() < 0.06:
                    # malformed raw mappings: a table without columns / tables at different depths (constructor errors)
                    if rng.random() < 0.5:
                        init[rng.randrange(len(init))][1] = []
                    elif depth > 1:
                        k = rng.randrange(len(init))
                        init[k][0] = init[k][0][1:]
                        if len({tuple(p.lower() for p, _ in path[:1]) for path, _ in init}) < len(init):
                            init = init[:1]
            else:
                init = rand_initial(rng, depth, fold_fn(d))
            visible = None
            if rng.random() < 0.25:
                visible = rand_visible(rng, init_view(d, init, raw, norm))
            # per-call dialect overrides: mostly a small set so that the same (name, dialect) key recurs
            few = [rng.choice(dialects) for _ in range(2)] + special
            if d == SETTINGS_DIALECT:
                # `Dialect.__eq__/__hash__` ignore a dialect's settings: the string "mysql" and this schema's own MySQL
                # instance are the SAME cache-key component (known finding C18-dialect-settings-identity; the model
                # assumes that a dialect's identity determines its settings) — left to the search oracle
                few = [x for x in few if x != "mysql"]
            ops = [rand_op(rng, depth, few, visible=visible is not None, p_copy=0.07) for _ in range(rng.randint(2, max_len))]
            # copy() / from_mapping_schema share (parts of) the nested dict unless the constructor re-normalises it
            # (known finding C18-copy-shares-mapping): in the model comparison only the independent cases
            ops = [o for o in ops if o["op"] != "copy" or norm or (depth == 1 and o.get("how") == "copy")]
        finally:
            SHARE_NAMES[0] = False
        out.append((d, norm, init, ops, raw, visible))
    return out


def exhaustive_histories(chk: Check):
    """all op sequences up to a length bound over a tiny universe (depth 2, base dialect)"""
    L = chk.pick(3, 4)
    t_full = [[["d1", False], ["t", False]], [["d2", False], ["t", False]]]
    alphabet = []
    for tb in t_full:
        alphabet.append({"op": "add", "table": tb, "cols": [[["a", False], "INT"]], "as_str": True})
        alphabet.append({"op": "add", "table": tb, "cols": [], "as_str": False})
    alphabet.append({"op": "add", "table": t_full[0], "cols": [[["b", False], "TEXT"]], "as_str": True})
    alphabet.append({"op": "names", "table": [["t", False]], "as_str": True})
    alphabet.append({"op": "names", "table": t_full[0], "as_str": False})
    alphabet.append({"op": "type", "table": [["T", False]], "col": ["b", False]})
    alphabet.append({"op": "find", "table": [["t", False]], "raise": False, "ensure": False})
    for n in range(1, L + 1):
        for seq in itertools.product(alphabet, repeat=n):
            yield (None, True, [], [dict(o) for o in seq], False, None)


def correspond(chk: Check) -> list:
    dialects = model_dialects()
    chk.cov["model_dialects"] = len(dialects)
    hs = list(exhaustive_histories(chk)) + histories(chk, dialects)
    lines, expect, where = [tytable_line(dialects)], ["ok"], [(-1, -1)]
    for hi, h in enumerate(hs):
        d, norm, init, ops, raw, visible = h
        real = Real(init, d, norm, raw=raw, visible=visible)
        real.md_only_matching = True  # Properties.C18.match_depth_false_partial: the specified part of match_depth=False
        lines.append(init_line(h))
        expect.append(real.ctor_error or "ok")
        if real.ctor_error:
            chk.count("constructor:" + real.ctor_error)
        where.append((hi, -1))
        chk.count("init:" + ("raw-constructor" if raw else "normalized") + ("+visible" if visible is not None else ""))
        for oi, op in enumerate(ops):
            r = real.apply(op)
            lines.append(to_model_line(op, d, norm, real.cur))
            expect.append(r)
            where.append((hi, oi))
            chk.count("op:" + op["op"] + ("@dialect" if op.get("dialect_arg") else ""))
            chk.count("ans:" + r.split(" ")[0] + (" " + r.split(" ")[1] if r.startswith("err") else ""))
        chk.count("dialect:" + ("bigquery-like" if dia_of(d)["ts"] else dia_of(d)["st"]))
        chk.case(h, nontrivial=any(o["op"] == "add" for o in ops) and any(o["op"] != "add" for o in ops),
                 sample={"dialect": d, "normalize": norm, "raw": raw, "initial": init, "visible": visible, "ops": ops[:6]} if hi % 997 == 0 else None)
    got = chk.driver("C18", lines)
    chk.corr_cases += len(hs)
    bad = []
    seen_h = set()
    for g, e, (hi, oi) in zip(got, expect, where):
        if g != e and hi not in seen_h:
            seen_h.add(hi)
            if hi < 0:
                raise HarnessError(f"model driver rejected the type table: {g}")
            d, norm, init, ops, raw, visible = hs[hi]
            chk.correspondence_broken("MappingSchema history", {"dialect": d, "normalize": norm, "raw": raw, "initial": init, "visible": visible,
                                                                 "ops": ops[: oi + 1], "model": g, "impl": e})
            bad.append(hs[hi])
    return bad


# ------------------------------------------------------------------------------------------ search (property oracle)
class settings_aware_dialect_equality:
    """diagnostic only: make Dialect equality / hashing take the normalization strategy into account (and never equate a
    Dialect instance with a dialect name), to recognise violations that come from `Dialect.__eq__` ignoring settings"""

    def __enter__(self):
        _, _, _, _, Dialect = sg()
        self.D = Dialect
        self.old = (Dialect.__eq__, Dialect.__hash__)
        Dialect.__eq__ = lambda a, b: isinstance(b, Dialect) and type(a) is type(b) and a.normalization_strategy == b.normalization_strategy
        Dialect.__hash__ = lambda a: hash((type(a).__name__, a.normalization_strategy))
        return self

    def __exit__(self, *exc):
        self.D.__eq__, self.D.__hash__ = self.old
        return False


def diagnose(h) -> str:
    if oracle_history(h, type_cache_off="per-dialect") is None:
        return "type-cache-dialect"  # gone as soon as entries made under another dialect are not reused
    if oracle_history(h, type_cache_off=True) is None:
        return "type-cache"
    if any(o.get("md") is False for o in h[3]) and oracle_history(h, md_only_matching=True) is None:
        return "match-depth-false-nonuniform"  # needs an add_table(match_depth=False) with another number of parts
    if any(o["op"] == "copy" for o in h[3]) and oracle_history(h, deep_copy=True) is None:
        return "copy-shares-mapping"  # gone when copy() / from_mapping_schema get their own nested dicts
    try:
        with settings_aware_dialect_equality():
            if oracle_history(h) is None:
                return "dialect-settings-equality"
    except Exception:  # noqa
        pass
    return "other"


def oracle_history(h, type_cache_off=False, deep_copy=False, md_only_matching=False):
    """Returns None if the property holds on this history, else (index, description)."""
    d, norm, init, ops, raw, visible = h
    real = Real(init, d, norm, raw=raw, visible=visible)
    adds_only = Real(init, d, norm, raw=raw, visible=visible)
    real.deep_copy = adds_only.deep_copy = deep_copy
    real.md_only_matching = adds_only.md_only_matching = md_only_matching
    if real.ctor_error and real.ctor_error.startswith("err internal"):
        return 0, f"constructor leaked {real.ctor_error}"
    incremental = None
    if raw and not real.ctor_error:
        # the same registrations made one by one through add_table on an empty schema
        incremental = Real([], d, norm, raw=True, visible=visible)
        incremental.deep_copy = deep_copy
        incremental.md_only_matching = md_only_matching
        for path, cols in init:
            r0 = incremental.apply({"op": "add", "table": path, "as_str": True, "cols": cols})
            if r0 != "ok":
                return 0, f"add_table({path}) on an empty schema: {r0}"
    schemas = [real, adds_only] + ([incremental] if incremental else [])
    last_dialect = "?"
    for i, op in enumerate(ops):
        if type_cache_off == "per-dialect":
            # diagnostic: simulate a type cache that is keyed on the dialect as well
            eff = op.get("dialect_arg") if op["op"] != "find" else None
            if eff != last_dialect:
                for x in schemas:
                    x.s._type_mapping_cache.clear()
            last_dialect = eff
            type_cache_off_now = False
        else:
            type_cache_off_now = bool(type_cache_off)
        if type_cache_off_now:
            for x in schemas:
                x.s._type_mapping_cache.clear()
        if op["op"] in ("add", "copy", "use"):
            r1 = real.apply(op)
            r2 = adds_only.apply(op)
            if incremental is not None:
                incremental.apply(op)
            if r1.startswith("err internal"):
                return i, f"add_table leaked {r1}"
            if r1 != r2:
                return i, f"add_table outcome depends on earlier lookups: {r1} vs {r2}"
            if r1 == "ok" and op["op"] == "add":
                # "a table becomes visible as soon as it is added"
                vis_now = real.visible_now(op)
                if vis_now:
                    return i, vis_now
            continue
        fresh = real.fresh()
        r = real.apply(op)
        rf = real.apply(op, schema=fresh)
        if type_cache_off_now:
            adds_only.s._type_mapping_cache.clear()
        ra = real.apply(op, schema=adds_only.s)
        if r.startswith("err internal") and op["op"] != "opt":
            return i, f"lookup leaked {r}"
        if r != rf:
            return i, f"{op['op']} answered {r!r}; a fresh schema over the same mapping answers {rf!r}"
        if r != ra:
            return i, f"{op['op']} answered {r!r}; a schema that saw only the add_table calls answers {ra!r}"
        if incremental is not None:
            if type_cache_off_now:
                incremental.s._type_mapping_cache.clear()
            ri = real.apply(op, schema=incremental.s)
            if r != ri:
                return i, (f"{op['op']} answered {r!r} on the schema built by the constructor; the schema that "
                           f"registered the same tables one by one with add_table answers {ri!r}")
    return None


def shrink(h):
    d, norm, init, ops, raw, visible = h

    def bad(init_, ops_, vis_=visible):
        return oracle_history((d, norm, init_, ops_, raw, vis_))

    ops = list(ops)
    res = bad(init, ops)
    assert res
    ops = ops[: res[0] + 1]
    changed = True
    while changed:
        changed = False
        for i in range(len(ops) - 1):
            cand = ops[:i] + ops[i + 1:]
            if bad(init, cand):
                ops = cand
                changed = True
                break
    # drop optional decorations
    for o in ops:
        for k in ("dialect_arg", "norm_arg", "reuse", "ov", "md"):
            if k in o and (o[k] not in (None, False) or k == "md"):
                v = o.pop(k)
                if not bad(init, ops):
                    o[k] = v
    if visible is not None and bad(init, ops, None):
        visible = None
    if init and bad([], ops):
        init = []
    while len(init) > 1:
        for i in range(len(init)):
            cand = init[:i] + init[i + 1:]
            if bad(cand, ops):
                init = cand
                break
        else:
            break
    return (d, norm, init, ops, raw, visible)


def skeleton(h):
    d, norm, init, ops, raw, visible = h

    def tk(t):
        return "/".join("q" if q else "id" for _, q in t)

    return (";".join(f"{o['op']}({tk(o['table'])})" + ("@d" if o.get("dialect_arg") else "") + ("!md" if o.get("md") is False else "") for o in ops)
            + f"|init={len(init)}" + ("|raw" if raw else "") + ("|visible" if visible is not None else ""))


WITNESS = (None, True, [[["db", "t"], [["a", "INT"]]]], [
    {"op": "names", "table": [["t", False]], "as_str": True},
    {"op": "add", "table": [["db2", False], ["t", False]], "cols": [[["b", False], "INT"]], "as_str": True},
    {"op": "names", "table": [["t", False]], "as_str": True},
], False, None)
WITNESS2 = (None, True, [[["db", "t"], [["a", "INT"]]]], [
    {"op": "names", "table": [["t", False]], "as_str": True},
    {"op": "add", "table": [["db", False], ["t", False]], "cols": [[["b", False], "INT"]], "as_str": True},
    {"op": "type", "table": [["t", False]], "col": ["b", False]},
], False, None)
# Properties: type_cache_stale_witness — FLOAT asked under BigQuery, then under Postgres
WITNESS_TYPE = (None, True, [[["t"], [["a", "FLOAT"]]]], [
    {"op": "type", "table": [["t", False]], "col": ["a", False], "as_str": True, "dialect_arg": "bigquery"},
    {"op": "type", "table": [["t", False]], "col": ["a", False], "as_str": True, "dialect_arg": "postgres"},
], False, None)
# Properties: name_cache_key_needs_is_table / _quoted
WITNESS_ISTABLE = ("bigquery", True, [[[["Foo", False]], [[["Foo", False], "INT"]]]], [
    {"op": "names", "table": [["Foo", False]], "as_str": True},
    {"op": "has", "table": [["Foo", False]], "col": ["Foo", False], "col_str": True, "as_str": True},
], True, None)
# seeded C10-7: a column spelled like its mixed-case table key under BigQuery (Properties: role_less_key_history_witness)
WITNESS_ROLE = ("bigquery", True, [[[["ds", False], ["Tbl", False]], [[["Tbl", False], "INT"], [["x", False], "INT"]]]], [
    {"op": "names", "table": [["ds", False], ["Tbl", False]], "as_str": True},
    {"op": "has", "table": [["ds", False], ["Tbl", False]], "col": ["tbl", False], "col_str": True, "as_str": True},
], True, None)
WITNESS_QUOTED = ("postgres", True, [[["t"], [["Foo", "INT"], ["foo", "TEXT"]]]], [
    {"op": "type", "table": [["t", False]], "col": ["Foo", True], "col_str": False, "as_str": True},
    {"op": "type", "table": [["t", False]], "col": ["Foo", False], "col_str": False, "as_str": True},
], False, None)


def search(chk: Check, hints: list, budget_s: float) -> None:
    import time

    t0 = time.time()
    rng = chk.rng
    dialects = all_dialects()
    cands = [WITNESS, WITNESS2, WITNESS_TYPE, WITNESS_ISTABLE, WITNESS_QUOTED, WITNESS_ROLE] + list(hints)
    tried = found = 0

    def consider(h):
        nonlocal tried, found
        tried += 1
        res = oracle_history(h)
        if res:
            found += 1
            h2 = shrink(h)
            what = oracle_history(h2)[1]
            # does the violation go away when `_type_mapping_cache` is emptied before every call / when Dialect equality
            # takes the dialect's settings into account?
            cause = diagnose(h2)
            d, norm, init, ops, raw, visible = h2
            chk.report_violation(skeleton(h2), what,
                                 {"dialect": d, "normalize": norm, "initial": init, "ops": ops, "raw": raw, "visible": visible},
                                 context={"cause": cause})

    for h in cands:
        consider(h)
    md = set(model_dialects())
    special = [d for d in dialects if d not in md or dia_of(d)["ts"]] + [SETTINGS_DIALECT]
    chk.cov["dialects_overriding_normalize_identifier"] = [d for d in dialects if d not in md or dia_of(d)["ts"]]
    while time.time() - t0 < budget_s:
        if rng.random() < 0.2:
            h = focused_history(rng, dialects)
            consider(h)
            chk.count("search:focused-hits")
            chk.case(("search",) + h, nontrivial=True)
            if len(chk.violations) >= 3:
                break
            continue
        d = rng.choice(special) if rng.random() < 0.3 else rng.choice(dialects)
        norm = rng.random() < 0.8
        depth = rng.choice([1, 2, 2, 3])
        ascii_only = rng.random() < 0.7 or d == "bigquery"
        SHARE_NAMES[0] = rng.random() < 0.5
        raw = rng.random() < 0.5
        try:
            if raw and norm and d == "bigquery" and rng.random() < 0.5:
                init = coinciding_initial(rng, depth)
            elif raw:
                init = raw_initial(rng, depth, quoted_ok=norm and rng.random() < 0.5)
            else:
                init = rand_initial(rng, depth, fold_fn(d))
            visible = rand_visible(rng, init_view(d, init, raw, norm)) if rng.random() < 0.2 else None
            # half of the histories use one dialect throughout (per-call overrides of the type parser are a known finding)
            p_dialect = 0.25 if rng.random() < 0.5 else 0.0
            ops = [rand_op(rng, depth, dialects if rng.random() < 0.5 else [d or "duckdb"], ascii_only=ascii_only, p_dialect=p_dialect,
                           visible=visible is not None, p_opt=0.08, p_copy=0.07) for _ in range(rng.randint(2, 30))]
        finally:
            SHARE_NAMES[0] = False
        consider((d, norm, init, ops, raw, visible))
        chk.count("search:" + ("raw-constructor" if raw else "normalized-init"))
        chk.case(("search", d, norm, init, ops, raw, visible), nontrivial=True)
        if len(chk.violations) >= 3:
            break
    chk.search_info = {"ran": True, "budget_s": budget_s, "histories": tried, "violating": found,
                       "oracle": "every answer equals a fresh MappingSchema over the current mapping, a schema that saw only the "
                                 "add_table calls, and (raw start) a schema that registered the same tables one by one"}


def validate_case_hypotheses(chk: Check) -> None:
    """CaseFns.Ok (lower/upper idempotent) against CPython, all code points (thorough) or a stride (quick)."""
    step = chk.pick(7, 1)
    bad = 0
    for cp in range(0, 0x110000, step):
        if 0xD800 <= cp <= 0xDFFF:
            continue
        c = chr(cp)
        if c.lower().lower() != c.lower() or c.upper().upper() != c.upper():
            bad += 1
    chk.cov["case_fn_hypotheses"] = {"code_points_checked": len(range(0, 0x110000, step)), "violations": bad}
    if bad:
        raise HarnessError("str.lower/upper idempotence hypothesis fails on this CPython")


def run(chk: Check) -> None:
    chk.trusted.append("C18: hand-written models of sqlglot/schema.py + trie.py: Model/SchemaFull.lean (nested dict, nested trie, the five "
                       "caches, visible, constructor) executed against the real code on every run; Model/Schema.lean is the flat "
                       "specification it is proved to refine; cache key layouts and the eviction policy are re-extracted from the source")
    chk.assumptions += [
        "identifier normalisation is modelled for Dialect.normalize_identifier and BigQuery's override over ASCII names (non-ASCII names and "
        "any other overriding dialect are covered by the search oracle only); str.lower/upper idempotence is validated against CPython",
        "exp.parse_identifier / the table-name parser and DataType.from_str are uninterpreted: the harness renders names in the dialect's "
        "quoting for the real code and canonically for the model, and ships the graph of from_str on the type universe",
        "match_depth=True (the default), nesting depth 1-3, column mappings given as dicts of type strings; UDF mappings are not modelled",
        "the text of SchemaError / ValueError messages is canonicalised to an error kind",
    ]
    chk.write_generated(translate(chk))
    proved = chk.prove(MODULES, "Properties.C18", THEOREMS)
    validate_case_hypotheses(chk)
    hints = []
    try:
        hints = correspond(chk)
    except HarnessError as e:
        if proved:
            raise
        chk.note(f"model driver unavailable ({e}); continuing with the search on the real code")
    budget = chk.pick(12, 120)
    if chk.broken:
        budget *= 3
    search(chk, hints, budget)


def replay(path: str) -> int:
    import sys

    sys.path.insert(0, REPO)
    rec = json.load(open(path))
    r = rec.get("replay")
    if not r:
        print(json.dumps(rec, indent=1))
        return 1
    res = oracle_history((r["dialect"], r["normalize"], r["initial"], r["ops"], r.get("raw", False), r.get("visible")))
    print("replay:", "VIOLATES: " + res[1] if res else "holds")
    return 1 if res else 0
