"""C20 — An AST diff accounts for every node once and is empty only for equal trees (DESIGN.md §4 C20).

translate : sqlglot/diff.py constants (0.8 / 0.4 / 4, default f and t), UPDATABLE_/IGNORED_ type tuples -> Generated/C20.lean
prove     : Properties/C20.lean (matching injective, same type, source/target partition, prematch respected for ARBITRARY
            similarity oracles; identity matching + empty delta for a tree against its copy; delta-empty => equal (partial)
            with the counter-example witness)
correspond: the Lean model fed the REAL dice values (tapped from ChangeDistiller._dice_coefficient) must produce exactly the
            matching set and the edit multiset of the real ChangeDistiller, on edit-sequence-derived pairs and independent
            pairs, with and without matchings=, delta_only on/off, several (f, t)
search    : the property's own oracle on sqlglot.diff(): partition, paired nodes same type, diff(t, t.copy()) empty,
            delta empty <=> trees equal, delta_only == full minus Keep, inputs unchanged (structure + _hash caches)
"""

from __future__ import annotations

import ast
import copy as pycopy
import json
import os
import time
from fractions import Fraction

from vf.core import Check, REPO, HarnessError, lean_str

MODULES = ["Model.Diff", "Proofs.Diff", "Generated.C20", "Properties.C20"]
NS = "SqlglotModel.Properties.C20."
THEOREMS = [NS + n for n in [
    "matching_injective",
    "matched_same_type",
    "matched_in_index",
    "prematch_respected",
    "source_partition",
    "target_partition",
    "delta_only_drops_exactly_keeps",
    "delta_empty_layerA",
    "copy_identity_matching",
    "copy_delta_empty",
    "delta_empty_imp_equal_partial",
    "delta_empty_imp_equal_counterexample",
    "delta_empty_imp_equal",
    "delta_empty_imp_equal_argkey_counterexample",
    "equal_imp_delta_empty_partial",
    "equal_imp_delta_empty_counterexample",
    "lcs_is_common_subseq",
    "lcs_maximal",
    "move_iff_not_in_lcs",
    "diffTrees_source_partition",
    "diffTrees_target_partition",
    "diffTrees_matching_injective",
    "generated_constants_ok",
    "diff_leaves_inputs_untouched",
    "diff_copies_when_shared",
    "only_source_copied_witness",
    "stale_hash_witness",
    "evict_all_breaks_ancestors_witness",
    "generated_wrapper_policy_ok",
    "generated_compares_ignored_leaves",
    "copy_imp_delta_empty_linked",
    "missing_parent_link_move_witness",
    "diff_leaf_skip_matches_eq",
    "leaf_difference_seen_iff_eq_sees",
    "not_value_variant_witness",
    "matched_pair_keep_iff_locally_equal",
    "updatable_changed_pair_is_update",
    "local_difference_surfaces_partial",
    "move_iff_parents_not_matched",
    "ident_dict_collapse_witness",
    "generated_ignored_leaves_are_lists",
    "class_tables_decision",
]]


# ------------------------------------------------------------------------------------------ translate
def _const_fraction(node) -> Fraction | None:
    if isinstance(node, ast.Constant) and isinstance(node.value, (int, float)) and not isinstance(node.value, bool):
        return Fraction(repr(node.value))
    return None


def class_table_lean(chk) -> str:
    """the live class tables: for every Expression subclass, is it updatable / ignored (isinstance semantics)"""
    _, exp, D = sg()
    import inspect

    classes = sorted({c for _, c in inspect.getmembers(exp, inspect.isclass) if issubclass(c, exp.Expr)}, key=lambda c: c.__name__)
    rows = [(c.__name__, issubclass(c, D.UPDATABLE_EXPRESSION_TYPES), issubclass(c, D.IGNORED_LEAF_EXPRESSION_TYPES)) for c in classes]
    chk.cov["class_table"] = {"classes": len(rows), "updatable": sum(r[1] for r in rows), "ignored": [r[0] for r in rows if r[2]]}
    body = ", ".join(f"({'true' if u else 'false'}, {'true' if i else 'false'})" for _, u, i in rows)
    return ("/-- (updatable, ignored) for every live Expression subclass, by class name order -/\n"
            f"def classTable : List (Bool × Bool) := [{body}]\n")


def translate(chk: Check) -> str:
    src = open(os.path.join(REPO, "sqlglot", "diff.py"), encoding="utf-8").read()
    tree = ast.parse(src)
    problems = []
    tables = {}
    for n in tree.body:
        if isinstance(n, ast.Assign) and len(n.targets) == 1 and isinstance(n.targets[0], ast.Name):
            nm = n.targets[0].id
            if nm in ("UPDATABLE_EXPRESSION_TYPES", "IGNORED_LEAF_EXPRESSION_TYPES"):
                if isinstance(n.value, ast.Tuple) and all(isinstance(e, ast.Attribute) for e in n.value.elts):
                    tables[nm] = [e.attr for e in n.value.elts]
                else:
                    problems.append(f"{nm} is not a tuple of exp.X attributes")
    for nm in ("UPDATABLE_EXPRESSION_TYPES", "IGNORED_LEAF_EXPRESSION_TYPES"):
        if nm not in tables:
            problems.append(f"{nm} not found")
            tables[nm] = []
    hi = lo = None
    min_leaves = None
    def_f = def_t = None
    for cls in [n for n in tree.body if isinstance(n, ast.ClassDef) and n.name == "ChangeDistiller"]:
        for fn in [n for n in cls.body if isinstance(n, ast.FunctionDef)]:
            if fn.name == "__init__":
                names = [a.arg for a in fn.args.args]
                defaults = fn.args.defaults
                dmap = dict(zip(names[len(names) - len(defaults):], defaults))
                def_f = _const_fraction(dmap.get("f"))
                def_t = _const_fraction(dmap.get("t"))
            if fn.name == "_compute_matching_set":
                for n in ast.walk(fn):
                    if isinstance(n, ast.IfExp) and isinstance(n.test, ast.Compare) and len(n.test.ops) == 1 \
                            and isinstance(n.test.ops[0], ast.Gt) and "min(" in ast.unparse(n.test.left) \
                            and ast.unparse(n.body) == "self.t":
                        c = _const_fraction(n.test.comparators[0])
                        l = _const_fraction(n.orelse)
                        if c is not None and c.denominator == 1 and l is not None:
                            min_leaves, lo = int(c), l
                    if isinstance(n, ast.Compare) and ast.unparse(n.left) == "leaf_similarity_score" \
                            and len(n.ops) == 1 and isinstance(n.ops[0], ast.GtE):
                        c = _const_fraction(n.comparators[0])
                        if c is not None:
                            hi = c
    if hi is None or lo is None or min_leaves is None:
        problems.append("threshold constants of _compute_matching_set not recognised")
        hi, lo, min_leaves = hi or Fraction(4, 5), lo or Fraction(2, 5), 4 if min_leaves is None else min_leaves
    cmp_idents = None
    idents_as_dict = False
    for cls in [n for n in tree.body if isinstance(n, ast.ClassDef) and n.name == "ChangeDistiller"]:
        for fn in [n for n in cls.body if isinstance(n, ast.FunctionDef) and n.name == "_generate_edit_script"]:
            for n in ast.walk(fn):
                if isinstance(n, ast.If) and "source_non_expression_leaves" in ast.unparse(n.test):
                    test = ast.unparse(n.test)
                    if test == "source_non_expression_leaves != target_non_expression_leaves":
                        cmp_idents = False
                    elif test == ("source_non_expression_leaves != target_non_expression_leaves or (not identical_nodes and "
                                  "_get_ignored_leaves(source_node) != _get_ignored_leaves(target_node))"):
                        helper = [f for f in tree.body if isinstance(f, ast.FunctionDef) and f.name == "_get_ignored_leaves"]
                        body = ast.unparse(helper[0].body[-1]) if helper else ""
                        # the container type of the ignored leaves is pinned: an ordered list of (arg key, node) pairs
                        if body == ("return [(node.arg_key, node) for node in expression.iter_expressions() "
                                    "if isinstance(node, IGNORED_LEAF_EXPRESSION_TYPES)]"):
                            cmp_idents, idents_as_dict = True, False
                        elif body == ("return {node.arg_key: node for node in expression.iter_expressions() "
                                      "if isinstance(node, IGNORED_LEAF_EXPRESSION_TYPES)}"):
                            cmp_idents, idents_as_dict = True, True
    if cmp_idents is None:
        problems.append("Keep-vs-Update test of _generate_edit_script not recognised")
        cmp_idents = False
    count_pre = None
    for cls in [n for n in tree.body if isinstance(n, ast.ClassDef) and n.name == "ChangeDistiller"]:
        for fn in [n for n in cls.body if isinstance(n, ast.FunctionDef) and n.name == "_compute_matching_set"]:
            assigns = [ast.unparse(n) for n in ast.walk(fn) if isinstance(n, ast.Assign)
                       and any(isinstance(t, ast.Name) and t.id == "leaves_matching_set" for t in n.targets)]
            if assigns == ["leaves_matching_set = self._compute_leaf_matching_set()"]:
                count_pre = False
            elif assigns == ["leaves_matching_set = self._compute_leaf_matching_set()",
                             "leaves_matching_set = leaves_matching_set | self._pre_matched_pairs"] \
                    and "self._pre_matched_pairs = set(pre_matched_nodes.items())" in src:
                count_pre = True
    if count_pre is None:
        problems.append("leaves_matching_set of _compute_matching_set not recognised")
        count_pre = False
    # ---- the wrapper diff(): copy condition, which trees are copied, which nodes are hashed, the finally guard
    wp = {"src": None, "tgt": None, "evict": None}
    for fn in [n for n in tree.body if isinstance(n, ast.FunctionDef) and n.name == "diff"]:
        cond_ok = hash_ok = False
        for st in ast.walk(fn):
            if isinstance(st, ast.Assign) and len(st.targets) == 1 and isinstance(st.targets[0], ast.Name):
                nm, val = st.targets[0].id, ast.unparse(st.value)
                if nm == "copy":
                    cond_ok = val == ("len(source_nodes) != len(source_ids) or len(target_nodes) != len(target_ids) "
                                      "or source_ids & target_ids")
                for side, key in (("source", "src"), ("target", "tgt")):
                    if nm == side + "_copy":
                        wp[key] = {f"{side}.copy() if copy else {side}": "whenShared",
                                   f"{side}.copy() if len({side}_nodes) != len({side}_ids) else {side}": "whenSelfDup",
                                   side: "never"}.get(val)
            if isinstance(st, ast.Try):
                first = st.body[0] if st.body else None
                hash_ok = isinstance(first, ast.If) and ast.unparse(first.test) == "copy and matchings"
                # what the else-branch records before hashing the input nodes
                records_unhashed = False
                if hash_ok and first.orelse:
                    els = [ast.unparse(x) for x in first.orelse]
                    want = "unhashed = [node for node in chain(source_nodes, target_nodes) if node._hash is None]"
                    loop = [i for i, x in enumerate(first.orelse) if isinstance(x, ast.For)]
                    records_unhashed = want in els and loop and els.index(want) < loop[0] \
                        and "unhashed: list[exp.Expr] = []" in [ast.unparse(x) for x in fn.body]
                fb = st.finalbody

                def evict_loop(body):
                    """-> the iterable of the `for node in X: node._hash = None` loop, or None"""
                    if len(body) == 1 and isinstance(body[0], ast.For) and ast.unparse(body[0].target) == "node" \
                            and [ast.unparse(x) for x in body[0].body] == ["node._hash = None"]:
                        return ast.unparse(body[0].iter)
                    return None

                ALL = "chain(source_nodes, target_nodes)"
                if len(fb) == 1 and isinstance(fb[0], ast.If) and not fb[0].orelse:
                    test, it = ast.unparse(fb[0].test), evict_loop(fb[0].body)
                    if it == "unhashed" and records_unhashed and test == "not (copy and matchings)":
                        wp["evict"] = "ownUnlessCopiesHashed"
                    elif it == ALL:
                        wp["evict"] = {"not (copy and matchings)": "unlessCopiesHashed", "not copy": "whenNotCopied",
                                       "True": "always"}.get(test)
                elif evict_loop(fb) == ALL:
                    wp["evict"] = "always"
                elif not fb or "_hash" not in ast.unparse(ast.Module(body=fb, type_ignores=[])):
                    wp["evict"] = "never"
        if not cond_ok:
            problems.append("diff(): shared-node condition `copy = ...` not recognised")
        if not hash_ok:
            problems.append("diff(): `if copy and matchings:` hashing branch not recognised")
    for k, dflt in (("src", "whenShared"), ("tgt", "whenShared"), ("evict", "ownUnlessCopiesHashed")):
        if wp[k] is None:
            problems.append(f"diff(): wrapper shape '{k}' not recognised")
            wp[k] = dflt
    chk.cov["wrapper_policy"] = dict(wp)
    # ---- the leaf predicate: which values of a non-expression arg diff skips / __hash__ ignores (9 value classes)
    VAL = [("absent", None), ("none", None), ("false_", False), ("emptyList", []), ("zero", 0), ("emptyStr", ""),
           ("one", 1), ("str", "x"), ("true_", True)]
    diff_skips = eq_ignores = eq_ignores_raw = None
    try:
        from sqlglot import exp as _exp
        from sqlglot.helper import seq_get as _seq_get

        fn = [n for n in tree.body if isinstance(n, ast.FunctionDef) and n.name == "_get_non_expression_leaves"][0]
        loop = [n for n in fn.body if isinstance(n, ast.For)][0]
        first = loop.body[0]
        if not (ast.unparse(loop.iter) == "expression.args.items()" and isinstance(first, ast.If)
                and len(first.body) == 1 and isinstance(first.body[0], ast.Continue) and not first.orelse
                and ast.unparse(loop.body[-1]) == "yield (arg, value)"):
            raise ValueError("shape of _get_non_expression_leaves")
        code = compile(ast.Expression(first.test), "<leaf-skip>", "eval")
        diff_skips = {"absent": True}
        for nm, v in VAL[1:]:
            diff_skips[nm] = bool(eval(code, {"exp": _exp, "seq_get": _seq_get, "isinstance": isinstance, "value": v, "t": None}))
        core = ast.parse(open(os.path.join(REPO, "sqlglot", "expressions", "core.py"), encoding="utf-8").read())
        hfn = [f for c in core.body if isinstance(c, ast.ClassDef) and c.name in ("Expr", "Expression")
               for f in c.body if isinstance(f, ast.FunctionDef) and f.name == "__hash__"][0]
        raw_if = [n for n in ast.walk(hfn) if isinstance(n, ast.If) and ast.unparse(n.test) == "node._hash_raw_args"][0]
        raw_test = [n for n in ast.walk(raw_if.body[0]) if isinstance(n, ast.If)][0]
        if "hash_ = hash((hash_, k, v))" not in ast.unparse(raw_test):
            raise ValueError("raw branch of __hash__")
        raw_code = compile(ast.Expression(raw_test.test), "<raw>", "eval")
        norm_for = raw_if.orelse[0]
        list_if = [n for n in norm_for.body if isinstance(n, ast.If)][0]
        if ast.unparse(list_if.test) != "vt is list" or not isinstance(list_if.body[0], ast.For) \
                or ast.unparse(list_if.body[0].iter) != "v":
            raise ValueError("list branch of __hash__")
        inner = list_if.body[0].body[0]
        if not (isinstance(inner, ast.If) and "hash_ = " in ast.unparse(inner.body[0]) and inner.orelse
                and "hash_ = " in ast.unparse(inner.orelse[0])):
            raise ValueError("list elements of __hash__ do not all contribute")
        scalar_if = list_if.orelse[0]
        if not (isinstance(scalar_if, ast.If) and "hash_ = hash((hash_, k," in ast.unparse(scalar_if.body[0]) and not scalar_if.orelse):
            raise ValueError("scalar branch of __hash__")
        sc_code = compile(ast.Expression(scalar_if.test), "<scalar>", "eval")
        eq_ignores, eq_ignores_raw = {"absent": True}, {"absent": True}
        for nm, v in VAL[1:]:
            if type(v) is list:
                eq_ignores[nm] = len(v) == 0
            else:
                eq_ignores[nm] = not bool(eval(sc_code, {"v": v, "vt": type(v)}))
            eq_ignores_raw[nm] = not bool(eval(raw_code, {"v": v}))
    except Exception as e:  # noqa
        problems.append(f"leaf predicate of _get_non_expression_leaves / Expr.__hash__ not recognised ({e})")
    if diff_skips is None or eq_ignores is None:
        dflt = {nm: nm in ("absent", "none", "false_", "emptyList") for nm, _ in VAL}
        diff_skips, eq_ignores = diff_skips or dflt, eq_ignores or dflt
        eq_ignores_raw = eq_ignores_raw or dflt
    chk.cov["leaf_policy"] = {"diff_skips": [k for k, v in diff_skips.items() if v], "eq_ignores": [k for k, v in eq_ignores.items() if v],
                              "eq_ignores_raw_hash_classes": [k for k, v in eq_ignores_raw.items() if v]}
    arms = lambda d: "".join(f"\n    | .{nm} => {'true' if d[nm] else 'false'}" for nm, _ in VAL)
    translate.leaf_tables = (
        "def leafPolicy : SqlglotModel.Diff.LeafPolicy where\n"
        f"  diffSkips := fun v => match v with{arms(diff_skips)}\n"
        f"  eqIgnores := fun v => match v with{arms(eq_ignores)}\n"
        "/-- for the classes with `_hash_raw_args` (Literal, Identifier): informational -/\n"
        f"def eqIgnoresRawHash : SqlglotModel.Diff.ValClass → Bool := fun v => match v with{arms(eq_ignores_raw)}\n"
    )
    if def_f is None or def_t is None:
        problems.append("ChangeDistiller.__init__ defaults f/t not recognised")
        def_f, def_t = def_f or Fraction(3, 5), def_t or Fraction(3, 5)
    for p in problems:
        chk.broken.append({"kind": "translator", "what": "C20 translator: structure changed: " + p})
    chk.cov["constants"] = {"hi": str(hi), "lo": str(lo), "min_leaves": min_leaves, "f": str(def_f), "t": str(def_t),
                            "updatable": tables["UPDATABLE_EXPRESSION_TYPES"], "ignored": tables["IGNORED_LEAF_EXPRESSION_TYPES"]}
    translate.consts = {"hi": hi, "lo": lo, "min_leaves": min_leaves, "f": def_f, "t": def_t}
    ls = lambda xs: "[" + ", ".join(lean_str(x) for x in xs) + "]"
    return (
        "-- GENERATED by vf/props/c20.py from sqlglot/diff.py (ChangeDistiller constants and type tables). Do not edit.\n"
        "import SqlglotModel.Model.Diff\n"
        "namespace SqlglotModel.Generated.C20\n"
        f"def thrHi : Nat × Nat := ({hi.numerator}, {hi.denominator})\n"
        f"def thrLo : Nat × Nat := ({lo.numerator}, {lo.denominator})\n"
        f"def minLeaves : Nat := {min_leaves}\n"
        f"def defaultF : Nat × Nat := ({def_f.numerator}, {def_f.denominator})\n"
        f"def defaultT : Nat × Nat := ({def_t.numerator}, {def_t.denominator})\n"
        f"def updatableTypes : List String := {ls(tables['UPDATABLE_EXPRESSION_TYPES'])}\n"
        f"def ignoredLeafTypes : List String := {ls(tables['IGNORED_LEAF_EXPRESSION_TYPES'])}\n"
        f"def comparesIgnoredLeaves : Bool := {'true' if cmp_idents else 'false'}\n"
        f"def ignoredLeavesAsDict : Bool := {'true' if idents_as_dict else 'false'}\n"
        f"def countsPrematchedLeaves : Bool := {'true' if count_pre else 'false'}\n"
        f"def wrapperPolicy : SqlglotModel.Diff.Wrapper.Policy := ⟨.{wp['src']}, .{wp['tgt']}, .{wp['evict']}⟩\n"
        + translate.leaf_tables + class_table_lean(chk) +
        "end SqlglotModel.Generated.C20\n"
    )


# ------------------------------------------------------------------------------------------ the real side
def sg():
    import sqlglot
    from sqlglot import exp
    import importlib

    D = importlib.import_module("sqlglot.diff")
    return sqlglot, exp, D


def clear_hashes(*roots):
    for r in roots:
        for n in r.walk():
            n._hash = None


class Tap:
    """Records, for one real diff, every dice value computed, the final matchings dict and the ChangeDistiller."""

    def __init__(self):
        _, _, D = sg()
        self.D = D
        self.dice = {}
        self.matchings = None
        self.cd = None
        self.inner_dice = 0

    def __enter__(self):
        CD = self.D.ChangeDistiller
        self._orig = (CD._dice_coefficient, CD._generate_edit_script, CD.diff)
        o_dice, o_gen, o_diff = self._orig
        tap = self

        def dice(self_, s, t):
            v = o_dice(self_, s, t)
            tap.dice[(id(s), id(t))] = v
            if any(not isinstance(k, tap.D.IGNORED_LEAF_EXPRESSION_TYPES) for k in s.iter_expressions()):
                tap.inner_dice += 1
            return v

        def gen(self_, matchings, delta_only):
            tap.matchings = dict(matchings)
            return o_gen(self_, matchings, delta_only)

        def diff(self_, *a, **k):
            tap.cd = self_
            return o_diff(self_, *a, **k)

        CD._dice_coefficient, CD._generate_edit_script, CD.diff = dice, gen, diff
        return self

    def __exit__(self, *exc):
        CD = self.D.ChangeDistiller
        CD._dice_coefficient, CD._generate_edit_script, CD.diff = self._orig
        return False


class Interner:
    def __init__(self):
        self.items = []

    def get(self, x, hashable_key=None):
        for i, y in enumerate(self.items):
            try:
                if type(x) is type(y) and x == y:
                    return i
            except Exception:  # noqa
                pass
        self.items.append(x)
        return len(self.items) - 1


def same_type_key(node):
    _, exp, _ = sg()
    if isinstance(node, exp.Join):
        return (type(node), "side", node.args.get("side"))
    if isinstance(node, exp.Anonymous):
        return (type(node), "this", node.this)
    return (type(node),)


def encode_pair(src, tgt):
    """-> (src_json, tgt_json, ids: id(node)->int, nodes: int->node). Node ids: source 0.., target n.."""
    _, exp, D = sg()
    ids, nodes = {}, {}
    cls_i, ty_i, nel_i, eq_i, akey_i, lay_i = {}, Interner(), Interner(), {}, {}, Interner()
    out = []
    for root in (src, tgt):
        for n in root.walk():
            if id(n) in ids:
                raise HarnessError("shared node in a correspondence case")
            ids[id(n)] = len(ids)
            nodes[ids[id(n)]] = n
    for root in (src, tgt):
        rows = []
        for n in root.walk():
            par = n.parent
            if par is None:
                p = None
            elif id(par) in ids:
                p = ids[id(par)]
            else:
                raise HarnessError("root with a parent in a correspondence case")
            eq = eq_i.setdefault(n, len(eq_i))  # dict keyed by Expr: __hash__ + __eq__
            rows.append([
                ids[id(n)],
                cls_i.setdefault(type(n), len(cls_i)),
                ty_i.get(same_type_key(n)),
                p,
                [ids[id(k)] for k in n.iter_expressions()],
                isinstance(n, D.IGNORED_LEAF_EXPRESSION_TYPES),
                isinstance(n, D.UPDATABLE_EXPRESSION_TYPES),
                nel_i.get(dict(D._get_non_expression_leaves(n))),
                eq,
                akey_i.setdefault(n.arg_key, len(akey_i)),
                0,  # txt: filled in by real_case with the text the distiller's generator renders
                lay_i.get([(k.arg_key, isinstance(k, D.IGNORED_LEAF_EXPRESSION_TYPES)) for k in n.iter_expressions()]),
            ])
        out.append({"root": ids[id(root)], "nodes": rows})
    clear_hashes(src, tgt)
    return out[0], out[1], ids, nodes


def show_edit(e, ids) -> str:
    _, _, D = sg()
    if isinstance(e, D.Remove):
        return f"R{ids[id(e.expression)]}"
    if isinstance(e, D.Insert):
        return f"I{ids[id(e.expression)]}"
    tag = {"Keep": "K", "Update": "U", "Move": "V"}[type(e).__name__]
    return f"{tag}{ids[id(e.source)]}-{ids[id(e.target)]}"


def real_case(src, tgt, pre_idx, delta_only, f, t_frac, dialect=None):
    """Runs the real diff with taps. pre_idx: list of (src walk position, tgt walk position).
    Returns (protocol line, canonical real answer)."""
    _, exp, D = sg()
    sj, tj, ids, nodes = encode_pair(src, tgt)
    sw, tw = list(src.walk()), list(tgt.walk())
    pre = [(sw[i], tw[j]) for i, j in pre_idx]
    with Tap() as tap:
        try:
            edits = D.diff(src, tgt, matchings=list(pre) or None, delta_only=delta_only, f=f, t=float(t_frac),
                           **({"dialect": dialect} if dialect else {}))
            err = None
        except Exception as e:  # noqa
            edits, err = None, e
        # dice for every same-type pair the model may ask about (unqueried ones cannot influence the real result)
        dice = dict(tap.dice)
        if tap.cd is not None:
            sidx = [n for n in sw if not isinstance(n, D.IGNORED_LEAF_EXPRESSION_TYPES)]
            tidx = [n for n in tw if not isinstance(n, D.IGNORED_LEAF_EXPRESSION_TYPES)]
            for a in sidx:
                for b in tidx:
                    if (id(a), id(b)) not in dice and D._is_same_type(a, b):
                        try:
                            dice[(id(a), id(b))] = tap._orig[0](tap.cd, a, b)
                        except Exception:  # noqa
                            pass
    axiom_failures = []
    txt_i = {}
    if tap.cd is not None:
        for tj_ in (sj, tj):
            for row in tj_["nodes"]:
                try:
                    text = tap.cd._sql_generator.generate(nodes[row[0]])
                except Exception as e:  # noqa
                    text = ("unrenderable", row[0])
                row[10] = txt_i.setdefault(text, len(txt_i) + 1)
        axiom_failures = validate_axioms(tap, sj, tj, ids, nodes, dice)
    clear_hashes(src, tgt)
    # diff.py only compares dice values (heap order, >= f): ship order-preserving ranks instead of floats
    values = sorted(set([float(f)] + [float(v) for v in dice.values()]))
    rank = {v: i for i, v in enumerate(values)}
    line = json.dumps({
        "src": sj, "tgt": tj, "f": rank[float(f)], "t": [t_frac.numerator, t_frac.denominator],
        "pre": [[ids[id(a)], ids[id(b)]] for a, b in dict((id(a), (a, b)) for a, b in pre).values()],
        "delta_only": delta_only,
        "dice": [[ids[a], ids[b], rank[float(v)]] for (a, b), v in dice.items() if a in ids and b in ids],
    })
    if err is not None:
        return line, f"exception {type(err).__name__}", axiom_failures
    m = sorted(f"{ids[a]}-{ids[b]}" for a, b in (tap.matchings or {}).items())
    es = sorted(show_edit(e, ids) for e in edits)
    return line, "M " + " ".join(m) + " | E " + " ".join(es), axiom_failures


def validate_axioms(tap, sj, tj, ids, nodes, dice):
    """The oracle axiomatisations the Lean theorems assume, checked on everything shipped in this case:
    DiceOk  : 0 <= dice <= 1; equal rendered text and == => dice = 1; dice(a, a) = 1; dice symmetric (sampled)
    EqcCongr: same class, equal non-expression leaves, equal identifier children, equal child layout and pairwise ==
              expression children  =>  the two nodes are ==  (structural congruence of Expr.__eq__)"""
    bad = []
    rows = {r[0]: r for t in (sj, tj) for r in t["nodes"]}
    o_dice = tap._orig[0]
    for k, ((a, b), v) in enumerate(dice.items()):
        if a not in ids or b not in ids:
            continue
        ra, rb = rows[ids[a]], rows[ids[b]]
        if not (0.0 <= v <= 1.0):
            bad.append(f"dice out of range: {v}")
        if ra[10] == rb[10] and ra[8] == rb[8] and v != 1.0:
            bad.append(f"equal text and == but dice={v} for {nodes[ids[a]].sql()!r}")
        if k % 17 == 0:
            try:
                if o_dice(tap.cd, nodes[ids[b]], nodes[ids[a]]) != v:
                    bad.append("dice not symmetric")
                if o_dice(tap.cd, nodes[ids[a]], nodes[ids[a]]) != 1.0:
                    bad.append("dice(a, a) != 1")
            except Exception:  # noqa
                pass
    ign = {r[0] for r in rows.values() if r[5]}
    def sig(r):
        idents = tuple((rows[k][9], rows[k][8]) for k in r[4] if k in ign)  # Tree.idk: (arg key class, == class) in order
        return (r[1], r[7], idents, r[11], tuple(rows[k][8] for k in r[4] if k not in ign))
    by_sig = {}
    for r in sj["nodes"]:
        if not r[5]:
            by_sig.setdefault(sig(r), set()).add(r[8])
    for r in tj["nodes"]:
        if not r[5]:
            for e in by_sig.get(sig(r), ()):
                if e != r[8]:
                    bad.append(f"EqcCongr fails at {type(nodes[r[0]]).__name__}: locally equal nodes with == children are not ==")
    return bad[:3]


# ------------------------------------------------------------------------------------------ generators (structured SQL)
COLS = ["a", "b", "c", "x", "y", "id", "name", "amount"]
TABS = ["t", "u", "orders", "users"]
FUNCS = ["ABS", "UPPER", "COALESCE", "FOO", "ROUND", "SUM", "MAX", "BAR"]
STRS = ["a", "ab", "abc", "hello", "hellp"]


def g_atom(rng):
    r = rng.random()
    if r < 0.6:
        return ["col", rng.choice([None, None, "t", "u"]), rng.choice(COLS)]
    if r < 0.85:
        return ["num", rng.choice([0, 1, 1, 2, 10, 100])]
    return ["str", rng.choice(STRS)]


def g_expr(rng, d):
    r = rng.random()
    if d <= 0 or r < 0.45:
        return g_atom(rng)
    if r < 0.62:
        fn = rng.choice(FUNCS)
        n_args = 1 if fn in ("ABS", "UPPER", "SUM", "MAX") else rng.choice([1, 2]) if fn == "ROUND" else rng.choice([1, 1, 2, 3])
        return ["func", fn, [g_expr(rng, d - 1) for _ in range(n_args)]]
    if r < 0.82:
        return ["bin", rng.choice(["+", "-", "*", "/"]), g_expr(rng, d - 1), g_expr(rng, d - 1)]
    if r < 0.9:
        return ["case", g_pred(rng, d - 1), g_expr(rng, d - 1), g_expr(rng, d - 1)]
    if r < 0.95:
        return ["cast", g_expr(rng, d - 1), rng.choice(["INT", "TEXT", "DOUBLE"])]
    return ["win", rng.choice(["SUM", "MAX", "ROW_NUMBER"]), g_atom(rng), g_atom(rng)]


def g_pred(rng, d):
    r = rng.random()
    if d <= 0 or r < 0.5:
        return ["cmp", rng.choice(["=", "<", ">", "<>", "<=", ">="]), g_expr(rng, max(d - 1, 0)), g_expr(rng, max(d - 1, 0))]
    if r < 0.58:
        return ["isnull", g_expr(rng, d - 1)]
    if r < 0.66:
        return ["in", g_expr(rng, d - 1), [g_atom(rng) for _ in range(rng.choice([1, 2, 3]))]]
    if r < 0.8:
        return [rng.choice(["and", "or"]), g_pred(rng, d - 1), g_pred(rng, d - 1)]
    if r < 0.86:
        return ["not", g_pred(rng, d - 1)]
    if r < 0.93:
        return ["like", g_expr(rng, d - 1), rng.choice(STRS)]
    return ["between", g_expr(rng, d - 1), g_atom(rng), g_atom(rng)]


def g_query(rng, d=2, allow_nested=True):
    q = {
        "ctes": [], "distinct": rng.random() < 0.1,
        "proj": [[g_expr(rng, d), rng.choice([None, None, "c1", "c2", "total"])] for _ in range(rng.choice([1, 2, 2, 3, 4, 6]))],
        "from": [rng.choice(TABS), rng.choice([None, None, "t", "s"])],
        "joins": [], "where": [], "group": [], "having": None, "order": [], "limit": None, "union": None,
    }
    if rng.random() < 0.15:
        # repetitive projections: the same expression several times
        e = q["proj"][0]
        q["proj"] += [pycopy.deepcopy(e) for _ in range(rng.choice([1, 2, 3]))]
    for _ in range(rng.choice([0, 0, 1, 1, 2])):
        q["joins"].append([rng.choice(["", "", "LEFT", "RIGHT", "FULL", "CROSS"]), rng.choice(TABS), rng.choice([None, "j", "k"]), g_pred(rng, 1)])
    for _ in range(rng.choice([0, 1, 1, 2, 3])):
        q["where"].append(g_pred(rng, d))
    if rng.random() < 0.25:
        q["group"] = [g_atom(rng) for _ in range(rng.choice([1, 2]))]
        if rng.random() < 0.4:
            q["having"] = g_pred(rng, 1)
    if rng.random() < 0.25:
        q["order"] = [[g_atom(rng), rng.random() < 0.4] for _ in range(rng.choice([1, 2]))]
    if rng.random() < 0.2:
        q["limit"] = rng.choice([1, 10, 100])
    if allow_nested:
        if rng.random() < 0.15:
            q["ctes"].append([rng.choice(["cte", "cte2", "w"]), g_query(rng, 1, False)])
        if rng.random() < 0.12:
            q["from"] = [g_query(rng, 1, False), rng.choice(["sq", "sub"])]
        if rng.random() < 0.1:
            q["union"] = [rng.choice(["UNION", "UNION ALL", "EXCEPT"]), g_query(rng, 1, False)]
    return q


def r_expr(e) -> str:
    k = e[0]
    if k == "col":
        return (e[1] + "." if e[1] else "") + e[2]
    if k == "num":
        return str(e[1])
    if k == "str":
        return "'" + e[1] + "'"
    if k == "func":
        return f"{e[1]}({', '.join(r_expr(a) for a in e[2])})"
    if k == "bin":
        return f"({r_expr(e[2])} {e[1]} {r_expr(e[3])})"
    if k == "case":
        return f"CASE WHEN {r_expr(e[1])} THEN {r_expr(e[2])} ELSE {r_expr(e[3])} END"
    if k == "cast":
        return f"CAST({r_expr(e[1])} AS {e[2]})"
    if k == "win":
        arg = "" if e[1] == "ROW_NUMBER" else r_expr(e[2])
        return f"{e[1]}({arg}) OVER (PARTITION BY {r_expr(e[2])} ORDER BY {r_expr(e[3])})"
    if k == "cmp":
        return f"{r_expr(e[2])} {e[1]} {r_expr(e[3])}"
    if k == "isnull":
        return f"{r_expr(e[1])} IS NULL"
    if k == "in":
        return f"{r_expr(e[1])} IN ({', '.join(r_expr(a) for a in e[2])})"
    if k in ("and", "or"):
        return f"({r_expr(e[1])} {k.upper()} {r_expr(e[2])})"
    if k == "not":
        return f"NOT ({r_expr(e[1])})"
    if k == "like":
        return f"{r_expr(e[1])} LIKE '{e[2]}'"
    if k == "between":
        return f"{r_expr(e[1])} BETWEEN {r_expr(e[2])} AND {r_expr(e[3])}"
    raise HarnessError("r_expr " + str(k))


def r_query(q) -> str:
    s = ""
    if q["ctes"]:
        s += "WITH " + ", ".join(f"{n} AS ({r_query(c)})" for n, c in q["ctes"]) + " "
    s += "SELECT " + ("DISTINCT " if q["distinct"] else "")
    s += ", ".join(r_expr(e) + (f" AS {a}" if a else "") for e, a in q["proj"])
    f, a = q["from"]
    s += " FROM " + (f"({r_query(f)})" if isinstance(f, dict) else f) + (f" AS {a}" if a else "")
    for side, tb, al, on in q["joins"]:
        s += f" {side} JOIN {tb}" + (f" AS {al}" if al else "") + ("" if side == "CROSS" else f" ON {r_expr(on)}")
    if q["where"]:
        s += " WHERE " + " AND ".join(r_expr(p) for p in q["where"])
    if q["group"]:
        s += " GROUP BY " + ", ".join(r_expr(e) for e in q["group"])
        if q["having"]:
            s += " HAVING " + r_expr(q["having"])
    if q["order"]:
        s += " ORDER BY " + ", ".join(r_expr(e) + (" DESC" if d else "") for e, d in q["order"])
    if q["limit"] is not None:
        s += f" LIMIT {q['limit']}"
    if q["union"]:
        s += f" {q['union'][0]} {r_query(q['union'][1])}"
    return s


def expr_slots(obj, out):
    """every tagged expression list inside a query structure (mutable, in place)"""
    if isinstance(obj, dict):
        for v in obj.values():
            expr_slots(v, out)
    elif isinstance(obj, list):
        if obj and isinstance(obj[0], str) and obj[0] in ("col", "num", "str", "func", "bin", "case", "cast", "win", "cmp",
                                                         "isnull", "in", "and", "or", "not", "like", "between"):
            out.append(obj)
        for v in obj:
            expr_slots(v, out)
    return out


VALUE_KINDS = ("col", "num", "str", "func", "bin", "case", "cast", "win")


def edit_query(rng, q):
    """one random edit, in place; returns its name"""
    slots = expr_slots(q, [])
    r = rng.random()
    if r < 0.16:
        cs = [s for s in slots if s[0] == "col"]
        if cs:
            c = rng.choice(cs)
            if rng.random() < 0.7:
                c[2] = rng.choice(COLS + [c[2] + "x", c[2][:-1] or "z"])
            else:
                c[1] = rng.choice([None, "t", "u", "s"])
            return "rename"
    if r < 0.28:
        ls = [s for s in slots if s[0] in ("num", "str")]
        if ls:
            l = rng.choice(ls)
            l[1] = rng.choice([0, 1, 2, 3, 11]) if l[0] == "num" else rng.choice(STRS + [l[1] + "x"])
            return "literal"
    if r < 0.40:
        q["proj"].insert(rng.randint(0, len(q["proj"])), [g_expr(rng, 1), rng.choice([None, None, "n1"])])
        return "proj+"
    if r < 0.48 and len(q["proj"]) > 1:
        q["proj"].pop(rng.randrange(len(q["proj"])))
        return "proj-"
    if r < 0.56 and len(q["proj"]) > 1:
        e = q["proj"].pop(rng.randrange(len(q["proj"])))
        q["proj"].insert(rng.randint(0, len(q["proj"])), e)
        return "proj~"
    if r < 0.64:
        q["where"].insert(rng.randint(0, len(q["where"])), g_pred(rng, 1))
        return "pred+"
    if r < 0.70 and q["where"]:
        q["where"].pop(rng.randrange(len(q["where"])))
        return "pred-"
    if r < 0.74 and len(q["where"]) > 1:
        e = q["where"].pop(rng.randrange(len(q["where"])))
        q["where"].insert(rng.randint(0, len(q["where"])), e)
        return "pred~"
    if r < 0.79:
        q["joins"].insert(rng.randint(0, len(q["joins"])), [rng.choice(["", "LEFT", "RIGHT"]), rng.choice(TABS), rng.choice([None, "j2"]), g_pred(rng, 0)])
        return "join+"
    if r < 0.83 and q["joins"]:
        q["joins"].pop(rng.randrange(len(q["joins"])))
        return "join-"
    if r < 0.86 and q["joins"]:
        j = rng.choice(q["joins"])
        j[0] = rng.choice(["", "LEFT", "RIGHT", "FULL"])
        return "join-side"
    if r < 0.93:
        vs = [s for s in slots if s[0] in VALUE_KINDS]
        if vs:
            v = rng.choice(vs)
            inner = list(v)
            v[:] = ["func", rng.choice(FUNCS), [inner]]  # one argument: valid for every function in FUNCS
            return "wrap"
    if r < 0.95:
        fs = [s for s in slots if s[0] == "func" and len(s[2]) >= 1]
        if fs:
            f = rng.choice(fs)
            f[:] = list(f[2][0])
            return "unwrap"
    if r < 0.97:
        q["proj"].append(pycopy.deepcopy(rng.choice(q["proj"])))
        return "proj-dup"
    if r < 0.98:
        q["distinct"] = not q["distinct"]
        return "distinct"
    if q["order"]:
        q["order"][0][1] = not q["order"][0][1]
        return "order"
    q["limit"] = rng.choice([None, 1, 5])
    return "limit"


CORPUS_SQL = [
    ("SELECT a.b.c.d.e", "SELECT a.b.c.d.f"),
    ("SELECT a + b", "SELECT a + c"),
    ("SELECT a, b, c", "SELECT c, b, a"),
    ("SELECT 1", "SELECT 1, 2, 3, 4"),
    ("SELECT 1 AS c1, 2 AS c2", "SELECT 2 AS c1, 3 AS c2"),
    ("SELECT a UNION SELECT b", "SELECT a UNION ALL SELECT b"),
    ("SELECT a, b FROM t ORDER BY c ASC", "SELECT b, a FROM t ORDER BY c DESC"),
    ("SELECT a, a, a, a + 1, a + 1 FROM t", "SELECT a + 1, a, a, a FROM t"),
    ("SELECT a FROM t JOIN u ON t.a = u.a LEFT JOIN u ON t.b = u.b", "SELECT a FROM t LEFT JOIN u ON t.b = u.b JOIN u ON t.a = u.a"),
    ("SELECT FOO(a), FOO(b), BAR(a)", "SELECT BAR(a), FOO(b), FOO(a, 1)"),
    ("SELECT a, b, c, d, e, f FROM t WHERE a = 1 AND b = 2 AND c = 3", "SELECT a, b, c, d, e, g FROM t WHERE a = 1 AND b = 2 AND c = 4"),
    ("WITH cte AS (SELECT a FROM t) SELECT a FROM cte", "WITH cte AS (SELECT a, b FROM t) SELECT b, a FROM cte"),
    ("SELECT SUM(a) OVER (PARTITION BY b ORDER BY c)", "SELECT SUM(a) OVER (PARTITION BY c ORDER BY b)"),
    ("SELECT * FROM (SELECT 1) AS abcdef", "SELECT * FROM (SELECT 1) AS abcdeg"),
    ("SELECT Foo(x)", "SELECT FOO(x)"),
    ("SELECT x IN (y)", "SELECT x IN y"),
]


def parse(sql, read=None):
    sqlglot, _, _ = sg()
    return sqlglot.parse_one(sql, read=read)


# ---- trees containing constructs the SQL generator rewrites while rendering, diffed with a dialect= argument,
#      as near-similar pairs (about half of the leaves renamed) so that inner nodes land in the leaf-similarity band
#      [0.4, 0.8) where the distiller falls back to comparing generated SQL of whole subtrees
DIALECT_TEMPLATES = [
    # (read dialect, SQL with {p} = projection list, {w} = predicate)
    ("mysql", "SELECT {p}, x / y, (a + 1) / (b - 1) FROM t WHERE {w} AND c / d > 1"),
    ("mysql", "SELECT {p} FROM t WHERE a / b > c / d AND {w}"),
    (None, "SELECT {p} FROM t WHERE {w} LIMIT 5"),
    ("tsql", "SELECT TOP 5 {p} FROM t WHERE {w}"),
    ("tsql", "SELECT TOP 3 {p} FROM t AS t1 WHERE {w} ORDER BY a"),
    ("bigquery", "SELECT {p} FROM t, UNNEST(arr) AS el WITH OFFSET AS pos WHERE {w}"),
    ("bigquery", "SELECT {p}, STRUCT(a AS f1, b AS f2) AS st FROM t WHERE {w}"),
    ("duckdb", "SELECT {p}, {{'k1': a, 'k2': b}} AS st FROM t WHERE {w}"),
    (None, "SELECT {p} INTO t2 FROM t WHERE {w}"),
    ("tsql", "SELECT {p} INTO #tmp FROM t WHERE {w}"),
    ("postgres", "SELECT {p} FROM t WHERE {w} LIMIT 5 OFFSET 2"),
]
DIFF_DIALECTS = [None, None, "tsql", "tsql", "mysql", "bigquery", "duckdb", "postgres", "spark", "oracle"]


def gen_dialect_pair(rng):
    """-> (src_sql, tgt_sql, read, diff dialect)"""
    read, tpl = rng.choice(DIALECT_TEMPLATES)
    k = rng.choice([4, 5, 6, 8])
    names = [rng.choice(COLS) for _ in range(k)]
    def proj(ns):
        out = []
        for i, n in enumerate(ns):
            out.append(n if i % 3 else f"{n} + {i}")
        return ", ".join(out)
    w_cols = [rng.choice(COLS) for _ in range(2)]
    pred = lambda c: f"{c[0]} > 1 AND {c[1]} < 2"
    # rename a fraction of the leaves: 30-60% keeps the Select's leaf similarity in or near the band
    frac = rng.choice([0.0, 0.3, 0.4, 0.5, 0.6])
    names2 = [(n + "zz" + str(i)) if rng.random() < frac else n for i, n in enumerate(names)]
    w2 = [(c + "qq") if rng.random() < frac else c for c in w_cols]
    a = tpl.format(p=proj(names), w=pred(w_cols))
    b = tpl.format(p=proj(names2), w=pred(w2))
    return a, b, read, rng.choice(DIFF_DIALECTS)


def gen_pair(rng, chk=None):
    """-> (kind, src_sql, tgt_sql)"""
    r = rng.random()
    q = g_query(rng, rng.choice([1, 2, 2]))
    if r < 0.62:
        q2 = pycopy.deepcopy(q)
        names = [edit_query(rng, q2) for _ in range(rng.choice([1, 1, 2, 3, 5, 8]))]
        if chk:
            for n in names:
                chk.count("edit:" + n)
        return "edited", r_query(q), r_query(q2)
    if r < 0.7:
        return "same", r_query(q), r_query(q)
    return "independent", r_query(q), r_query(g_query(rng, rng.choice([1, 2])))


def random_pre(rng, src, tgt, base_matching=None):
    """well-formed caller matchings: injective, non-identifier nodes, same type. As walk positions."""
    _, _, D = sg()
    sw, tw = list(src.walk()), list(tgt.walk())
    cand = [(i, j) for i, a in enumerate(sw) for j, b in enumerate(tw)
            if not isinstance(a, D.IGNORED_LEAF_EXPRESSION_TYPES) and D._is_same_type(a, b)]
    rng.shuffle(cand)
    us, ut, out = set(), set(), []
    k = rng.choice([1, 1, 2, 3, 6])
    if rng.random() < 0.5 and type(src) is type(tgt):
        out.append((0, 0))
        us.add(0)
        ut.add(0)
    for i, j in cand:
        if len(out) >= k:
            break
        if i not in us and j not in ut:
            out.append((i, j))
            us.add(i)
            ut.add(j)
    return out


F_CHOICES = [0.6, 0.6, 0.6, 0.6, 0.3, 0.5, 0.8, 1.0]
T_CHOICES = [Fraction(3, 5), Fraction(3, 5), Fraction(3, 5), Fraction(1, 5), Fraction(1, 2), Fraction(4, 5), Fraction(1, 1)]


# ------------------------------------------------------------------------------------------ correspondence
# ---- PARSED statements of each dialect's distinctive constructs (trees the base fragment never produces: other node
#      classes, other constructors, parser paths that build nodes by hand).  Statements that do not parse are skipped.
DIALECT_CORPUS = {
    None: [
        "SELECT JSON_EXTRACT(x, '$.a[0:2]') FROM t",
        "SELECT JSON_EXTRACT(x, '$.a[:2]') FROM t",
        "SELECT JSON_EXTRACT(x, '$.a[1]'), JSON_EXTRACT(x, '$[*].b') FROM t",
        "SELECT JSON_EXTRACT(x, '$..a'), JSON_EXTRACT_SCALAR(x, '$.a.b') FROM t",
        "SELECT a FROM t ORDER BY a DESC NULLS FIRST, b",
        "SELECT DISTINCT a FROM t UNION ALL SELECT b FROM u",
        "SELECT SUM(a) OVER (PARTITION BY b ORDER BY c ROWS BETWEEN 1 PRECEDING AND CURRENT ROW) FROM t",
        "SELECT CAST(a AS DECIMAL(10, 2)), TRY_CAST(b AS INT) FROM t",
        "SELECT a FROM t TABLESAMPLE (10) LEFT JOIN u USING (id) WHERE x IN (1, 2) AND y NOT LIKE 'a%'",
        "SELECT EXTRACT(YEAR FROM d), INTERVAL '1' DAY, x BETWEEN 1 AND 2 FROM t",
        "CREATE TABLE t (a INT NOT NULL, b TEXT DEFAULT 'x', PRIMARY KEY (a))",
        "INSERT INTO t (a, b) VALUES (1, 'x'), (2, 'y')",
        "UPDATE t SET a = 1 WHERE b = 2",
        "SELECT LISTAGG(a, ',') WITHIN GROUP (ORDER BY a), COUNT(DISTINCT a), FIRST_VALUE(a) IGNORE NULLS OVER (ORDER BY b) FROM t",
    ],
    "clickhouse": [
        "SELECT {abc: UInt32}",
        "SELECT toDate({d: String}) AS d, count(*) FROM events GROUP BY d",
        "SELECT * FROM t WHERE id = {id: UInt64} AND has({tags: Array(String)}, tag)",
        "SELECT arrayJoin([1, 2, 3]) AS x",
        "SELECT a FROM t FINAL SAMPLE 0.1",
        "SELECT arrayMap(x -> x + 1, arr)",
        "SELECT quantile(0.5)(x) FROM t",
        "SELECT a FROM t ARRAY JOIN arr AS el",
        "SELECT CAST(x AS Nullable(String))",
        "SELECT a FROM t ORDER BY a LIMIT 1 BY b",
        "SELECT map('a', 1)['a'], tuple(1, 2).1",
    ],
    "bigquery": [
        "SELECT STRUCT(1 AS a, 'x' AS b) AS s",
        "SELECT x FROM UNNEST([1, 2, 3]) AS x WITH OFFSET AS o",
        "SELECT ARRAY<INT64>[1, 2]",
        "SELECT a FROM `proj.ds.tbl`",
        "SELECT SAFE_CAST(x AS INT64), @param",
        "SELECT * EXCEPT (a) FROM t",
        "SELECT * REPLACE (a + 1 AS a) FROM t",
        "SELECT x FROM t QUALIFY ROW_NUMBER() OVER (PARTITION BY a ORDER BY b) = 1",
        "SELECT DATE_ADD(d, INTERVAL 1 DAY), s.a.b FROM t",
    ],
    "duckdb": [
        "SELECT {'a': 1, 'b': [1, 2]} AS s",
        "SELECT [1, 2, 3][1]",
        "SELECT list_transform(l, x -> x + 1)",
        "SELECT * EXCLUDE (a) FROM t",
        "SELECT a::INT, $1, ?",
        "SELECT MAP {'k': 1}",
        "SELECT x FROM t USING SAMPLE 10%",
        "SELECT COLUMNS('a.*') FROM t",
        "PIVOT t ON a USING SUM(b)",
    ],
    "tsql": [
        "SELECT TOP 5 a FROM t",
        "SELECT TOP 5 PERCENT a FROM t ORDER BY a",
        "SELECT a INTO #tmp FROM t",
        "SELECT CONVERT(INT, x), @v",
        "SELECT a FROM t WITH (NOLOCK)",
        "SELECT ISNULL(a, 0)",
        "SELECT a FROM t ORDER BY a OFFSET 5 ROWS FETCH NEXT 3 ROWS ONLY",
        "SELECT [a b] FROM [t]",
        "DECLARE @x INT = 1",
    ],
    "snowflake": [
        "SELECT f.value FROM t, LATERAL FLATTEN(input => t.arr) AS f",
        "SELECT a:b.c::STRING FROM t",
        "SELECT $1, $2 FROM @stage",
        "SELECT IFF(a > 1, 'x', 'y')",
        "SELECT OBJECT_CONSTRUCT('a', 1)",
        "SELECT * FROM t SAMPLE (10)",
        "SELECT x FROM t QUALIFY RANK() OVER (ORDER BY a) = 1",
        "SELECT ARRAY_AGG(a) WITHIN GROUP (ORDER BY a)",
        "SELECT :name, ?",
    ],
    "postgres": [
        "SELECT a::INT[], ARRAY[1, 2, 3]",
        "SELECT x ->> 'k', y #> '{a,b}' FROM t",
        "SELECT DISTINCT ON (a) a, b FROM t ORDER BY a",
        "SELECT * FROM GENERATE_SERIES(1, 3) AS g(x)",
        "SELECT a FROM t WHERE b ILIKE '%x%'",
        "SELECT $1::TEXT, %s, %(name)s",
        "SELECT a FROM t FOR UPDATE SKIP LOCKED",
        "INSERT INTO t (a) VALUES (1) ON CONFLICT (a) DO UPDATE SET a = 2 RETURNING a",
        "SELECT x FROM t WHERE a = ANY(ARRAY[1, 2])",
    ],
    "mysql": [
        "SELECT a / b, a DIV b FROM t",
        "SELECT `a` FROM `t` LIMIT 5, 10",
        "INSERT INTO t (a) VALUES (1) ON DUPLICATE KEY UPDATE a = 2",
        "SELECT GROUP_CONCAT(a ORDER BY b SEPARATOR ',') FROM t",
        "SELECT a FROM t FORCE INDEX (i)",
        "SELECT CAST(a AS UNSIGNED), ?, %s",
    ],
    "spark": [
        "SELECT TRANSFORM(arr, x -> x + 1)",
        "SELECT a FROM t LATERAL VIEW EXPLODE(arr) e AS x",
        "SELECT /*+ BROADCAST(t) */ a FROM t",
        "SELECT STRUCT(1, 2), MAP('a', 1)",
        "SELECT a FROM t TABLESAMPLE (10 PERCENT)",
        "SELECT :param, ${var}",
    ],
    "hive": ["SELECT a FROM t LATERAL VIEW EXPLODE(arr) e AS x", "SELECT ${hiveconf:x}", "SELECT a FROM t CLUSTER BY a"],
    "oracle": [
        "SELECT a FROM t WHERE ROWNUM < 5",
        "SELECT a FROM t START WITH parent IS NULL CONNECT BY PRIOR id = parent",
        "SELECT NVL(a, 0) FROM dual",
        "SELECT a FROM t FETCH FIRST 5 ROWS ONLY",
        "SELECT a FROM t, u WHERE t.a (+) = u.a",
        "SELECT :x, :1 FROM dual",
    ],
    "presto": [
        "SELECT x, i FROM UNNEST(arr) WITH ORDINALITY AS t(x, i)",
        "SELECT TRY_CAST(a AS INTEGER), ROW(1, 2)",
        "SELECT APPROX_DISTINCT(a), ELEMENT_AT(m, 'k')",
        "SELECT ?",
    ],
    "trino": ["SELECT JSON_QUERY(j, 'lax $.a'), TRY(a / b)", "SELECT * FROM t FOR TIMESTAMP AS OF TIMESTAMP '2020-01-01'"],
    "redshift": ["SELECT a FROM t WHERE b SIMILAR TO 'x%'", "SELECT LISTAGG(a, ',') WITHIN GROUP (ORDER BY a) FROM t", "SELECT c.o FROM t AS c, c.orders AS o"],
    "sqlite": ["SELECT a FROM t WHERE a GLOB 'x*'", "SELECT ?1, :a, @b, $c", "SELECT a FROM t LIMIT 5 OFFSET 2"],
    "teradata": ["SEL a FROM t SAMPLE 5", "SELECT a FROM t QUALIFY ROW_NUMBER() OVER (ORDER BY a) = 1"],
    "databricks": ["SELECT a:b.c FROM t", "SELECT :p, ? FROM t"],
    "starrocks": ["SELECT a FROM t, UNNEST(arr) AS u(x)"],
    "athena": ["SELECT a FROM t TABLESAMPLE BERNOULLI (10)"],
    "exasol": ["SELECT a FROM t GROUP BY LOCAL.a"],
    "materialize": ["SELECT MAP['a' => 1]"],
}


def dialect_corpus():
    """-> [(dialect, sql)] for the statements that parse on this tree"""
    out = []
    for d, stmts in DIALECT_CORPUS.items():
        for q in stmts:
            try:
                parse(q, d)
                out.append((d, q))
            except Exception:  # noqa
                pass
    return out


ABSENT = object()
SCALAR_VALUES = [("absent", ABSENT), ("none", None), ("false", False), ("empty-list", []), ("zero", 0), ("empty-str", ""),
                 ("one", 1), ("str", "x"), ("true", True)]


def value_class(v) -> str:
    if v is ABSENT:
        return "absent"
    if v is None:
        return "none"
    if v is True or v is False:
        return "true" if v else "false"
    if isinstance(v, list):
        return "empty-list" if not v else "list"
    if isinstance(v, int):
        return {0: "zero", 1: "one"}.get(v, "int")
    if isinstance(v, str):
        return {"": "empty-str", "x": "str"}.get(v, "other-str")
    return "other"


def is_scalar_value(v) -> bool:
    return isinstance(v, (bool, int, str)) or (isinstance(v, list) and all(isinstance(x, (bool, int, str)) for x in v))


def perturbation_plan(chk):
    """single-argument perturbations over the parsed corpus: for every Expression class and every non-expression
    argument it was ever seen with (so also where it is absent), up to `per` occurrences, preferring nodes without an
    updatable self/ancestor (an Update there would mask a wrong Keep below). -> [(dialect, sql, walk position, arg)]"""
    _, exp, D = sg()
    stmts = dialect_corpus() + [(None, q) for pair in CORPUS_SQL for q in pair]
    trees = []
    for d, q in stmts:
        try:
            trees.append((d, q, parse(q, d)))
        except Exception:  # noqa
            pass
    catalog = set()
    for _, _, t_ in trees:
        for n in t_.walk():
            for k, v in n.args.items():
                if is_scalar_value(v) and not isinstance(v, list) or (isinstance(v, list) and not v and False):
                    catalog.add((type(n), k))
    cands = {}
    for d, q, t_ in trees:
        for pos, n in enumerate(t_.walk()):
            if getattr(n, "_hash_raw_args", False):
                continue  # Literal / Identifier: their own (raw) hash rule; Identifier is not diffed, Literal always updatable
            masked = False
            a = n
            while a is not None:
                masked = masked or isinstance(a, D.UPDATABLE_EXPRESSION_TYPES)
                a = a.parent
            for k in n.arg_types:
                if (type(n), k) not in catalog:
                    continue
                cur = n.args.get(k, ABSENT)
                if cur is not ABSENT and cur is not None and not is_scalar_value(cur):
                    continue
                cands.setdefault((type(n).__name__, k), []).append((masked, len(q), d, q, pos))
    per = chk.pick(2, 4)
    plan = []
    for key in sorted(cands):
        for masked, _, d, q, pos in sorted(cands[key], key=lambda c: (c[0], c[1]))[:per]:
            plan.append((d, q, pos, key[1], key[0], masked))
    chk.cov["perturbation"] = {"class_arg_pairs": len(cands), "planned_nodes": len(plan),
                               "unmasked": sum(1 for p_ in plan if not p_[5])}
    return plan


def perturb_case(d, q, pos, arg, vname):
    """-> (t1, t2) where t2 is a copy of the parsed statement with one non-expression argument set to the value class"""
    t1 = parse(q, d)
    t2 = t1.copy()
    node = list(t2.walk())[pos]
    if arg == "__ident__":
        node.args["this"] = str(node.args.get("this")) + "zz"  # rename one Identifier child, nothing else
        return t1, t2
    v = dict(SCALAR_VALUES)[vname]
    if v is ABSENT:
        node.args.pop(arg, None)
    else:
        node.args[arg] = list(v) if isinstance(v, list) else v
    return t1, t2


def perturb_oracle(d, q, pos, arg, vname):
    """'empty delta <=> equal trees' on a single-argument perturbation. -> None | (kind, detail) | 'skip'"""
    _, _, D = sg()
    t1, t2 = perturb_case(d, q, pos, arg, vname)
    kw = {"dialect": d} if d else {}
    try:
        delta = D.diff(t1, t2, delta_only=True, **kw)
        delta_r = D.diff(t2, t1, delta_only=True, **kw)
    except Exception:  # noqa
        return "skip"  # an artificial value the SQL generator cannot render: not a statement about diff
    equal = t1 == t2
    clear_hashes(t1, t2)
    for dl in (delta, delta_r):
        if equal and dl:
            return ("equal-nonempty", f"source == target but delta has {len(dl)} edit(s)")
        if not equal and not dl:
            return ("empty-unequal", "delta is empty although source != target")
    return None


def link_violations(root):
    """The C08 parent-link invariant the diff model assumes of its inputs: every child knows its parent, its arg key and
    its position. -> list of descriptions (empty = holds)"""
    bad = []
    if root.parent is not None:
        bad.append(f"root {type(root).__name__} has a parent")
    for n in root.walk():
        for k, v in n.args.items():
            vs = v if isinstance(v, list) else [v]
            for i, x in enumerate(vs):
                if hasattr(x, "args") and hasattr(x, "parent"):
                    if x.parent is not n or x.arg_key != k or (isinstance(v, list) and x.index != i):
                        bad.append(f"{type(x).__name__} under {type(n).__name__}.{k}: parent={type(x.parent).__name__ if x.parent is not None else None} arg_key={x.arg_key!r}")
    return bad


def build_case(case):
    src = parse(case["a"], case.get("read"))
    mode = case.get("mode")
    if mode == "copy":
        return src, src.copy()
    if mode == "copy-rev":
        return src.copy(), src
    if mode == "perturb":
        return perturb_case(case.get("read"), case["a"], case["pos"], case["arg"], case["value"])
    return src, parse(case["b"], case.get("read"))


def correspond(chk: Check) -> list:
    rng = chk.rng
    n = chk.pick(200, 2500)
    cases = []
    for a, b in CORPUS_SQL:
        cases.append({"kind": "corpus", "a": a, "b": b})
    # every dialect's distinctive constructs: tree vs its copy (both directions), and pairs of statements of one dialect
    dc = dialect_corpus()
    chk.cov["dialect_corpus"] = {"statements": len(dc), "dialects": len({d for d, _ in dc})}
    for i, (d, q) in enumerate(dc):
        cases.append({"kind": "dialect-copy", "a": q, "b": q, "read": d, "mode": "copy" if i % 2 == 0 else "copy-rev"})
        if chk.quick and i % 3:
            continue
        d2, q2 = dc[(i + 1) % len(dc)]
        if d2 == d:
            cases.append({"kind": "dialect-pair", "a": q, "b": q2, "read": d})
    # single-argument perturbations: model vs real (Keep-vs-Update on the leaf dictionaries) and the EqcCongr axiom
    n_pert = 0
    for d, q, pos, arg, cls_name, masked in perturbation_plan(chk):
        if masked or n_pert >= chk.pick(45, 300):
            continue
        for vname in ("zero", "empty-str", "false", "absent", "str"):
            cases.append({"kind": "perturb", "a": q, "b": q, "read": d, "mode": "perturb", "pos": pos, "arg": arg, "value": vname})
            n_pert += 1
    while len(cases) < n + len(dc) + n_pert:
        kind, a, b = gen_pair(rng, chk)
        cases.append({"kind": kind, "a": a, "b": b})
    lines, expect, meta = [], [], []
    bad_inputs = []
    for ci, case in enumerate(cases):
        kind, a, b, read = case["kind"], case["a"], case["b"], case.get("read")
        try:
            src, tgt = build_case(case)
        except Exception as e:  # noqa
            chk.count("gen:unparseable")
            continue
        # the model (and diff.py's Move test) assume both inputs satisfy the C08 link invariant: a parsed / copied tree
        # that violates it is a broken tie, and the case goes to the search
        lv = link_violations(src) + link_violations(tgt)
        if lv:
            chk.correspondence_broken("an input tree violates the parent-link invariant (C08) the diff model assumes",
                                      {"src": a, "tgt": b, "read": read, "mode": case.get("mode"), "what": lv[:3]})
            bad_inputs.append({"src": a, "tgt": b, "pre": [], "delta_only": False, "f": 0.6, "t": [3, 5], "read": read,
                               "mode": case.get("mode")})
            continue
        size = sum(1 for _ in src.walk()) + sum(1 for _ in tgt.walk())
        if size > 260:
            chk.count("gen:too-large")
            continue
        chk.count("pair:" + kind)
        variants = [([], False, 0.6, Fraction(3, 5))]
        if not (kind.startswith("dialect") or kind == "perturb") or not chk.quick:
            pre = random_pre(rng, src, tgt)
            variants.append((pre, rng.random() < 0.5, rng.choice(F_CHOICES), rng.choice(T_CHOICES)))
            if rng.random() < 0.35:
                variants.append(([], True, rng.choice(F_CHOICES), rng.choice(T_CHOICES)))
        for vi, (pre_idx, delta_only, f, tf) in enumerate(variants):
            if vi:
                src, tgt = build_case(case)  # fresh trees: a diff that alters its inputs must not poison the next variant
            fp_before = (fingerprint(src, False), fingerprint(tgt, False))
            try:
                line, ans, axiom_failures = real_case(src, tgt, pre_idx, delta_only, f, tf, dialect=read)
            except HarnessError as e:
                chk.correspondence_broken("the real diff left a tree the harness cannot encode", {"src": a, "tgt": b, "what": str(e)})
                bad_inputs.append({"src": a, "tgt": b, "pre": pre_idx, "delta_only": delta_only, "f": f, "t": [tf.numerator, tf.denominator]})
                continue
            if (fingerprint(src, False), fingerprint(tgt, False)) != fp_before:
                chk.correspondence_broken("the real diff altered its input trees", {"src": a, "tgt": b})
                bad_inputs.append({"src": a, "tgt": b, "pre": pre_idx, "delta_only": delta_only, "f": f, "t": [tf.numerator, tf.denominator]})
            if kind == "perturb" and ans.startswith("exception"):
                chk.count("perturb:unrenderable-artificial-value")  # the SQL generator cannot render the artificial value
                continue
            for af in axiom_failures:
                chk.correspondence_broken("oracle axiom (DiceOk / EqcCongr) fails on the real code", {"src": a, "tgt": b, "what": af})
            lines.append(line)
            expect.append(ans)
            meta.append({"src": a, "tgt": b, "pre": pre_idx, "delta_only": delta_only, "f": f, "t": [tf.numerator, tf.denominator],
                         "read": read, "mode": case.get("mode")})
            chk.count("variant:" + ("pre" if pre_idx else "nopre") + ("/delta" if delta_only else "/full"))
            for tag, cnt in (("edit:K", ans.count(" K")), ("edit:U", ans.count(" U")), ("edit:V", ans.count(" V")),
                             ("edit:R", ans.count(" R")), ("edit:I", ans.count(" I"))):
                if cnt:
                    chk.count("has-" + tag)
            if ans.startswith("exception"):
                chk.count("real:" + ans)
            chk.case((a, b, pre_idx, delta_only, f, str(tf)), nontrivial=a != b,
                     sample=meta[-1] if len(lines) % 211 == 1 else None)
    got = chk.driver("C20", lines)
    chk.corr_cases += len(lines)
    bad = []
    for g, e, m in zip(got, expect, meta):
        if g != e:
            ex = dict(m)
            ex["model"], ex["impl"] = g[:400], e[:400]
            chk.correspondence_broken("ChangeDistiller matching/edit script", ex)
            bad.append(m)
    return bad_inputs + bad


def encode_walk(root, oid):
    """walk() order, each entry [object, walk position of the structural parent, object of the .parent pointer]"""
    out, queue, i = [], [(root, None)], 0
    while i < len(queue):
        node, pp = queue[i]
        out.append([oid(node), pp, oid(node.parent) if node.parent is not None else None])
        for k in node.iter_expressions():
            queue.append((k, i))
        i += 1
    return out


def tree_consistent(root) -> bool:
    if root.parent is not None:
        return False
    stack = [root]
    while stack:
        n = stack.pop()
        for k in n.iter_expressions():
            if k.parent is not n:
                return False
            stack.append(k)
    return True


def correspond_wrapper(chk: Check) -> None:
    """diff()'s wrapper vs Wrapper.runDiff: which trees are copied, whether the ChangeDistiller gets parent-consistent
    trees, which input nodes (and ancestors of subtree inputs) change their cached _hash — on unshared inputs, diff(t, t),
    self-duplicates, grafts in both directions, pre-hashed / partially hashed inputs and subtree inputs."""
    _, _, D = sg()
    rng = chk.rng
    pairs = list(SHARE_TEMPLATES) + [("SELECT a FROM t", "SELECT a FROM t"), ("SELECT a, a FROM t", "SELECT b FROM u WHERE a = 1")]
    for _ in range(chk.pick(10, 120)):
        _, a, b = gen_pair(rng)
        pairs.append((a, b if rng.random() < 0.6 else a))
    lines, expect, meta = [], [], []
    for a, b in pairs:
        scenarios = [None, "same"]
        for _ in range(3):
            sh, _lvl = pick_share(rng, a, b)
            if sh:
                scenarios.append(sh)
        scenarios.append(["selfdup", 1, 2])
        scenarios += [["subtree", rng.randint(1, 6), rng.randint(1, 6)] for _ in range(2)]
        for share in scenarios:
            for m in (False, True):
                prehash = rng.choice(["none", "none", "src", "both", "partial", "tgt"])
                if share and share[0] == "subtree":
                    prehash = rng.choice(["both", "src", "partial", "none"])
                try:
                    src, tgt = parse(a), parse(b)
                except Exception:  # noqa
                    continue
                sw, tw = list(src.walk()), list(tgt.walk())
                s_in, t_in = src, tgt
                if share == "same":
                    tgt = t_in = src
                elif share and share[0] == "selfdup":
                    if len(tw) < 3:
                        continue
                    tgt.append("expressions", tw[1])  # same object twice under the target root
                elif share and share[0] == "subtree":
                    if share[1] >= len(sw) or share[2] >= len(tw):
                        continue
                    s_in, t_in = sw[share[1]], tw[share[2]]
                    if is_ident(s_in) or is_ident(t_in):
                        continue  # a caller may not hand Identifier nodes to matchings= (they are not indexed)
                elif share:
                    mode, i, j = share
                    if i >= len(sw) or j >= len(tw) or i == 0 or j == 0:
                        continue
                    (tw[j].replace(sw[i]) if mode == "s2t" else sw[i].replace(tw[j]))
                whole = {id(n): n for r_ in (src, tgt) for n in r_.walk()}
                if prehash in ("src", "both"):
                    hash(src)
                if prehash in ("tgt", "both"):
                    hash(tgt)
                if prehash == "partial":
                    hash(rng.choice(list(src.walk())))
                ids, keep = {}, []

                def oid(n):
                    keep.append(n)
                    return ids.setdefault(id(n), len(ids))

                enc_s, enc_t = encode_walk(s_in, oid), encode_walk(t_in, oid)
                inputs = {id(n): n for n in list(s_in.walk()) + list(t_in.walk())}
                outside = {i_: n for i_, n in whole.items() if i_ not in inputs}
                before = {i_: n._hash is not None for i_, n in whole.items()}
                line = json.dumps({"op": "wrapper", "sw": enc_s, "tw": enc_t, "matchings": m,
                                   "hashed": [oid(n) for i_, n in whole.items() if before[i_]],
                                   "outside": [oid(n) for n in outside.values()]})
                with Tap() as tap:
                    try:
                        D.diff(s_in, t_in, matchings=[(s_in, t_in)] if m else None)
                        cs, ct = tap.cd._source is not s_in, tap.cd._target is not t_in
                        ans = "W copyS=%d copyT=%d consS=%d consT=%d changedIn=%d changedOut=%d" % (
                            cs, ct, tree_consistent(tap.cd._source), tree_consistent(tap.cd._target),
                            sum(1 for i_, n in inputs.items() if (n._hash is not None) != before[i_]),
                            sum(1 for i_, n in outside.items() if (n._hash is not None) != before[i_]))
                    except Exception as e:  # noqa
                        ans = f"exception {type(e).__name__}"
                for n in whole.values():
                    n._hash = None
                lines.append(line)
                expect.append(ans)
                meta.append({"src": a, "tgt": b, "share": share, "matchings": m, "prehash": prehash})
                chk.count("wrapper:" + (share if isinstance(share, str) else share[0] if share else "unshared")
                          + ("/m" if m else "") + ("/prehashed" if prehash != "none" else ""))
    got = chk.driver("C20", lines)
    chk.corr_cases += len(lines)
    for g, e, mt in zip(got, expect, meta):
        if g != e:
            ex = dict(mt)
            ex["model"], ex["impl"] = g, e
            chk.correspondence_broken("diff() wrapper (copies / parent consistency / hash caches)", ex)


# ------------------------------------------------------------------------------------------ search: the property's oracle
def fingerprint(root, with_hash=True):
    """structure + payload of a tree, parent links, and which nodes carry a cached hash"""
    out = []
    stack = [root]
    while stack:
        n = stack.pop()
        row = [type(n).__name__, with_hash and n._hash is not None, repr(n.comments), repr(n._type), repr(n._meta)]
        for k, v in n.args.items():
            vs = v if isinstance(v, list) else [v]
            for i, x in enumerate(vs):
                if hasattr(x, "args") and hasattr(x, "parent"):
                    row.append((k, i, "E", x.parent is n, x.arg_key == k))
                    stack.append(x)
                else:
                    row.append((k, i, repr(x)))
            if isinstance(v, list):
                row.append((k, "list", len(v)))
        out.append(tuple(row))
    return tuple(out)


def is_ident(n):
    _, exp, _ = sg()
    return isinstance(n, exp.Identifier)


def local_cause(a, b) -> str:
    """first node-local difference between two trees walked in parallel (for the skeleton of an empty-delta finding)"""
    _, exp, D = sg()
    qa, qb = [a], [b]
    while qa and qb:
        x, y = qa.pop(0), qb.pop(0)
        if type(x) is not type(y):
            return "type:" + type(x).__name__
        for node in (x, y):
            if any(k.parent is not node for k in node.iter_expressions()):
                return "missing-parent-link:" + type(node).__name__  # the C08 link invariant fails on an input
        ix = [(k.arg_key, k.this, bool(k.args.get("quoted"))) for k in x.iter_expressions() if is_ident(k)]
        iy = [(k.arg_key, k.this, bool(k.args.get("quoted"))) for k in y.iter_expressions() if is_ident(k)]
        if ix != iy:
            return "ident-child:" + ("updatable" if isinstance(x, D.UPDATABLE_EXPRESSION_TYPES) else "non-updatable")
        lx, ly = dict(D._get_non_expression_leaves(x)), dict(D._get_non_expression_leaves(y))
        if lx != ly:
            low = lambda d: {k: (v.lower() if isinstance(v, str) else v) for k, v in d.items()}
            truthy = lambda d: {k: v for k, v in d.items() if not (v is False or v == [])}
            if truthy(lx) == truthy(ly):
                return "leaf-falsy:" + type(x).__name__  # False / [] on one side, absent on the other
            return ("leaf-case:" if low(lx) == low(ly) else "leaf-value:") + type(x).__name__
        cx = [k for k in x.iter_expressions() if not is_ident(k)]
        cy = [k for k in y.iter_expressions() if not is_ident(k)]
        if [k.arg_key for k in cx] != [k.arg_key for k in cy]:
            return "arg-key:" + type(x).__name__
        qa += cx
        qb += cy
    return "shape" if qa or qb else "none"


def materialise(s, t, kw):
    """the pair a case is about: `_mode` copy / copy-rev / reparse derive the second tree from the first"""
    mode = (kw or {}).get("_mode")
    if mode == "copy":
        return s, s.copy()
    if mode == "copy-rev":
        return s.copy(), s
    if mode == "reparse":
        d = (kw or {}).get("read")
        return s, parse(s.sql(dialect=d), d)
    return s, t


def oracle(src, tgt, pre_idx=(), share=None, kw=None):
    """The property's statement on the real sqlglot.diff. Returns a list of (kind, detail); empty = holds.
    share: None | "same" (target IS source)
           | ["s2t", i, j] (or legacy (i, j)): target walk node j is replaced by the SOURCE's node object i (attached to the target last)
           | ["t2s", i, j]: source walk node i is replaced by the TARGET's node object j (attached to the source last:
             the shared object's .parent then lies in the source tree)."""
    _, exp, D = sg()
    kw = dict(kw or {})
    kw.pop("read", None)
    kw.pop("_mode", None)
    prehash = kw.pop("_prehash", None)
    out = []
    if share == "same":
        tgt = src
    elif share:
        mode, si, tj = (share if len(share) == 3 else ("s2t", share[0], share[1]))
        sw, tw = list(src.walk()), list(tgt.walk())
        if si >= len(sw) or tj >= len(tw):
            return out
        if mode == "s2t":
            if tj == 0:
                return out
            tw[tj].replace(sw[si])
        else:
            if si == 0:
                return out
            sw[si].replace(tw[tj])
    sw, tw = list(src.walk()), list(tgt.walk())
    pre = [(sw[i], tw[j]) for i, j in pre_idx if i < len(sw) and j < len(tw)]
    shared = bool({id(n) for n in sw} & {id(n) for n in tw}) or len({id(n) for n in sw}) != len(sw)
    # inputs that arrive with cached hashes (whole tree or a sub-tree) must leave with exactly the same caches
    if prehash in ("src", "both"):
        hash(src)
    if prehash in ("tgt", "both"):
        hash(tgt)
    if prehash == "partial" and len(sw) > 1:
        hash(sw[len(sw) // 2])
    fp0 = (fingerprint(src), fingerprint(tgt))
    fs0 = (fingerprint(src, False), fingerprint(tgt, False))
    try:
        full = D.diff(src, tgt, matchings=list(pre) or None, **kw)
        delta = D.diff(src, tgt, matchings=list(pre) or None, delta_only=True, **kw)
    except Exception as e:  # noqa
        return [("exception", f"diff raised {type(e).__name__}: {str(e)[:80]}")]
    if (fingerprint(src), fingerprint(tgt)) != fp0:
        if (fingerprint(src, False), fingerprint(tgt, False)) != fs0:
            out.append(("mutated-input", "diff changed an input tree (structure, payload or parent links): structure"))
        else:
            out.append(("mutated-input", "diff left cached _hash values on the input trees: hash-cache"
                        + ("-shared" if shared else "") + ("-pre" if pre else "-nopre")))
    # positions of the nodes the edits talk about (the edits refer to copies when the inputs share nodes)
    spos = {id(n): i for i, n in enumerate(sw)}
    tpos = {id(n): i for i, n in enumerate(tw)}
    cache = {}

    def where(node, side):
        base = spos if side == "s" else tpos
        if not shared or id(node) in base:
            # the edit talks about an input node itself (no copy was made of that tree)
            return base.get(id(node))
        r = node.root()
        if id(r) not in cache:
            cache[id(r)] = {id(c): i for i, c in enumerate(r.walk())}
        return cache[id(r)].get(id(node))

    cs = [0] * len(sw)
    ct = [0] * len(tw)
    for e in full:
        if isinstance(e, D.Remove):
            p = where(e.expression, "s")
            if p is None or p >= len(cs):
                out.append(("foreign-node", "Remove of a node that is not in the source"))
            else:
                cs[p] += 1
        elif isinstance(e, D.Insert):
            p = where(e.expression, "t")
            if p is None or p >= len(ct):
                out.append(("foreign-node", "Insert of a node that is not in the target"))
            else:
                ct[p] += 1
        else:
            if type(e.source) is not type(e.target):
                out.append(("type-mismatch", f"{type(e).__name__} pairs {type(e.source).__name__} with {type(e.target).__name__}"))
            if isinstance(e, (D.Keep, D.Update)):
                p, q = where(e.source, "s"), where(e.target, "t")
                if p is None or q is None or p >= len(cs) or q >= len(ct):
                    out.append(("foreign-node", "Keep/Update of a node outside the trees"))
                else:
                    cs[p] += 1
                    ct[q] += 1
    for side, walk, cnt in (("source", sw, cs), ("target", tw, ct)):
        for n, c in zip(walk, cnt):
            want = 0 if is_ident(n) else 1
            if c != want:
                out.append((f"partition-{side}", f"{type(n).__name__} node appears {c} time(s) as removed/inserted/kept/updated, expected {want}"))
                break
    # delta_only is the full script minus Keep
    def key(e):
        if isinstance(e, D.Remove):
            return ("Remove", where(e.expression, "s"))
        if isinstance(e, D.Insert):
            return ("Insert", where(e.expression, "t"))
        return (type(e).__name__, where(e.source, "s"), where(e.target, "t"))

    if sorted(map(repr, (key(e) for e in full if not isinstance(e, D.Keep)))) != sorted(map(repr, (key(e) for e in delta))):
        out.append(("delta-inconsistent", "delta_only=True is not the full script minus Keep edits"))
    if any(isinstance(e, D.Keep) for e in delta):
        out.append(("delta-inconsistent", "delta_only=True contains Keep"))
    equal = src == tgt
    clear_hashes(src, tgt)
    if not delta and not equal:
        out.append(("empty-unequal", "delta is empty although source != target: " + local_cause(src, tgt)))
    identity_pre = len(sw) == len(tw) and all(i == j for i, j in pre_idx)
    if equal and delta and (not pre or identity_pre):
        cause = local_cause(src, tgt)
        if pre and cause == "none":
            cause = "identity-pre"  # equal trees, caller matchings pair each node with its own twin
        out.append(("equal-nonempty", f"source == target but delta has {len(delta)} edit(s): " + cause))
    return out


def copy_oracle(tree, kw=None):
    _, _, D = sg()
    kw = {k: v for k, v in (kw or {}).items() if k not in ("read", "_prehash", "_mode")}
    try:
        fp0 = fingerprint(tree)
        d = D.diff(tree, tree.copy(), delta_only=True, **kw)
        if fingerprint(tree) != fp0:
            return [("mutated-input", "diff(t, t.copy()) changed t: structure")]
    except Exception as e:  # noqa
        return [("exception", f"diff(t, t.copy()) raised {type(e).__name__}")]
    return [("copy-nonempty", f"diff(t, t.copy(), delta_only=True) has {len(d)} edit(s)")] if d else []


# ---- minimisation on the AST (generic: drop list elements / optional args / hoist children)
def shrink_candidates(root):
    nodes = list(root.walk())
    for pi, n in enumerate(nodes):
        for k, v in list(n.args.items()):
            if isinstance(v, list) and v:
                for i in range(len(v)):
                    yield ("droplist", pi, k, i)
            elif hasattr(v, "args") and hasattr(v, "parent"):
                yield ("droparg", pi, k, 0)
        if pi > 0:
            for ci, _ in enumerate(n.iter_expressions()):
                yield ("hoist", pi, None, ci)
    for ci, _ in enumerate(root.iter_expressions()):
        yield ("root", 0, None, ci)


def apply_shrink(root, cand):
    kind, pi, k, i = cand
    r = root.copy()
    nodes = list(r.walk())
    n = nodes[pi]
    if kind == "droplist":
        lst = list(n.args[k])
        lst.pop(i)
        n.set(k, lst)
    elif kind == "droparg":
        n.set(k, None)
    elif kind == "hoist":
        child = list(n.iter_expressions())[i]
        n.replace(child.copy())
    elif kind == "root":
        r = list(r.iter_expressions())[i].copy()
        r.parent = None
    return r


def minimise(src, tgt, still_bad, budget_s=8.0):
    t0 = time.time()
    changed = True
    while changed and time.time() - t0 < budget_s:
        changed = False
        for which in (0, 1, 2):
            pair = [src, tgt]
            if which == 2:
                # same shrink on both trees (keeps edited pairs aligned)
                cands = list(shrink_candidates(src))
            else:
                cands = list(shrink_candidates(pair[which]))
            for c in cands:
                if time.time() - t0 > budget_s:
                    break
                try:
                    if which == 2:
                        ns, nt = apply_shrink(src, c), apply_shrink(tgt, c)
                    else:
                        ns, nt = (apply_shrink(src, c), tgt) if which == 0 else (src, apply_shrink(tgt, c))
                    if still_bad(ns, nt):
                        src, tgt = ns, nt
                        changed = True
                        break
                except Exception:  # noqa
                    continue
            if changed:
                break
    return src, tgt


def skeleton(root) -> str:
    _, exp, _ = sg()

    def go(n):
        if isinstance(n, exp.Identifier):
            return "id"
        if isinstance(n, exp.Literal):
            return "lit"
        kids = [go(k) for k in n.iter_expressions()]
        return type(n).__name__ + ("(" + ",".join(kids) + ")" if kids else "")

    return go(root)


def dump_tree(root):
    from sqlglot.serde import dump

    return dump(root)


def load_tree(payload):
    from sqlglot.serde import load

    return load(payload)


def report(chk, kind, detail, src, tgt, pre_idx, share, kw, sql=None):
    """minimise (for plain pairs) and report"""
    cause = detail.rsplit(": ", 1)[-1] if kind in ("empty-unequal", "equal-nonempty", "mutated-input") else ""
    known_classes = chk.cov.setdefault("_known_classes", [])
    if [kind, cause] in known_classes:
        chk.count("search:repeat-of-known-class")
        return  # same class as a finding already matched to a known entry in this run: no need to minimise it again
    n_known = len(chk.known_hits)
    if not pre_idx and not share:
        def still_bad(a, b):
            # judged on what a replay will load (serde round trip), so a minimised case always replays
            res = oracle(*materialise(load_tree(dump_tree(a)), load_tree(dump_tree(b)), kw), (), None, kw)
            return any(k == kind and (not cause or d.endswith(cause)) for k, d in res)

        orig = (src.copy(), tgt.copy())
        try:
            if still_bad(src, tgt):
                src, tgt = minimise(src.copy(), tgt.copy(), still_bad, chk.pick(6.0, 20.0))
        except Exception:  # noqa
            src, tgt = orig
        res = [d for k, d in oracle(*materialise(load_tree(dump_tree(src)), load_tree(dump_tree(tgt)), kw), (), None, kw) if k == kind]
        if res:
            detail = res[0]
        else:
            src, tgt = orig  # keep the case exactly as found
    key = kind + (":" + cause if cause else "") + ("|share-" + (share if isinstance(share, str) else str(share[0] if len(share) == 3 else "s2t")) if share else "") \
        + "|" + skeleton(src) + "|" + skeleton(tgt)
    try:
        ssql, tsql = src.sql(), tgt.sql()
    except Exception:  # noqa
        ssql = tsql = None
    chk.report_violation(key, detail, {"kind": kind, "src": dump_tree(src), "tgt": dump_tree(tgt), "src_sql": ssql, "tgt_sql": tsql,
                                        "pre": [list(p) for p in pre_idx], "share": share, "kw": kw,
                                        # the statements as parsed (a serialised tree is rebuilt by serde.load, which
                                        # need not reproduce what the PARSER built, e.g. missing parent links)
                                        "parse": {"a": sql[0], "b": sql[1], "read": (kw or {}).get("read")} if sql else None},
                         context={"kind": kind, "cause": cause})
    if len(chk.known_hits) > n_known:
        known_classes.append([kind, cause])


def share_levels(walk):
    root = walk[0]
    lv = {"clause": [], "projection": [], "inner": [], "leaf": []}
    for i, n in enumerate(walk):
        if i == 0:
            continue
        if not any(True for _ in n.iter_expressions()):
            lv["leaf"].append(i)
        elif n.parent is root and n.arg_key == "expressions":
            lv["projection"].append(i)
        elif n.parent is root:
            lv["clause"].append(i)
        else:
            lv["inner"].append(i)
    return lv


def pick_share(rng, a, b):
    """a shared-node scenario: which tree donates the object (both attachment orders), at which depth"""
    try:
        sw, tw = list(parse(a).walk()), list(parse(b).walk())
    except Exception:  # noqa
        return None, None
    mode = rng.choice(["s2t", "t2s", "t2s"])
    ls, lt = share_levels(sw), share_levels(tw)
    level = rng.choice([k for k in ls if ls[k]] or ["leaf"])
    if not ls[level]:
        return None, None
    i = rng.choice(ls[level])
    if a == b:
        j = i  # the same position of an equal tree: the trees stay equal
    else:
        same = [k for k in lt[level] if type(tw[k]) is type(sw[i])]
        pool = same if same and rng.random() < 0.7 else lt[level]
        if not pool:
            return None, None
        j = rng.choice(pool)
    return [mode, i, j], level


SHARE_TEMPLATES = [
    # equal trees sharing one object, both attachment orders, clause / projection / inner / leaf level
    ("SELECT a, b FROM t WHERE a = 1 AND b > 2", "SELECT a, b FROM t WHERE a = 1 AND b > 2"),
    ("SELECT a + 1 AS x, FOO(b, c) FROM t JOIN u ON t.a = u.a WHERE c IN (1, 2) ORDER BY a LIMIT 5",
     "SELECT a + 1 AS x, FOO(b, c) FROM t JOIN u ON t.a = u.a WHERE c IN (1, 2) ORDER BY a LIMIT 5"),
    # unequal remaining trees
    ("SELECT a, b FROM t WHERE a = 1", "SELECT a, c, b FROM t WHERE a = 1"),
    ("SELECT a FROM t WHERE x > 1 GROUP BY a", "SELECT a, a FROM u WHERE x > 1 GROUP BY a HAVING a > 0"),
]


def share_template_cases():
    out = []
    for a, b in SHARE_TEMPLATES:
        try:
            sw, tw = list(parse(a).walk()), list(parse(b).walk())
        except Exception:  # noqa
            continue
        ls, lt = share_levels(sw), share_levels(tw)
        for level in ("clause", "projection", "inner", "leaf"):
            for i in ls[level][:2]:
                js = [i] if a == b else [k for k in lt[level] if type(tw[k]) is type(sw[i])][:1]
                for j in js:
                    for mode in ("s2t", "t2s"):
                        out.append((a, b, [], [mode, i, j], {}))
                        out.append((a, b, [(0, 0)], [mode, i, j], {}))
    return out


def search(chk: Check, hints: list, budget_s: float) -> None:
    rng = chk.rng
    t0 = time.time()
    tried = found = 0
    todo = [(a, b, [], None, {}) for a, b in CORPUS_SQL]
    for h in hints[:25]:
        hk = {"f": h["f"], "t": h["t"][0] / h["t"][1]}
        if h.get("read"):
            hk["read"], hk["dialect"] = h["read"], h["read"]
        if h.get("mode"):
            hk["_mode"] = h["mode"]
        todo.append((h["src"], h["tgt"], [tuple(p) for p in h["pre"]], None, hk))
    corpus_dir = os.path.join(os.path.dirname(os.path.dirname(os.path.dirname(os.path.abspath(__file__)))), "corpus", "C20")
    if os.path.isdir(corpus_dir):
        for fn in sorted(os.listdir(corpus_dir)):
            if fn.endswith(".json"):
                r = json.load(open(os.path.join(corpus_dir, fn)))
                todo.append((r["src_sql"], r["tgt_sql"], [tuple(p) for p in r.get("pre", [])], r.get("share"), r.get("kw", {})))

    todo += share_template_cases()
    _, _, D = sg()

    def consider(a, b, pre_idx, share, kw):
        nonlocal tried, found
        tried += 1
        read = (kw or {}).get("read")
        try:
            src, tgt = materialise(parse(a, read), parse(b, read), kw)
        except Exception:  # noqa
            chk.count("search:unparseable")
            return
        # caller matchings must pair nodes of the same type (anything else makes "paired nodes have the same type" the caller's fault)
        sw0, tw0 = list(src.walk()), list(tgt.walk())
        pre_idx = [(i, j) for i, j in pre_idx if i < len(sw0) and j < len(tw0) and D._is_same_type(sw0[i], tw0[j])
                   and not is_ident(sw0[i])]
        with Tap() as tap:
            res = oracle(src, tgt, pre_idx, share, kw)
        if any(k in (kw or {}) for k in ("dialect", "read")):
            chk.count("search:dialect=" + str((kw or {}).get("dialect")) + "/read=" + str(read))
            if tap.inner_dice:
                chk.count("search:dialect-case-with-inner-node-dice")
        if not share and not pre_idx and not (kw or {}).get("_mode"):
            res += copy_oracle(parse(a, read), kw)
        chk.count("search:" + (("share-" + (share if isinstance(share, str) else share[0] if len(share) == 3 else "s2t")
                                 + ("-equal" if a == b else "")) if share else "pre" if pre_idx else "plain"))
        seen = set()
        for kind, detail in res:
            if kind in seen:
                continue
            seen.add(kind)
            found += 1
            if kind == "copy-nonempty":
                s1 = parse(a, read)
                report(chk, kind, detail, s1, s1.copy(), (), None, kw, sql=(a, a))
            else:
                # fresh, unshared trees for minimisation / replay payload
                report(chk, kind, detail, parse(a, read), parse(b, read), tuple(pre_idx), share, kw, sql=(a, b))

    for item in todo:
        if len(chk.violations) >= 3 or time.time() - t0 > 2 * budget_s:
            break
        consider(*item)
    # deterministic first: every generator-rewritten construct, every diff dialect family, band pairs
    # single-argument perturbation sweep: every (Expression class, non-expression argument) of the parsed corpus x the
    # nine scalar value classes; `==` must agree with emptiness of the delta
    t_sw = time.time()
    n_sw = n_skip = 0
    for d, q, pos, arg, cls_name, masked in perturbation_plan(chk):
        try:
            cur = value_class(list(parse(q, d).walk())[pos].args.get(arg, ABSENT))
        except Exception:  # noqa
            continue
        for vname, _v in SCALAR_VALUES:
            if vname == cur or len(chk.violations) >= 3:
                continue
            if {vname, cur} == {"zero", "empty-str"}:
                chk.count("search:perturbations-skipped-hash-collision")  # hash(0) == hash(""): Expr.__eq__ is hash-based (assumption A-hash)
                continue
            res = perturb_oracle(d, q, pos, arg, vname)
            n_sw += 1
            if res == "skip":
                n_skip += 1
            elif res:
                kind, detail = res
                found += 1
                t1, t2 = perturb_case(d, q, pos, arg, vname)
                cause = f"scalar-arg:{cur}-vs-{vname}"
                chk.report_violation(f"{kind}:{cause}|{cls_name}.{arg}" + ("|masked" if masked else ""),
                                     f"{detail}: {cls_name}.{arg} is {cur} in the source and {vname} in the target",
                                     {"kind": "perturb", "read": d, "sql": q, "pos": pos, "arg": arg, "value": vname,
                                      "src": dump_tree(t1), "tgt": dump_tree(t2), "src_sql": q, "tgt_sql": None},
                                     context={"kind": kind, "cause": cause})
    # identifier perturbations: rename ONE Identifier (also one of several in the same list argument: USING (a, b),
    # alias column lists, INSERT column lists): the trees become unequal, so the delta must not be empty
    seen_ident = {}
    extra = [(None, "SELECT a FROM t JOIN u USING (a, b)"), (None, "SELECT x FROM (SELECT 1, 2) AS s(a, b)"),
             (None, "WITH c(a, b) AS (SELECT 1, 2) SELECT a FROM c"), (None, "INSERT INTO t (a, b) VALUES (1, 2)"),
             (None, "SELECT a.b.c.d.e FROM t"), (None, "CREATE TABLE t (a INT, b TEXT, PRIMARY KEY (a, b))")]
    for d, q in extra + dialect_corpus():
        try:
            nodes_q = list(parse(q, d).walk())
        except Exception:  # noqa
            continue
        for pos, nd in enumerate(nodes_q):
            if not is_ident(nd) or nd.parent is None or len(chk.violations) >= 3:
                continue
            sib = sum(1 for k in nd.parent.iter_expressions() if is_ident(k) and k.arg_key == nd.arg_key)
            key = (type(nd.parent).__name__, nd.arg_key, min(sib, 2), nd.index if sib > 1 else 0)
            if seen_ident.get(key, 0) >= chk.pick(1, 3):
                continue
            seen_ident[key] = seen_ident.get(key, 0) + 1
            res = perturb_oracle(d, q, pos, "__ident__", "str")
            n_sw += 1
            if res == "skip":
                n_skip += 1
            elif res:
                kind, detail = res
                found += 1
                t1, t2 = perturb_case(d, q, pos, "__ident__", "str")
                cause = "ident-rename" + ("-in-list" if sib > 1 else "")
                chk.report_violation(f"{kind}:{cause}|{key[0]}.{key[1]}",
                                     f"{detail}: one Identifier under {key[0]}.{key[1]} renamed ({sib} identifier(s) in that argument)",
                                     {"kind": "perturb", "read": d, "sql": q, "pos": pos, "arg": "__ident__", "value": "str",
                                      "src": dump_tree(t1), "tgt": dump_tree(t2), "src_sql": q, "tgt_sql": None},
                                     context={"kind": kind, "cause": cause})
    chk.count("search:ident-perturbation-sites", sum(seen_ident.values()))
    chk.count("search:perturbations", n_sw)
    chk.count("search:perturbations-unrenderable", n_skip)
    chk.cov.setdefault("perturbation", {})["seconds"] = round(time.time() - t_sw, 1)
    # PARSED statements of every dialect's distinctive constructs: tree vs its copy (both directions, must be all-Keep),
    # tree vs the re-parse of its own SQL, pairs of statements of one dialect (partition / inputs unchanged)
    dc = dialect_corpus()
    for i, (d, q) in enumerate(dc):
        for mode in ("copy", "copy-rev", "reparse"):
            if len(chk.violations) < 3:
                consider(q, q, [], None, {"read": d, "dialect": d, "_mode": mode})
                chk.count("search:corpus-" + mode)
        d2, q2 = dc[(i + 1) % len(dc)]
        if d2 == d and (i % 3 == 0 or not chk.quick) and len(chk.violations) < 3:
            consider(q, q2, [], None, {"read": d, "dialect": d})
            chk.count("search:corpus-pair")
    for read, tpl in DIALECT_TEMPLATES:
        for dd in (None, "tsql", read):
            names = ["a", "b", "c", "x", "y", "id"]
            for k in (2, 3, 4, 5):  # renaming 3-4 of 6 leaves puts the Select into the [0.4, 0.8) band
                p1 = ", ".join(names)
                p2 = ", ".join((n + "zz") if i < k else n for i, n in enumerate(names))
                kwd = {"read": read}
                if dd:
                    kwd["dialect"] = dd
                if len(chk.violations) < 3:
                    consider(tpl.format(p=p1, w="a > 1 AND b < 2"), tpl.format(p=p2, w="a > 1 AND b < 2"), [], None, kwd)
    while time.time() - t0 < budget_s and len(chk.violations) < 3:
        if rng.random() < 0.22:
            a, b, read, dd = gen_dialect_pair(rng)
            kw = {"read": read}
            if dd:
                kw["dialect"] = dd
            if rng.random() < 0.2:
                kw["_prehash"] = rng.choice(["src", "both", "partial"])
            consider(a, b, [], None, kw)
            chk.case(("search-dialect", a, b, read, dd), nontrivial=a != b)
            continue
        kind, a, b = gen_pair(rng)
        r = rng.random()
        pre_idx, share, kw = [], None, {}
        if r < 0.25:
            try:
                pre_idx = random_pre(rng, parse(a), parse(b))
            except Exception:  # noqa
                continue
        elif r < 0.29:
            share = "same"
        elif r < 0.50:
            # shared node objects, both attachment orders, several depths, equal and unequal remaining trees
            if rng.random() < 0.45:
                b = a
            share, level = pick_share(rng, a, b)
            if share is None:
                continue
            chk.count("share-level:" + level)
            if rng.random() < 0.4:
                pre_idx = [(0, 0)]
        if rng.random() < 0.2:
            kw = {"f": rng.choice(F_CHOICES), "t": float(rng.choice(T_CHOICES))}
        if rng.random() < 0.15:
            kw["_prehash"] = rng.choice(["src", "tgt", "both", "partial"])
        consider(a, b, pre_idx, share, kw)
        chk.case(("search", a, b, tuple(pre_idx), share, tuple(sorted(kw.items()))), nontrivial=a != b)
    chk.search_info = {"ran": True, "budget_s": budget_s, "pairs": tried, "violating": found,
                       "oracle": "partition of non-identifier nodes, paired nodes same type, diff(t,t.copy()) empty, delta empty <=> equal, "
                                 "delta_only == full minus Keep, inputs unchanged incl. _hash caches"}


# ------------------------------------------------------------------------------------------ entry points
def run(chk: Check) -> None:
    import logging

    logging.getLogger("sqlglot").setLevel(logging.CRITICAL)  # generator warnings for cross-dialect rendering are expected
    chk.trusted.append("C20: hand-written model Model/Diff.lean of ChangeDistiller.{diff,_compute_leaf_matching_set,_compute_matching_set,"
                       "_generate_edit_script,_generate_move_edits}, _get_expression_leaves, _parent_similarity_score, _lcs, Expr.bfs; "
                       "the harness-side encoding of trees (equality / leaf-dict / same-type classes computed with the real == )")
    chk.assumptions += [
        "the dice coefficient is an oracle: the model is fed the order-preserving rank of every float the real _dice_coefficient returned (tapped per run; the code only compares these values); SQL generation and bigram counting are not modelled",
        "Expr.__eq__ / dict equality of non-expression leaves / _is_same_type are shipped as equivalence-class numbers computed by the real code",
        "leaf-similarity thresholds are compared as exact rationals (0.8=4/5, 0.4=2/5, t=p/q); equal to the float comparison for fewer than 2^50 leaves",
        "set iteration order is not modelled: matching sets and edit scripts are compared as sorted multisets",
        "Expr.__eq__ is hash-based: guaranteed hash collisions between distinct scalars (hash(0) == hash('')) are outside the oracle (assumption A-hash)",
        "theorems assume what diff() establishes by copying: node ids unique within and across the two trees; caller matchings injective, inside the trees, on non-identifier nodes",
        "diff()'s wrapper is modelled on an arena (Wrapper.runDiff) with its shape extracted by the translator; compute_node_mappings (matchings translated to the copies) is covered by the search oracle only",
        "DiceOk (0<=dice<=1, equal rendered text => 1, dice(a,a)=1, symmetry sampled) and EqcCongr (structural congruence of Expr.__eq__) are axiomatisations validated on every shipped pair, not proved",
        "Tree.wf (distinct objects, leaves of a node distinct and reachable, children know their parent and come later in BFS order, root is the only parentless node) is checked by the driver on every shipped tree and assumed by the tree-level theorems",
    ]
    chk.write_generated(translate(chk))
    proved = chk.prove(MODULES, "Properties.C20", THEOREMS)
    hints = []
    try:
        hints = correspond(chk)
        correspond_wrapper(chk)
    except HarnessError as e:
        if proved:
            raise
        chk.note(f"model driver unavailable ({e}); continuing with the search on the real code")
    budget = chk.pick(12, 180)
    if chk.broken:
        budget *= 3
    search(chk, hints, budget)


def replay(path: str) -> int:
    import sys

    sys.path.insert(0, REPO)
    rec = json.load(open(path))
    r = rec.get("replay")
    if not r:
        print(json.dumps(rec, indent=1)[:4000])
        return 1
    if r.get("kind") == "perturb":
        res = perturb_oracle(r["read"], r["sql"], r["pos"], r["arg"], r["value"])
        print("replay:", f"VIOLATES: {res[0]}: {res[1]} ({r['arg']} := {r['value']} at walk position {r['pos']} of {r['sql']!r})"
              if res and res != "skip" else "holds")
        return 1 if res and res != "skip" else 0
    share = r.get("share")
    share = list(share) if isinstance(share, (list, tuple)) else share
    kw = r.get("kw") or {}

    def run_on(src, tgt):
        if r["kind"] == "copy-nonempty" or (r["kind"] == "mutated-input" and r.get("what_copy")):
            return copy_oracle(src, kw)
        src, tgt = materialise(src, tgt, kw)
        return list(oracle(src, tgt, [tuple(p) for p in r.get("pre", [])], share, kw))

    res = run_on(load_tree(r["src"]), load_tree(r["tgt"]))
    if not [x for x in res if x[0] == r["kind"]] and r.get("parse"):
        pz = r["parse"]
        res = run_on(parse(pz["a"], pz.get("read")), parse(pz["b"], pz.get("read")))
    res = [x for x in res if x[0] == r["kind"]] or res
    print("replay:", "VIOLATES: " + "; ".join(f"{k}: {d}" for k, d in res) if res else "holds")
    return 1 if res else 0
