"""C09 — Non-mutating APIs leave their arguments untouched and copies are independent (DESIGN.md §4 C09).

translate : the copy defaults the property rests on (ast): Generator.generate(copy=True) copies before printing,
            Expression.sql(copy=True), transform copies when copy, optimize() -> maybe_parse(copy=True), __deepcopy__
            carries `_hash` over before the arg loop  -> Generated/C09.lean (discharged by `generated_copy_defaults_ok`)
prove     : Properties/C09.lean over Model/Tree.lean: footprints of set/append/replace/pop, hash/== touch only caches,
            the frame theorem for regions, copy_equal_disjoint for the iterative __deepcopy__ (same abstraction, disjoint
            node sets, original untouched, new cells form a region), transform(copy=True) leaves every old cell untouched
correspond: histories "build, copy, then edit ONE side" on real Expression objects and on the Lean model (per-cell dumps
            after every op must agree); on the real side every cell of the other tree must stay byte-identical
search    : the property's own oracle on the REAL code
            * `fingerprint(tree)`: pre-order dump over an own arg walk (class, args, parent, arg_key, index, comments,
              _type, _meta) + `.sql()` + `repr()`; everything except `_hash` (hash caches may be filled by read-only calls)
            * a write monitor wrapped around Expression.set/append/replace/pop/_set_parent: while argument trees are
              "protected", any primitive called on / with one of their nodes is recorded with its sqlglot call site
            * calls: sql() over dialects and options, optimize, qualify/annotate of a copy, diff (incl. its hash-eviction
              contract), lineage, transform(copy=True), every builder with `copy=True` default (by inspect.signature) or
              documented to copy, read-only APIs;   oracle: fingerprint unchanged AND no monitored write
            * copy independence: t.copy() equal / disjoint / same fingerprint; random C08-style edit histories on one
              side never change the other side

Replay format: {"sql":…, "dialect":…, "sql2":…|null, "call": name, "args": {...}, "prep": {"prehash": bool, "annotate": bool}}
"""

from __future__ import annotations

import contextlib
import inspect
import json
import os
import sys
import time

from vf.core import Check, REPO, HarnessError
from vf.props import c08
from vf.props.c08 import SqlGen, nodes, structure, parse_quiet, shrink_sql, SCHEMA, SCHEMA_MIXED, TRANSFORMS

if REPO not in sys.path:
    sys.path.insert(0, REPO)

import sqlglot  # noqa: E402
from sqlglot import exp  # noqa: E402

MODULES = ["Model.Tree", "Proofs.Tree", "Proofs.TreeFrame", "Proofs.TreeCopy", "Proofs.TreeCopyShape", "Proofs.TreeWalk",
           "Proofs.TreeBuilders", "Generated.C09", "Properties.C09"]
_P = "SqlglotModel.Properties.C09."
THEOREMS = [_P + n for n in (
    "set_frame", "append_frame", "replace_frame", "hash_touches_only_caches", "eq_touches_only_caches",
    "frame_set", "frame_append", "frame_replace", "frame_pop", "copy_equal_disjoint", "copy_original_untouched",
    "transform_copy_pure", "expand_result_disjoint", "expand_nothing_to_do_still_copies", "expand_returns_through_the_copy",
    "builder_copy_both_pure", "where_and_cte_assemblies_in_region", "builders_thread_copy", "generate_overrides_pass_same_object",
    "generated_copy_defaults_ok", "copy_false_sites_allowed",
)]

Expr = exp.Expr
SG_DIR = os.path.dirname(os.path.abspath(sqlglot.__file__))
SCHEMAS = {"int": SCHEMA, "mixed": SCHEMA_MIXED}


# ------------------------------------------------------------------------------------------ fingerprint
FIELDS = ("class", "args", "parent", "arg_key", "index", "comments", "type", "meta")


def fingerprint(root, text=True):
    """everything observable about the tree except `_hash`; `mask` (which nodes have no cached hash) is kept apart"""
    order = nodes(root)
    num = {id(n): i for i, n in enumerate(order)}
    rows = []
    for n in order:
        args = []
        for k, v in n.args.items():
            if isinstance(v, Expr):
                args.append((k, "N", num.get(id(v))))
            elif isinstance(v, list):
                args.append((k, "L", tuple(("N", num.get(id(x))) if isinstance(x, Expr) else ("S", repr(x)) for x in v)))
            else:
                args.append((k, "S", repr(v)))
        p = n.parent
        parent = None if p is None else num[id(p)] if (n is not root and id(p) in num) else ("ext", id(p))
        rows.append((type(n).__name__, tuple(args), parent, n.arg_key, n.index,
                     None if n.comments is None else tuple(n.comments),
                     None if n._type is None else repr(n._type),
                     repr(n._meta) if n._meta else None))
    fp = {"rows": rows, "mask": tuple(n._hash is None for n in order), "hashes": tuple(n._hash for n in order), "sql": None, "repr": None}
    if text:
        try:
            fp["sql"] = root.sql()
        except Exception as e:  # noqa: BLE001
            fp["sql"] = "ERR:" + type(e).__name__
        try:
            fp["repr"] = repr(root)
        except Exception as e:  # noqa: BLE001
            fp["repr"] = "ERR:" + type(e).__name__
    return fp


def fp_diff(a, b):
    """kind of the first differing field, None if identical (hash caches not compared)"""
    if len(a["rows"]) != len(b["rows"]):
        return "shape"
    for ra, rb in zip(a["rows"], b["rows"]):
        for f, x, y in zip(FIELDS, ra, rb):
            if x != y:
                return f
    if a["sql"] != b["sql"]:
        return "sql"
    if a["repr"] != b["repr"]:
        return "repr"
    return None


# ------------------------------------------------------------------------------------------ write monitor
PRIMS = ("set", "append", "replace", "pop", "_set_parent")
_SKIP_FRAMES = set(PRIMS) | {"__init__"}


class Monitor:
    """wraps the tree-writing primitives of Expression (call-through, behaviour unchanged)"""

    def __init__(self):
        self.protected: set = set()
        self.keep: list = []
        self.events: list = []
        self.active = False
        self.installed: dict = {}

    def install(self):
        if self.installed:
            return
        cls = exp.Expression
        for name in PRIMS:
            orig = cls.__dict__.get(name)
            if orig is None:
                raise HarnessError(f"C09 monitor: Expression.{name} not found")
            self.installed[name] = orig
            setattr(cls, name, self._wrap(name, orig))

    def uninstall(self):
        for name, orig in self.installed.items():
            setattr(exp.Expression, name, orig)
        self.installed = {}

    def _wrap(self, name, orig):
        mon = self

        def wrapper(self, *a, **kw):
            if mon.active:
                mon.observe(name, self, a, kw)
            return orig(self, *a, **kw)

        wrapper.__name__ = name
        wrapper.__wrapped__ = orig
        return wrapper

    def observe(self, name, node, a, kw):
        prot = self.protected
        if name in ("set", "append", "_set_parent"):
            key = a[0] if a else kw.get("arg_key")
            val = a[1] if len(a) > 1 else kw.get("value")
        elif name == "replace":
            key, val = node.arg_key, (a[0] if a else kw.get("expression"))
        else:
            key, val = node.arg_key, None
        hit = None
        if id(node) in prot and (name not in ("replace", "pop") or node.parent is not None):
            hit = "self"
        else:
            for v in (val if isinstance(val, list) else [val]):
                if isinstance(v, Expr) and id(v) in prot and not (name == "replace" and node.parent is None):
                    hit = "value"
                    break
        if hit:
            self.events.append({"op": name, "on": type(node).__name__, "arg_key": key, "hit": hit, "site": _site()})

    @contextlib.contextmanager
    def protect(self, trees):
        self.protected = set()
        self.keep = []
        for t in trees:
            for n in nodes(t):
                self.protected.add(id(n))
                self.keep.append(n)
        self.events = []
        self.active = True
        try:
            yield self
        finally:
            self.active = False


def _site():
    """innermost 3 sqlglot frames of the current write, primitives themselves skipped: 'file:function'"""
    f = sys._getframe(3)
    out = []
    while f is not None and len(out) < 3:
        fn = f.f_code.co_filename
        if fn.startswith(SG_DIR):
            rel = os.path.relpath(fn, SG_DIR)
            if not (rel == os.path.join("expressions", "core.py") and f.f_code.co_name in _SKIP_FRAMES):
                out.append(rel + ":" + f.f_code.co_name)
        f = f.f_back
    return out or ["<harness>"]


MON = Monitor()


# ------------------------------------------------------------------------------------------ the calls
def _pick(t, at):
    """sub-node of the argument tree a call is applied to (the whole tree stays protected)"""
    if at == "root":
        return t
    if at == "where":
        w = next((n for n in nodes(t) if isinstance(n, exp.Where)), None)
        return w.this if w is not None else None
    if at == "proj":
        s = next((n for n in nodes(t) if isinstance(n, exp.Select) and n.args.get("expressions")), None)
        return s.args["expressions"][0] if s is not None else None
    cls = {"table": exp.Table, "col": exp.Column, "ident": exp.Identifier, "case": exp.Case, "join": exp.Join,
           "select": exp.Select, "query": exp.Query, "lit": exp.Literal}[at]
    return next((n for n in nodes(t) if isinstance(n, cls)), None)


class Call:
    def __init__(self, name, run, sig=None, doc=False, two=None, at=("root",), params=None, prepare=None, need=None):
        self.name, self.run, self.sig, self.doc, self.two = name, run, sig, doc, two
        self.at, self.params, self.prepare, self.need = at, params, prepare, need

    def included(self):
        """builders count only if their signature has copy=True by default, or they are documented to copy / read-only"""
        if self.sig is None or self.doc:
            return "documented"
        try:
            par = inspect.signature(self.sig).parameters.get("copy")
        except (TypeError, ValueError):
            return None
        return "signature" if par is not None and par.default is True else None


def _diff_prepare(t, o, p):
    k = p.get("other", "copy")
    if k == "copy":
        oth = t.copy()
    elif k == "mutated":
        oth = t.copy().transform(lambda n: TRANSFORMS["col2lit"](n, "a"), copy=False)
        sel = next((n for n in nodes(oth) if isinstance(n, exp.Select) and len(n.args.get("expressions") or []) > 1), None)
        if sel is not None:
            sel.args["expressions"][-1].pop()
    elif k == "same":
        oth = t
    else:
        oth = o if o is not None else t.copy()
    if p.get("prehash"):
        hash(t)
        hash(oth)
    return [t, oth]


def _lineage(a, p):
    from sqlglot.lineage import lineage
    t = a[0]
    names = list(getattr(t, "named_selects", []) or [])[:3]
    for nm in names:
        try:
            lineage(nm, t, schema=SCHEMAS[p.get("schema", "int")])
        except Exception:  # noqa: BLE001
            pass


def make_calls():
    from sqlglot.optimizer import optimize
    from sqlglot.optimizer.qualify import qualify
    from sqlglot.optimizer.annotate_types import annotate_types
    from sqlglot.diff import diff
    from sqlglot import serde

    C: list = []

    def add(name, run, **kw):
        C.append(Call(name, run, **kw))

    sch = lambda p: SCHEMAS[p.get("schema", "int")]  # noqa: E731
    Q = exp.Query
    S = exp.Select
    n0 = lambda a, p: _pick(a[0], p["at"])  # noqa: E731

    add("sql", lambda a, p: a[0].sql(dialect=p.get("d"), **p.get("opts", {})), sig=exp.Expr.sql)
    add("optimize", lambda a, p: optimize(a[0], schema=sch(p)), doc=True, need=Q)
    add("qualify_copy", lambda a, p: qualify(a[0].copy(), schema=sch(p)), doc=True, need=Q)
    add("annotate_copy", lambda a, p: annotate_types(a[0].copy(), schema=sch(p)), doc=True)
    add("diff", lambda a, p: diff(a[0], a[1], delta_only=bool(p.get("delta_only"))), doc=True, two="query", prepare=_diff_prepare)
    add("lineage", _lineage, doc=True, need=S)
    add("transform", lambda a, p: n0(a, p).transform(lambda n: TRANSFORMS[p["fun"]](n, p.get("arg", "a")), copy=True),
        sig=exp.Expr.transform, at=("root", "where", "proj"))
    # ---- Select builders (string / number arguments; the instance is the protected tree)
    sel = dict(at=("select",))
    add("select.select", lambda a, p: n0(a, p).select("x.a AS n1", "1 AS one", append=p.get("append", True)), sig=S.select, **sel)
    add("select.from_", lambda a, p: n0(a, p).from_("y AS yy"), sig=S.from_, **sel)
    add("select.join", lambda a, p: n0(a, p).join("z AS zz", on="zz.a = 1", join_type="left"), sig=S.join, **sel)
    add("select.group_by", lambda a, p: n0(a, p).group_by("1", "x.b", append=p.get("append", True)), sig=S.group_by, **sel)
    add("select.order_by", lambda a, p: n0(a, p).order_by("1 DESC", append=p.get("append", True)), sig=S.order_by, **sel)
    add("select.sort_by", lambda a, p: n0(a, p).sort_by("1"), sig=S.sort_by, **sel)
    add("select.cluster_by", lambda a, p: n0(a, p).cluster_by("1"), sig=S.cluster_by, **sel)
    add("select.limit", lambda a, p: n0(a, p).limit(3), sig=S.limit, **sel)
    add("select.offset", lambda a, p: n0(a, p).offset(2), sig=S.offset, **sel)
    add("select.distinct", lambda a, p: n0(a, p).distinct("a") if p.get("on") else n0(a, p).distinct(), sig=S.distinct, **sel)
    add("select.with_", lambda a, p: n0(a, p).with_("w", as_="SELECT 1 AS a"), sig=S.with_, **sel)
    add("select.with_expr", lambda a, p: n0(a, p).with_("w", as_=a[1]), sig=S.with_, two="query", **sel)
    add("select.where", lambda a, p: n0(a, p).where(a[1], append=p.get("append", True)), sig=S.where, two="cond", **sel)
    add("select.where_str", lambda a, p: n0(a, p).where("x.a = 1", "1 = 1"), sig=S.where, **sel)
    add("select.having", lambda a, p: n0(a, p).having(a[1], append=p.get("append", True)), sig=S.having, two="cond", **sel)
    add("select.qualify", lambda a, p: n0(a, p).qualify("1 = 1"), sig=S.qualify, **sel)
    add("select.window", lambda a, p: n0(a, p).window("w AS (PARTITION BY a)"), sig=S.window, **sel)
    add("select.lateral", lambda a, p: n0(a, p).lateral("EXPLODE(arr) tbl AS c9"), sig=S.lateral, **sel)
    add("select.hint", lambda a, p: n0(a, p).hint("BROADCAST(y)"), sig=S.hint, **sel)
    add("select.lock", lambda a, p: n0(a, p).lock(), sig=S.lock, **sel)
    add("select.ctas", lambda a, p: n0(a, p).ctas("newt"), sig=S.ctas, **sel)
    add("select.subquery", lambda a, p: n0(a, p).subquery("sq"), sig=S.subquery, **sel)
    add("select.union", lambda a, p: n0(a, p).union(a[1]), sig=S.union, two="query", **sel)
    add("select.except_", lambda a, p: n0(a, p).except_(a[1]), sig=S.except_, two="query", **sel)
    add("select.intersect", lambda a, p: n0(a, p).intersect(a[1]), sig=S.intersect, two="query", **sel)
    add("case.when", lambda a, p: n0(a, p).when("1 = 1", "2"), sig=exp.Case.when, at=("case",))
    add("case.else_", lambda a, p: n0(a, p).else_("3"), sig=exp.Case.else_, at=("case",))
    add("join.on", lambda a, p: n0(a, p).on("1 = 1", append=p.get("append", True)), sig=exp.Join.on, at=("join",))
    add("join.using", lambda a, p: n0(a, p).using("a"), sig=exp.Join.using, at=("join",))
    add("table.to_column", lambda a, p: n0(a, p).to_column(), sig=exp.Table.to_column, at=("table",))
    # ---- expression-level builders; the argument may be an attached sub-node (the whole tree is protected)
    sub = dict(at=("root", "where", "proj"))
    add("and_", lambda a, p: n0(a, p).and_(a[1], "1 = 1"), sig=exp.Expr.and_, two="cond", **sub)
    add("or_", lambda a, p: n0(a, p).or_(a[1]), sig=exp.Expr.or_, two="cond", **sub)
    add("not_", lambda a, p: n0(a, p).not_(), sig=exp.Expr.not_, **sub)
    add("as_", lambda a, p: n0(a, p).as_("k"), sig=exp.Expr.as_, **sub)
    add("between", lambda a, p: n0(a, p).between(a[1], "5"), sig=exp.Expr.between, two="expr", at=("proj", "where"))
    add("isin", lambda a, p: n0(a, p).isin(a[1], "3"), sig=exp.Expr.isin, two="expr", at=("proj", "where"))
    add("isin_query", lambda a, p: n0(a, p).isin(query=a[1]), sig=exp.Expr.isin, two="query", at=("proj", "where"))
    add("exp.and_", lambda a, p: exp.and_(n0(a, p), a[1]), sig=exp.and_, two="cond", **sub)
    add("exp.or_", lambda a, p: exp.or_(n0(a, p), a[1], "x"), sig=exp.or_, two="cond", **sub)
    add("exp.xor", lambda a, p: exp.xor(n0(a, p), a[1]), sig=exp.xor, two="cond", **sub)
    add("exp.not_", lambda a, p: exp.not_(n0(a, p)), sig=exp.not_, **sub)
    add("exp.condition", lambda a, p: exp.condition(n0(a, p)), sig=exp.condition, **sub)
    add("exp.alias_", lambda a, p: exp.alias_(n0(a, p), "k", table=bool(p.get("table"))), sig=exp.alias_, at=("root", "where", "proj", "table"))
    add("exp.paren", lambda a, p: exp.paren(n0(a, p)), sig=exp.paren, **sub)
    add("exp.cast", lambda a, p: exp.cast(n0(a, p), "int"), sig=exp.cast, at=("proj", "where", "lit"))
    add("exp.case", lambda a, p: exp.case(n0(a, p)), sig=exp.case, at=("proj", "lit"))
    add("exp.func", lambda a, p: exp.func("COALESCE", n0(a, p), a[1]), sig=exp.func, two="expr", at=("proj", "where", "lit"))
    add("exp.array", lambda a, p: exp.array(n0(a, p), a[1]), sig=exp.array, two="expr", at=("proj", "lit"))
    add("exp.tuple_", lambda a, p: exp.tuple_(n0(a, p), a[1]), sig=exp.tuple_, two="expr", at=("proj", "lit"))
    add("exp.subquery", lambda a, p: exp.subquery(n0(a, p), "q"), sig=exp.subquery, at=("query",))
    add("exp.union", lambda a, p: exp.union(n0(a, p), a[1]), sig=exp.union, two="query", at=("query",))
    add("exp.except_", lambda a, p: exp.except_(n0(a, p), a[1]), sig=exp.except_, two="query", at=("query",))
    add("exp.intersect", lambda a, p: exp.intersect(n0(a, p), a[1]), sig=exp.intersect, two="query", at=("query",))
    add("exp.insert", lambda a, p: exp.insert(n0(a, p), "tgt"), sig=exp.insert, at=("query",))
    add("exp.maybe_parse", lambda a, p: exp.maybe_parse(n0(a, p), copy=True), doc=True, **sub)
    add("exp.maybe_copy", lambda a, p: exp.maybe_copy(n0(a, p)), sig=exp.maybe_copy, **sub)
    add("exp.expand", lambda a, p: exp.expand(a[0], {"x": a[1], "y": a[1]}), sig=exp.expand, two="query")
    add("exp.replace_tables", lambda a, p: exp.replace_tables(a[0], {"x": "y2", "y": "c.d", "z": "x"}), sig=exp.replace_tables)
    add("exp.replace_placeholders", lambda a, p: exp.replace_placeholders(a[0], exp.to_identifier("q"), "v", p=1, tbl=exp.to_identifier("foo")), doc=True)
    add("exp.to_identifier", lambda a, p: exp.to_identifier(n0(a, p)), sig=exp.to_identifier, at=("ident",))
    add("exp.to_table", lambda a, p: exp.to_table(n0(a, p)), sig=exp.to_table, at=("table",))
    add("exp.to_column", lambda a, p: exp.to_column(n0(a, p)), sig=exp.to_column, at=("col",))
    add("exp.column", lambda a, p: exp.column(n0(a, p).this, table=n0(a, p).args.get("table")), sig=exp.column, at=("col",))
    add("exp.normalize_table_name", lambda a, p: exp.normalize_table_name(n0(a, p)), sig=exp.normalize_table_name, at=("table",))
    # ---- read-only APIs
    add("exp.table_name", lambda a, p: exp.table_name(n0(a, p), identify=bool(p.get("identify"))), doc=True, at=("table",))
    add("exp.column_table_names", lambda a, p: exp.column_table_names(a[0]), doc=True)
    add("exp.find_tables", lambda a, p: exp.find_tables(a[0]), doc=True)
    add("eq", lambda a, p: (a[0] == a[1], a[0] == a[0].copy(), a[0] != a[1]), doc=True, two="query")
    add("hash", lambda a, p: (hash(a[0]), hash(n0(a, p))), doc=True, **sub)
    add("repr", lambda a, p: (repr(a[0]), a[0].to_s(), str(a[0])), doc=True)
    add("walk", lambda a, p: (list(a[0].walk()), list(a[0].dfs()), list(a[0].find_all(exp.Column, bfs=False)), a[0].find(exp.Table)), doc=True)
    add("flatten", lambda a, p: [list(n.flatten()) for n in nodes(a[0])[:40]], doc=True)
    add("unnest", lambda a, p: [(n.unnest(), n.unalias(), n.unnest_operands()) for n in nodes(a[0])[:40]], doc=True)
    add("props", lambda a, p: [(n.alias_or_name, n.output_name, n.is_star, n.depth, n.root(), n.parent_select, n.text("this")) for n in nodes(a[0])[:40]]
        + [getattr(a[0], "named_selects", None), getattr(a[0], "selects", None)], doc=True)
    add("copy", lambda a, p: (a[0].copy(), n0(a, p).copy()), doc=True, **sub)
    add("serde.dump", lambda a, p: serde.load(serde.dump(a[0])), doc=True)
    return C


_CALLS = None


def calls():
    global _CALLS
    if _CALLS is None:
        _CALLS = {c.name: c for c in make_calls()}
    return _CALLS


PLACEHOLDER_SQL = ["SELECT * FROM :tbl WHERE a = ? AND b = :p", "SELECT ? AS c0, x.a FROM x WHERE x.b IN (?, :p)"]


def build_tree(sql, dialect, prep):
    from sqlglot.optimizer.annotate_types import annotate_types
    t = sqlglot.parse_one(sql, dialect=dialect)
    if prep.get("annotate"):
        try:
            t = annotate_types(t, schema=SCHEMAS[prep.get("schema", "int")])
        except Exception:  # noqa: BLE001
            pass
    if prep.get("prehash"):
        hash(t)
    return t


def _diff_mask_msg(before, after):
    """diff() contract: every hash it cached is evicted again (a previously cached hash may stay or be dropped)"""
    if len(before["hashes"]) != len(after["hashes"]):
        return None
    for hb, ha in zip(before["hashes"], after["hashes"]):
        if hb is None and ha is not None:
            return "hash-left-behind"
        if hb is not None and ha is not None and ha != hb:
            return "hash-changed"
    return None


def evaluate(case):
    """run one case from scratch. returns None (holds / not applicable) or (key, what)"""
    name = case["call"]
    if name == "copy-edit":
        return evaluate_copy(case)
    call = calls().get(name)
    if call is None:
        raise c08.UnknownOp(name)
    p = case.get("args") or {}
    prep = case.get("prep") or {}
    try:
        t = build_tree(case["sql"], case.get("dialect"), prep)
        o = build_tree(case["sql2"], None, {}) if case.get("sql2") else None
    except Exception:  # noqa: BLE001
        return None
    if call.need is not None and not isinstance(t, call.need):
        return None
    if "at" in p and _pick(t, p["at"]) is None:
        return None
    if call.two and o is None:
        return None
    args = call.prepare(t, o, p) if call.prepare else ([t, o] if call.two else [t])
    uniq = []
    for a in args:
        if not any(a is u for u in uniq):
            uniq.append(a)
    before = [fingerprint(a) for a in uniq]
    err = None
    with MON.protect(uniq):
        try:
            call.run(args, p)
        except c08.UnknownOp:
            raise
        except Exception as e:  # noqa: BLE001 - errors of the call are not this property's business
            err = type(e).__name__
    events = list(MON.events)
    after = [fingerprint(a) for a in uniq]
    d = (p.get("d") or "base") if name == "sql" else "-"
    kind = None
    what = ""
    if events:
        e = events[0]
        kind = f"write:{e['op']}@{e['site'][0]}"
        what = (f"{e['op']}() on a {e['on']} ({'the node' if e['hit'] == 'self' else 'an inserted value'} belongs to the argument tree) "
                f"from {' <- '.join(e['site'])}; {len(events)} monitored writes")
    for i, (b, a) in enumerate(zip(before, after)):
        f = fp_diff(b, a)
        if f:
            kind = kind or f
            what += f"{'; ' if what else ''}argument {i} changed: first difference in field '{f}'" + (
                f": {b['sql']!r} -> {a['sql']!r}" if b["sql"] != a["sql"] else "")
            break
    if kind is None and name == "diff":
        for i, (b, a) in enumerate(zip(before, after)):
            m = _diff_mask_msg(b, a)
            if m:
                kind, what = m, f"diff() left argument {i} with different hash caches ({m})"
                break
    if kind is None:
        return None
    label = f"{name}:{p.get('other', 'copy')}" if name == "diff" else name
    return f"call:{label}|{d}|{kind}", what + (f" (the call raised {err})" if err else "")


def evaluate_copy(case):
    """copy independence: t.copy() equal, disjoint, same fingerprint; editing one side leaves the other untouched"""
    p = case.get("args") or {}
    try:
        t = build_tree(case["sql"], case.get("dialect"), case.get("prep") or {})
    except Exception:  # noqa: BLE001
        return None
    res, _ = _copy_case(t, p.get("side", "copy"), p.get("ops", []), None, 0)
    return res


ANNOT_EDITS = ("comment", "comment-inplace", "meta", "type", "type-inplace", "pop-comments")


def _annot(w, op):
    """edits of the per-node annotations (comments / meta / type) of the edited side"""
    n = w.reg.get(op["t"])
    if n is None or id(n) not in w.live():
        return "skip"
    what = op["what"]
    try:
        if what == "comment":
            n.add_comments(["edited"], prepend=bool(op.get("prepend")))
        elif what == "comment-inplace":
            if n.comments is None:
                return "skip"
            n.comments.append("edited in place")
        elif what == "pop-comments":
            n.pop_comments()
        elif what == "meta":
            n.meta["edited"] = True
        elif what == "type":
            n.type = "TEXT"
        elif what == "type-inplace":
            if n._type is None:
                return "skip"
            n._type.set("nullable", True)
            n._type.append("expressions", exp.DataType.build("INT"))
        else:
            raise c08.UnknownOp(what)
    except c08.UnknownOp:
        raise
    except Exception as e:  # noqa: BLE001
        return "exc:" + type(e).__name__
    return "ok"


def _copy_case(t, side, ops, rng, n_gen, chk=None):
    """shared by search (generates `n_gen` ops with rng while executing) and replay (executes `ops`)"""
    ft = fingerprint(t)
    with MON.protect([t]):
        c = t.copy()
    if MON.events:
        e = MON.events[0]
        return (f"call:copy|-|write:{e['op']}@{e['site'][0]}", "copy() wrote into the original"), []
    fc = fingerprint(c)
    kind = None
    if fp_diff(ft, fingerprint(t)):
        kind = "orig-" + fp_diff(ft, fingerprint(t))
    elif {id(n) for n in nodes(c)} & {id(n) for n in nodes(t)}:
        kind = "shared"
    elif not (c == t) or c != t:
        kind = "neq"
    elif structure(c) != structure(t):
        kind = "structure"
    elif fp_diff(ft, fc):
        kind = fp_diff(ft, fc)
    else:
        for a, b in zip(nodes(t), nodes(c)):
            for attr in ("comments", "_type", "_meta"):
                if getattr(a, attr) is not None and getattr(a, attr) is getattr(b, attr):
                    kind = kind or "shared-" + attr.strip("_")
    if kind:
        return (f"call:copy|-|{kind}", f"copy of the tree differs from the original ({kind})"), []
    edited, kept = (c, t) if side == "copy" else (t, c)
    w = c08.World([], trees=[edited])
    fk = fingerprint(kept)
    done = []
    with MON.protect([kept]):
        for i in range(len(ops) if rng is None else n_gen):
            if rng is None:
                op = ops[i]
            elif rng.random() < 0.2:
                live = list(w.live().values())
                op = {"id": i, "op": "annot", "t": w.names[id(rng.choice(live))], "what": rng.choice(ANNOT_EDITS)}
            else:
                op = c08.gen_op(w, rng, i)
            done.append(op)
            if op["op"] == "annot":
                status, sig = _annot(w, op), "annot"
            else:
                status, _, sig = c08.step(w, op)
            if chk is not None and status == "ok":
                chk.count("op:" + sig.split("(")[0])
            if status.startswith("exc"):
                break
    events = list(MON.events)
    f = fp_diff(fk, fingerprint(kept))
    if events:
        e = events[0]
        return (f"call:copy-edit|-|write:{e['op']}@{e['site'][0]}",
                f"editing the {'copy' if side == 'copy' else 'original'} wrote into the other tree: {e['op']}() from {' <- '.join(e['site'])}"), done
    if f:
        return (f"call:copy-edit|-|{f}", f"editing the {'copy' if side == 'copy' else 'original'} changed the other tree (field '{f}')"), done
    return None, done


# ------------------------------------------------------------------------------------------ search
def minimise(case, key, deadline):
    def with_(**kw):
        c = dict(case)
        c.update(kw)
        return c

    def same(c):
        try:
            r = evaluate(c)
        except Exception:  # noqa: BLE001
            return False
        return bool(r) and r[0] == key

    if case["call"] == "copy-edit":
        ops = list(case["args"].get("ops", []))
        changed = True
        while changed and time.time() < deadline:
            changed = False
            for i in range(len(ops) - 1, -1, -1):
                cand = ops[:i] + ops[i + 1:]
                if same(with_(args={**case["args"], "ops": cand})):
                    ops, changed = cand, True
                    break
        case = with_(args={**case["args"], "ops": ops})
    for prep_key in ("annotate", "prehash"):
        if (case.get("prep") or {}).get(prep_key):
            cand = with_(prep={**case["prep"], prep_key: False})
            if same(cand):
                case = cand
    sql = shrink_sql(case["sql"], lambda s: same({**case, "sql": s}), deadline, case.get("dialect"))
    case = {**case, "sql": sql}
    if case.get("sql2"):
        sql2 = shrink_sql(case["sql2"], lambda s: same({**case, "sql2": s}), deadline)
        case = {**case, "sql2": sql2}
    return case


def report(chk: Check, case, res):
    key, what = res
    small = minimise(case, key, time.time() + 6)
    res2 = evaluate(small)
    if not res2 or res2[0] != key:
        small, res2 = case, res
    chk.report_violation(res2[0], res2[1], small, context={"call": case["call"]})


def gen_params(rng, call, dialects):
    p: dict = {}
    if call.name == "sql":
        p["d"] = rng.choice(dialects)
        opts = {}
        if rng.random() < 0.25:
            opts["pretty"] = True
        if rng.random() < 0.15:
            opts["normalize"] = True
        if rng.random() < 0.15:
            opts["identify"] = True
        if rng.random() < 0.1:
            opts["comments"] = False
        p["opts"] = opts
        return p
    if len(call.at) > 1 or call.at != ("root",):
        p["at"] = rng.choice(call.at)
    if call.name in ("optimize", "qualify_copy", "annotate_copy", "lineage"):
        p["schema"] = rng.choice(["int", "mixed"])
    if call.name == "diff":
        p.update(other=rng.choice(["copy", "mutated", "parsed", "same", "mutated"]), prehash=rng.random() < 0.3, delta_only=rng.random() < 0.3)
    if call.name == "transform":
        p.update(fun=rng.choice(sorted(TRANSFORMS)), arg=rng.choice(["a", "b", "c"]))
    if call.name in ("select.select", "select.group_by", "select.order_by", "select.where", "select.having", "join.on") and rng.random() < 0.3:
        p["append"] = False
    if call.name == "select.distinct" and rng.random() < 0.5:
        p["on"] = True
    if call.name == "exp.alias_" and p.get("at") == "table":
        p["table"] = True
    if call.name == "exp.table_name" and rng.random() < 0.5:
        p["identify"] = True
    return p



# ------------------------------------------------------------------------------------------ sub-nodes and leaf nodes
# The documented-to-copy generation entry points called directly on SUB-nodes / leaf nodes (attached or detached): DataType
# nodes incl. `.type` annotations, Literals, Identifiers, Columns, Stars, single function calls. Dialect generators rewrite a
# node's OWN args in place (e.g. Redshift/Hive `datatype_sql`) and rely on generate() having copied even a childless root.
SUB_ENTRIES = {
    "sql": lambda n, d: n.sql(dialect=d),
    "sql(pretty,identify)": lambda n, d: n.sql(dialect=d, pretty=True, identify=True),
    "Dialect.generate": lambda n, d: _dialect(d).generate(n),
    "Dialect.generate(opts)": lambda n, d: _dialect(d).generate(n, normalize=True, comments=False),
    "Generator.generate": lambda n, d: _dialect(d).generator().generate(n),
    "str": lambda n, d: str(n) + format(n, ""),
}


def _dialect(d):
    from sqlglot.dialects.dialect import Dialect
    return Dialect.get_or_raise(d)


_LEAVES = None


def leaf_specs():
    """deterministic list of (label, thunk) building small detached nodes"""
    global _LEAVES
    if _LEAVES is None:
        L = []
        for ty in exp.DataType.Type:
            L.append(("dtype:" + ty.name, (lambda ty=ty: exp.DataType(this=ty))))
        for txt in ("VARCHAR(10)", "CHAR(3)", "DECIMAL(10, 2)", "ARRAY<INT>", "MAP<TEXT, INT>", "STRUCT<a INT, b TEXT>",
                    "TIMESTAMP(3)", "VARCHAR(MAX)", "NUMERIC", "INT[]", "TEXT(5)", "NVARCHAR(20)", "DOUBLE PRECISION"):
            L.append(("dtype-build:" + txt, (lambda txt=txt: exp.DataType.build(txt))))
        L += [
            ("lit:num", lambda: exp.Literal.number("12")), ("lit:float", lambda: exp.Literal.number("1.50")),
            ("lit:str", lambda: exp.Literal.string("a'b\\c")), ("lit:neg", lambda: exp.Literal.number("-3")),
            ("ident", lambda: exp.to_identifier("Ab")), ("ident:q", lambda: exp.to_identifier("a b", quoted=True)),
            ("star", lambda: exp.Star()), ("col", lambda: exp.column("a")), ("col:t", lambda: exp.column("a", "T", "db")),
            ("col:star", lambda: exp.Column(this=exp.Star(), table=exp.to_identifier("t"))),
            ("null", lambda: exp.Null()), ("true", lambda: exp.Boolean(this=True)), ("var", lambda: exp.Var(this="x")),
            ("placeholder", lambda: exp.Placeholder(this="p")), ("table", lambda: exp.to_table("c.d.t")),
            ("interval", lambda: exp.Interval(this=exp.Literal.string("1"), unit=exp.Var(this="DAY"))),
        ]
        for fsql in ("CURRENT_DATE", "CURRENT_TIMESTAMP", "UPPER(a)", "COALESCE(a, b)", "CAST(a AS TEXT)", "CAST(a AS VARCHAR)",
                     "TRY_CAST(a AS TEXT)", "a::VARCHAR(MAX)", "DATE_ADD(a, 1)", "SUBSTRING(a, 1, 2)", "COUNT(DISTINCT a)", "IF(a, 1, 2)",
                     "DATE_TRUNC('month', a)", "STR_TO_DATE(a, '%Y')", "x -> x + 1", "ARRAY(1, 2)", "a IS NULL", "a || b",
                     "a / b", "a % b", "NOT a", "-a", "a LIKE 'x%'", "EXTRACT(year FROM a)", "a::DATE - b::DATE", "LOG(2, a)",
                     "SUM(a) OVER (PARTITION BY b)", "CASE WHEN a THEN 1 END", "CAST(a AS DECIMAL(10, 2))", "JSON_EXTRACT(a, '$.b')"):
            L.append(("expr:" + fsql, (lambda fsql=fsql: sqlglot.parse_one(fsql))))
        _LEAVES = L
    return _LEAVES


def _locate(case):
    """(old root, node) for a sub-node case"""
    a = case["args"]
    nd = a["node"]
    if nd["kind"] == "leaf":
        specs = dict(leaf_specs())
        node = specs[nd["label"]]()
        return node, node
    t = build_tree(case["sql"], case.get("dialect"), case["prep"])
    order = nodes(t)
    n = order[nd["i"]]
    if nd["kind"] == "type":
        n = n._type
        if n is None:
            raise c08.UnknownOp("no type annotation")
    if a.get("detached"):
        n = n.copy()
        return n, n
    return t, n


def evaluate_subnode(case):
    a = case["args"]
    root, node = _locate(case)
    if a.get("prehash"):
        hash(node)
    trees = [root] if node is root else [root, node]
    before = [fingerprint(x) for x in trees]
    ext = [x.parent for x in trees]
    err = None
    with MON.protect(trees) as mon:
        try:
            SUB_ENTRIES[a["entry"]](node, a["d"])
        except Exception as e:  # noqa: BLE001 — unsupported / internal errors are C05's business
            err = type(e).__name__
    after = [fingerprint(x) for x in trees]
    events = list(mon.events)
    what = None
    field = None
    for i, (b, f, x) in enumerate(zip(before, after, trees)):
        d = fp_diff(b, f)
        if d is None and ext[i] is not x.parent:
            d = "parent"
        if d is not None:
            field = d
            what = (f"{'the node itself' if x is node else 'the old root'} ({type(x).__name__}) changed: first difference in field "
                    f"{d!r}: {b['sql']!r} -> {f['sql']!r}")
            break
    if events and field is None:
        e = events[0]
        field = f"write:{e['op']}@{e['site'][0] if e['site'] else '?'}"
        what = f"{e['op']}() on a {e['on']} of the argument from {' <- '.join(e['site'])}"
    if field is None:
        return None
    kind = "type-annotation" if a["node"]["kind"] == "type" else ("detached" if node is root else "attached")
    key = f"call:subnode:{a['entry']}|{a['d'] or 'base'}|{type(node).__name__}:{kind}:{field}"
    return key, f"{a['entry']} in dialect {a['d']!r} on a {kind} {type(node).__name__} node ({err or 'returned'}): {what}; {len(events)} monitored writes"


def sweep_subnodes(chk: Check, gen, dialects, deadline, rng) -> int:
    """(1) every synthesized leaf x every dialect (entry points rotate; thorough: all of them);
       (2) sub-nodes and `.type` annotations of generated trees, attached and detached; DataType nodes over ALL dialects"""
    import logging
    logging.getLogger("sqlglot").setLevel(logging.ERROR)  # unsupported-feature warnings of the generators are not findings
    n = 0
    entries = list(SUB_ENTRIES)
    dialects = [None] + [d for d in dialects if d]

    def one(case):
        nonlocal n
        n += 1
        chk.count("call:subnode:" + case["args"]["entry"])
        chk.count("subnode:" + case["args"]["node"]["kind"])
        try:
            res = evaluate_subnode(case)
        except (c08.UnknownOp, IndexError):
            return
        chk.case(("subnode", json.dumps(case, sort_keys=True)), nontrivial=True, sample=case if n % 2999 == 1 else None)
        if res:
            # a smaller replay when the same verdict shows on a detached copy with the default entry point
            small = {**case, "args": {**case["args"], "detached": True, "prehash": False}}
            try:
                r2 = evaluate_subnode(small) if case["args"]["node"]["kind"] != "leaf" else None
            except Exception:  # noqa: BLE001
                r2 = None
            if r2 and r2[0] == res[0]:
                case = small
            chk.report_violation(res[0], res[1], case, context={"call": "subnode"})

    for li, (label, _) in enumerate(leaf_specs()):
        for di, d in enumerate(dialects):
            if len(chk.violations) >= 3:
                return n
            for e in (entries if not chk.quick else [entries[(li + di) % len(entries)]]):
                one({"call": "subnode", "sql": None, "dialect": None, "sql2": None, "prep": {},
                     "args": {"node": {"kind": "leaf", "label": label}, "entry": e, "d": d, "prehash": (li + di) % 5 == 0}})
    interesting = (exp.DataType, exp.Literal, exp.Identifier, exp.Column, exp.Star, exp.Func, exp.Cast, exp.Table, exp.Alias)
    while time.time() < deadline and len(chk.violations) < 3:
        sql = gen.query(rng.choice([0, 1, 1, 2]))
        prep = {"prehash": False, "annotate": rng.random() < 0.7, "schema": rng.choice(["int", "mixed"])}
        try:
            t = build_tree(sql, None, prep)
        except Exception:  # noqa: BLE001
            continue
        order = nodes(t)
        cand = [i for i, x in enumerate(order) if isinstance(x, interesting)] or list(range(len(order)))
        for _ in range(chk.pick(4, 10)):
            if time.time() > deadline:
                break
            i = rng.choice(cand)
            kind = "type" if (order[i]._type is not None and rng.random() < 0.45) else "pre"
            target = order[i]._type if kind == "type" else order[i]
            ds = dialects if isinstance(target, exp.DataType) or not chk.quick else rng.sample(dialects, 6)
            det = rng.random() < 0.4
            for d in ds:
                one({"call": "subnode", "sql": sql, "dialect": None, "sql2": None, "prep": prep,
                     "args": {"node": {"kind": kind, "i": i}, "detached": det, "entry": rng.choice(entries), "d": d,
                              "prehash": rng.random() < 0.2}})
                if len(chk.violations) >= 3:
                    return n
    return n



# ------------------------------------------------------------------------------------------ constructs whose printing mutates
# Generators rewrite some nodes IN PLACE while printing (unnest_sql moves WITH OFFSET into the alias, select_sql pops INTO,
# struct_sql replaces PropertyEQ children, datatype_sql …) and rely on generate(copy=True) having copied first. The list of
# such node classes is harvested from the source (ast); the non-mutating APIs are run over inputs that contain them.
def harvest_mutating():
    """{method name: [file:op, …]} for every generator / dialect-helper function with an `expression` parameter that calls
    expression.set/pop/replace/append or writes expression.args"""
    import glob
    files = [os.path.join(REPO, "sqlglot", "generator.py"), os.path.join(REPO, "sqlglot", "dialects", "dialect.py")]
    files += sorted(glob.glob(os.path.join(REPO, "sqlglot", "generators", "*.py")))
    out: dict = {}
    for f in files:
        try:
            tree = _ast.parse(open(f, encoding="utf-8").read())
        except (OSError, SyntaxError):
            continue
        for fn in _ast.walk(tree):
            if not isinstance(fn, _ast.FunctionDef) or "expression" not in [a.arg for a in fn.args.args]:
                continue
            hits = set()
            for n in _ast.walk(fn):
                if isinstance(n, _ast.Call) and isinstance(n.func, _ast.Attribute):
                    a = n.func
                    if a.attr in ("set", "pop", "replace", "append") and isinstance(a.value, _ast.Name) and a.value.id == "expression":
                        hits.add(a.attr)
                    if (a.attr == "pop" and isinstance(a.value, _ast.Attribute) and a.value.attr == "args"
                            and isinstance(a.value.value, _ast.Name) and a.value.value.id == "expression"):
                        hits.add("args.pop")
                if isinstance(n, _ast.Assign):
                    for tg in n.targets:
                        if (isinstance(tg, _ast.Subscript) and isinstance(tg.value, _ast.Attribute) and tg.value.attr == "args"
                                and isinstance(tg.value.value, _ast.Name) and tg.value.value.id == "expression"):
                            hits.add("args[]=")
            if hits:
                out.setdefault(fn.name, set()).update(os.path.basename(f) + ":" + h for h in hits)
    return {k: sorted(v) for k, v in sorted(out.items())}


def mutating_classes(harvest):
    keys = {c.key: c for c in c08.all_expression_classes()}
    return sorted({m[:-4] for m in harvest if m.endswith("_sql") and m[:-4] in keys})


def copy_false_sites():
    """every call `.sql(…)` / `.generate(…)` inside sqlglot that does not pass the default copy=True"""
    import glob
    sites = set()
    for f in glob.glob(os.path.join(REPO, "sqlglot", "**", "*.py"), recursive=True):
        try:
            tree = _ast.parse(open(f, encoding="utf-8").read())
        except (OSError, SyntaxError):
            continue
        rel = os.path.relpath(f, REPO).replace(os.sep, "/")
        for fn in _ast.walk(tree):
            if not isinstance(fn, (_ast.FunctionDef, _ast.AsyncFunctionDef)):
                continue
            for n in _ast.walk(fn):
                if isinstance(n, _ast.Call) and isinstance(n.func, _ast.Attribute) and n.func.attr in ("sql", "generate"):
                    for kw in n.keywords:
                        if kw.arg == "copy" and not (isinstance(kw.value, _ast.Constant) and kw.value.value is True):
                            sites.add(f"{rel}:{fn.name}:{n.func.attr}:{_ast.unparse(kw.value)}")
                    if n.func.attr == "generate" and len(n.args) >= 2 and not (isinstance(n.args[1], _ast.Constant) and n.args[1].value is True):
                        sites.add(f"{rel}:{fn.name}:generate:{_ast.unparse(n.args[1])}")
    return sorted(sites)


MUTATING_SQL = [
    ("bigquery", "SELECT x, off FROM UNNEST([1, 2, 3]) AS x WITH OFFSET AS off WHERE off > 0"),
    ("bigquery", "SELECT * FROM t, UNNEST(t.arr) AS e WITH OFFSET"), ("", "SELECT a, b INTO newt FROM t WHERE a > 1"),
    ("tsql", "SELECT a, b INTO #tmp FROM t WHERE a > 1 ORDER BY b"), ("duckdb", "SELECT {'a': 1, 'b': x + 1, 'c': 'str'} AS s FROM t"),
    ("bigquery", "SELECT STRUCT(1 AS a, x AS b, 'y' AS c) AS s FROM t"), ("", "SELECT CONCAT_WS(', ', a, b, c), CAST(a AS TEXT), CAST(b AS VARCHAR) FROM t"),
    ("", "SELECT (SELECT a FROM t ORDER BY a LIMIT 1) AS s, b FROM (SELECT b FROM u ORDER BY b) AS q"),
    ("postgres", "SELECT arr[1], arr[2:3], j -> 'a' ->> 'b' FROM t"), ("duckdb", "SELECT ~a, a << 2, a >> b, STRPOS(a, 'x'), SPLIT_PART(a, ',', 2) FROM t"),
    ("duckdb", "SELECT * FROM t TABLESAMPLE RESERVOIR (10 ROWS) JOIN u USING (a)"), ("tsql", "SELECT TIMEFROMPARTS(1, 2, 3, 4, 5), DATETIMEFROMPARTS(2020, 1, 2, 3, 4, 5, 6)"),
    ("snowflake", "SELECT TIMESTAMP_FROM_PARTS(2020, 1, 2, 3, 4, 5), TIME_FROM_PARTS(1, 2, 3), ARRAY_AGG(a) WITHIN GROUP (ORDER BY b), SPLIT_PART(a, ',', 1) FROM t"),
    ("snowflake", "SELECT SUM(a) OVER (PARTITION BY b ORDER BY c ROWS BETWEEN UNBOUNDED PRECEDING AND CURRENT ROW) FROM t"),
    ("bigquery", "SELECT * FROM t FOR SYSTEM_TIME AS OF TIMESTAMP_SUB(CURRENT_TIMESTAMP(), INTERVAL 1 HOUR)"),
    ("clickhouse", "SELECT NOT a, NOT (a AND b), a NOT IN (1, 2) FROM t"), ("exasol", "SELECT a FROM t WHERE a REGEXP_LIKE 'x.*' GROUP BY ALL"),
    ("presto", "DELETE FROM t WHERE a > 1"), ("sqlite", "INSERT INTO t (a, b) VALUES (1, 2) ON CONFLICT DO NOTHING"),
    ("tsql", "CREATE TABLE t (a INT IDENTITY(1, 1), b VARCHAR(MAX), c DATETIME2 DEFAULT GETDATE())"),
    ("databricks", "CREATE TABLE t (a BIGINT GENERATED ALWAYS AS IDENTITY, b STRING COMMENT 'c') USING DELTA PARTITIONED BY (b)"),
    ("starrocks", "CREATE TABLE t (a INT, b STRING) PRIMARY KEY (a) DISTRIBUTED BY HASH (a) BUCKETS 4"),
    ("sqlite", "CREATE TABLE t (a INTEGER PRIMARY KEY AUTOINCREMENT, b TEXT)"), ("athena", "ALTER TABLE t ADD COLUMNS (a INT, b STRING)"),
    ("postgres", "WITH RECURSIVE c AS (SELECT 1 AS n UNION ALL SELECT n + 1 FROM c WHERE n < 3) SELECT n FROM c"),
    ("redshift", "SELECT CAST(a AS TEXT), CAST(b AS VARCHAR(MAX)), CAST(c AS SUPER) FROM t"), ("hive", "SELECT CAST(a AS VARCHAR), CAST(b AS CHAR(3)), CAST(c AS TEXT) FROM t"),
    ("duckdb", "SELECT DATE_DIFF('day', a, b), a::DATE - INTERVAL 1 DAY, MAKE_TIME(1, 2, 3), MAKE_TIMESTAMP(2020, 1, 2, 3, 4, 5) FROM t"),
    ("databricks", "SELECT j:a.b[0]::STRING, j:['x'] FROM t"), ("snowflake", "CREATE TABLE t (a OBJECT(x INT, y VARCHAR), b ARRAY(INT), c MAP(VARCHAR, INT))"),
    ("postgres", "SELECT GENERATE_SERIES(1, 10, 2), a FROM t"), ("bigquery", "SELECT * FROM UNNEST(GENERATE_ARRAY(1, 5)) AS n"),
]


def mut_corpus():
    """(dialect, sql) inputs for the non-mutation oracle: the rare-construct corpus of C08 plus the mutating-print constructs"""
    return list(MUTATING_SQL) + list(c08.RARE_SQL)


def near_variant(t, k, seed):
    """a copy of `t` with k leaf values changed (deterministic in (k, seed)): near-similar, not identical"""
    u = t.copy()
    leaves = [n for n in nodes(u) if isinstance(n, (exp.Literal, exp.Identifier, exp.Var)) and isinstance(n.args.get("this"), str)]
    if not leaves:
        return u
    for j in range(k):
        n = leaves[(seed * 7 + j * 3) % len(leaves)]
        v = n.args["this"]
        n.set("this", (v + "9") if v[:1].isdigit() else (v + "_z"))
    return u


def closure_break(root):
    for n in nodes(root):
        if n is not root and n._hash is None and n.parent is not None and n.parent._hash is not None:
            return f"{type(n).__name__} has no cached hash but its parent {type(n.parent).__name__} has one"
    return None


def evaluate_mut(case):
    a = case["args"]
    api = a["api"]
    try:
        trees = [t for t in sqlglot.parse(case["sql"], dialect=case.get("dialect")) if t is not None]
    except Exception:  # noqa: BLE001
        return None
    if not trees:
        return None
    t = trees[0]
    if case.get("prep", {}).get("annotate"):
        from sqlglot.optimizer.annotate_types import annotate_types
        try:
            t = annotate_types(t, schema=SCHEMAS["int"])
        except Exception:  # noqa: BLE001
            pass
    prot = [t]
    light = api == "sql"
    run = None
    if api == "sql":
        run = lambda: t.sql(dialect=a["d"], **a.get("opts", {}))  # noqa: E731
    elif api.startswith("diff:near"):
        u = near_variant(t, a["k"], a["seed"])
        prot = [t, u]
        from sqlglot.diff import diff as _diff
        run = lambda: _diff(t, u, delta_only=bool(a.get("delta_only")))  # noqa: E731
    elif api == "diff:sub":
        u = near_variant(t, a["k"], a["seed"])
        prot = [t, u]
        hash(t)
        if a.get("hash_other"):
            hash(u)
        nt, nu = nodes(t), nodes(u)
        i = a["i"] % len(nt)
        from sqlglot.diff import diff as _diff
        run = lambda: _diff(nt[i], nu[min(i, len(nu) - 1)])  # noqa: E731
    elif api == "optimize":
        from sqlglot.optimizer import optimize
        run = lambda: optimize(t, schema=SCHEMAS["int"], dialect=case.get("dialect"))  # noqa: E731
    elif api == "lineage":
        from sqlglot.lineage import lineage
        cols = [s.alias_or_name for s in getattr(t, "selects", [])][:3]
        run = lambda: [lineage(c, t, schema=SCHEMAS["int"], dialect=case.get("dialect")) for c in cols if c]  # noqa: E731
    elif api == "qualify_copy":
        from sqlglot.optimizer.qualify import qualify
        run = lambda: qualify(t.copy(), schema=SCHEMAS["int"], dialect=case.get("dialect"))  # noqa: E731
    elif api == "transpile":
        run = lambda: (Dialect_get(a["d"]).generate(t), Dialect_get(a["d"]).generator().generate(t))  # noqa: E731
    else:
        raise c08.UnknownOp(api)
    before = [fingerprint(x, text=not light) for x in prot]
    err = None
    with MON.protect(prot) as mon:
        try:
            run()
        except c08.UnknownOp:
            raise
        except Exception as e:  # noqa: BLE001
            err = type(e).__name__
    events = list(mon.events)
    after = [fingerprint(x, text=not light) for x in prot]
    field = what = None
    for i, (b, f) in enumerate(zip(before, after)):
        d = fp_diff(b, f)
        if d is None and api.startswith("diff"):
            d = _diff_mask_msg(b, f)
            if d is None:
                cb = closure_break(prot[i])
                if cb:
                    d = "closure"
                    what = f"argument {i}: after diff() {cb} (an edit below it will leave the ancestors' hashes stale)"
        if d is not None:
            field = d
            what = what or f"argument {i} changed: first difference in field {d!r}: {b['sql']!r} -> {f['sql']!r}"
            break
    if events and field is None:
        e = events[0]
        field = f"write:{e['op']}@{e['site'][0] if e['site'] else '?'}"
        what = f"{e['op']}() on a {e['on']} of the argument from {' <- '.join(e['site'])}"
    elif events and field is not None:
        what += f"; first monitored write: {events[0]['op']}() from {' <- '.join(events[0]['site'])}"
    if field is None:
        return None
    d = a.get("d") or "-"
    return f"call:mut:{api.split(':')[0] if api.startswith('diff:near') else api}|{d}|{field}", f"{api} ({err or 'returned'}) on {case['sql'][:80]!r}: {what}"


def Dialect_get(d):
    from sqlglot.dialects.dialect import Dialect
    return Dialect.get_or_raise(d)


def sweep_mutating(chk: Check, dialects, deadline, rng) -> int:
    import logging
    logging.getLogger("sqlglot").setLevel(logging.ERROR)
    harvest = harvest_mutating()
    mcls = mutating_classes(harvest)
    corpus = mut_corpus()
    # coverage of the harvested classes by the corpus
    seen = set()
    parsed = []
    for d, sql in corpus:
        try:
            ts = [t for t in sqlglot.parse(sql, dialect=d or None) if t is not None]
        except Exception:  # noqa: BLE001
            continue
        if ts:
            parsed.append((d or None, sql))
            for t in ts:
                seen.update(n.key for n in nodes(t))
    chk.cov["printing_mutates"] = {"methods": len(harvest), "classes": mcls, "covered_by_inputs": sorted(set(mcls) & seen),
                                   "not_covered": sorted(set(mcls) - seen)}
    n = 0

    def one(d, sql, args, prep=None):
        nonlocal n
        n += 1
        case = {"call": "mutprint", "sql": sql, "dialect": d, "sql2": None, "prep": prep or {}, "args": args}
        chk.count("call:mut:" + args["api"].split(":")[0])
        try:
            res = evaluate_mut(case)
        except c08.UnknownOp:
            return
        chk.case(("mut", json.dumps(case, sort_keys=True)), nontrivial=True, sample=case if n % 1499 == 1 else None)
        if res:
            chk.report_violation(res[0], res[1], case, context={"call": "mutprint"})

    dls = [None] + [x for x in dialects if x]
    # (1) diff on near-similar pairs and on sub-trees (the distiller prints internal nodes of the CALLER's trees)
    for d, sql in parsed:
        if time.time() > deadline or len(chk.violations) >= 3:
            return n
        for k in (1, 2, 3):
            one(d, sql, {"api": "diff:near", "k": k, "seed": k + len(sql), "delta_only": k == 2})
        one(d, sql, {"api": "diff:sub", "k": 1, "seed": len(sql), "i": 1 + len(sql) % 5, "hash_other": len(sql) % 2 == 0})
    # (2) printing in every dialect, straight and through Dialect.generate / Generator.generate
    for d, sql in parsed:
        for tgt in (dls if not chk.quick else [None, d] + rng.sample(dls, 6)):
            if time.time() > deadline or len(chk.violations) >= 3:
                return n
            one(d, sql, {"api": "sql", "d": tgt, "opts": {"pretty": True} if n % 5 == 0 else {}})
            if n % 4 == 0:
                one(d, sql, {"api": "transpile", "d": tgt})
    # (3) optimize / qualify / lineage over the same inputs
    for d, sql in parsed:
        for api in ("optimize", "qualify_copy", "lineage"):
            if time.time() > deadline or len(chk.violations) >= 3:
                return n
            one(d, sql, {"api": api}, {"annotate": n % 3 == 0})
    return n



# ------------------------------------------------------------------------------------------ a promised copy is a NEW tree
# Every copy-documented API that returns a tree must (a) leave its Expression arguments untouched and (b) return a result that
# shares NO node with them — in particular in the "nothing to do" case of each API, the classic place where a fast path
# hands the input back (exp.expand with empty / unreferenced sources, replace_tables with an empty mapping, a builder called
# without arguments, a cast to the type the expression already has, transform with the identity function …).
_SRC_SQL = "SELECT 1 AS a, 2 AS b, 3 AS c"


def _sources(kind, t):
    tabs = [n.name for n in nodes(t) if isinstance(n, exp.Table) and n.name]
    if kind == "empty":
        return {}
    unref = {"zz_unreferenced": sqlglot.parse_one("SELECT 1 AS x"), "zz_other": "SELECT d FROM raw"}
    if kind == "unref" or not tabs:
        return unref
    if kind == "callable":
        return {tabs[0]: (lambda: sqlglot.parse_one(_SRC_SQL))}
    return {tabs[0]: sqlglot.parse_one(_SRC_SQL), **(unref if kind == "ref+unref" else {})}


def _result_trees(r, depth=0):
    """the Expression trees reachable from an API result"""
    if depth > 3 or r is None:
        return []
    if isinstance(r, Expr):
        return [r]
    if isinstance(r, (list, tuple, set)):
        return [x for y in r for x in _result_trees(y, depth + 1)]
    if isinstance(r, dict):
        return [x for y in r.values() for x in _result_trees(y, depth + 1)]
    if type(r).__name__ == "Node" and hasattr(r, "walk"):   # lineage.Node
        out = []
        for n in r.walk():
            out += [x for x in (getattr(n, "expression", None), getattr(n, "source", None)) if isinstance(x, Expr)]
        return out
    return []


def _fresh_table():
    from sqlglot.lineage import lineage
    from sqlglot.optimizer import optimize
    sch = SCHEMAS["int"]

    def lin(kind):
        def run(t, o, p):
            cols = [c for c in (getattr(t, "named_selects", None) or [])][:2]
            kw = {} if kind == "none" else {"sources": _sources(kind, t)}
            return [lineage(c, t, schema=sch, **kw) for c in cols]
        return run

    first = lambda t, cls: next((n for n in nodes(t) if isinstance(n, cls)), None)  # noqa: E731
    sel = lambda t: t if isinstance(t, exp.Select) else first(t, exp.Select)  # noqa: E731
    cond = lambda t: (first(t, exp.Where).this if first(t, exp.Where) is not None else first(t, exp.Condition))  # noqa: E731
    T = {
        "transform:id": lambda t, o, p: t.transform(lambda n: n),
        "copy": lambda t, o, p: t.copy(),
        "maybe_copy": lambda t, o, p: exp.maybe_copy(t),
        "maybe_parse(copy=True)": lambda t, o, p: exp.maybe_parse(t, copy=True),
        "optimize": lambda t, o, p: optimize(t, schema=sch),
        "replace_tables:empty": lambda t, o, p: exp.replace_tables(t, {}),
        "replace_tables:unref": lambda t, o, p: exp.replace_tables(t, {"zz_unreferenced": "q"}),
        "replace_tables:ref": lambda t, o, p: exp.replace_tables(t, {n.name: "c.d.e" for n in nodes(t) if isinstance(n, exp.Table) and n.name}),
        "replace_placeholders:none": lambda t, o, p: exp.replace_placeholders(t),
        "replace_placeholders:unref": lambda t, o, p: exp.replace_placeholders(t, zz_unused=1),
        "replace_placeholders:match": lambda t, o, p: exp.replace_placeholders(t, exp.to_identifier("q"), "v", p=1, tbl=exp.to_identifier("foo")),
        "select.select()": lambda t, o, p: sel(t).select(), "select.where()": lambda t, o, p: sel(t).where(),
        "select.group_by()": lambda t, o, p: sel(t).group_by(), "select.order_by()": lambda t, o, p: sel(t).order_by(),
        "select.having()": lambda t, o, p: sel(t).having(), "select.sort_by()": lambda t, o, p: sel(t).sort_by(),
        "select.distinct(False)": lambda t, o, p: sel(t).distinct(distinct=False), "select.lock(False)": lambda t, o, p: sel(t).lock(update=False),
        "select.where(None)": lambda t, o, p: sel(t).where(None), "select.select(append=False)": lambda t, o, p: sel(t).select("1 AS one", append=False),
        "cond.and_()": lambda t, o, p: cond(t).and_(), "cond.or_()": lambda t, o, p: cond(t).or_(),
        "exp.and_(x)": lambda t, o, p: exp.and_(cond(t)), "exp.or_(x)": lambda t, o, p: exp.or_(cond(t)),
        "exp.and_(x, None)": lambda t, o, p: exp.and_(cond(t), None), "exp.condition(x)": lambda t, o, p: exp.condition(cond(t)),
        "exp.paren(x)": lambda t, o, p: exp.paren(cond(t)),
        "exp.not_(x)": lambda t, o, p: exp.not_(cond(t)),
        "exp.cast(same type)": lambda t, o, p: exp.cast(p["_cast"], "int"),
        "exp.to_identifier(ident)": lambda t, o, p: exp.to_identifier(first(t, exp.Identifier)),
        "exp.to_table(table)": lambda t, o, p: exp.to_table(first(t, exp.Table)),
        "exp.to_column(col)": lambda t, o, p: exp.to_column(first(t, exp.Column)),
        "exp.alias_(alias)": lambda t, o, p: exp.alias_(first(t, exp.Alias), first(t, exp.Alias).alias),
        "exp.subquery": lambda t, o, p: exp.subquery(t, "q"),   # (exp.select(expr) documents "an Expr is used as-is")
        "exp.func(x)": lambda t, o, p: exp.func("COALESCE", cond(t)), "exp.tuple_(x)": lambda t, o, p: exp.tuple_(cond(t)),
        "exp.array(x)": lambda t, o, p: exp.array(cond(t)), "exp.case(x)": lambda t, o, p: exp.case(cond(t)),
    }
    for kind in ("empty", "unref", "ref", "ref+unref", "callable"):
        T["expand:" + kind] = (lambda kind: lambda t, o, p: exp.expand(t, _sources(kind, t)))(kind)
    for kind in ("none", "empty", "unref", "ref", "ref+unref"):
        T["lineage:" + kind] = lin(kind)
    return T


_FRESH = None


def fresh_table():
    global _FRESH
    if _FRESH is None:
        _FRESH = _fresh_table()
    return _FRESH


def evaluate_fresh(case):
    a = case["args"]
    fn = fresh_table().get(a["api"])
    if fn is None:
        raise c08.UnknownOp(a["api"])
    try:
        t = build_tree(case["sql"], case.get("dialect"), case.get("prep") or {})
    except Exception:  # noqa: BLE001
        return None
    p = {}
    prot = [t]
    if a["api"] == "exp.cast(same type)":
        col = next((n for n in nodes(t) if isinstance(n, exp.Column)), None)
        if col is None:
            return None
        p["_cast"] = exp.cast(col.copy(), "int", copy=False)
        prot = [t, p["_cast"]]
    before = [fingerprint(x) for x in prot]
    ids = {id(n) for x in prot for n in nodes(x)}
    keep = [n for x in prot for n in nodes(x)]
    res = err = None
    with MON.protect(prot) as mon:
        try:
            res = fn(t, None, p)
        except c08.UnknownOp:
            raise
        except Exception as e:  # noqa: BLE001 — inapplicable (no Select / no condition …) or an error of the call
            err = type(e).__name__
    events = list(mon.events)
    after = [fingerprint(x) for x in prot]
    field = what = None
    for i, (b, f) in enumerate(zip(before, after)):
        d = fp_diff(b, f)
        if d is not None:
            field = d
            what = f"argument {i} changed: first difference in field {d!r}: {b['sql']!r} -> {f['sql']!r}"
            break
    if field is None and events:
        e = events[0]
        field = f"write:{e['op']}@{e['site'][0] if e['site'] else '?'}"
        what = f"{e['op']}() on a {e['on']} of the argument from {' <- '.join(e['site'])}"
    if field is None and res is not None:
        shared = [n for r in _result_trees(res) for n in nodes(r) if id(n) in ids]
        if shared:
            field = "shared-result"
            what = (f"the result shares {len(shared)} node(s) with the argument (first: {type(shared[0]).__name__}"
                    f"{', the ROOT itself' if any(shared[0] is x for x in prot) else ''}) although a copy is promised")
    del keep
    if field is None:
        return None
    return f"call:fresh:{a['api']}|-|{field}", f"{a['api']} ({err or 'returned'}) on {case['sql'][:80]!r}: {what}"


FRESH_SQL = [
    "SELECT a, b + 1 AS c FROM t WHERE a > 0", "SELECT x.a, y.b AS bb FROM x JOIN y ON x.a = y.a WHERE x.c > 1 AND y.c < 5 GROUP BY x.a, y.b",
    "SELECT a FROM (SELECT a FROM x WHERE b = 1) AS q WHERE a IN (1, 2)", "WITH w AS (SELECT a FROM x) SELECT a AS aa FROM w UNION ALL SELECT b FROM y",
    "SELECT CAST(a AS INT) AS i, COALESCE(b, 0) AS k FROM x WHERE NOT (a = 1 OR b = 2)", "SELECT :p AS v, a FROM x WHERE a = :q",
    "SELECT a FROM x", "SELECT 1 AS one",
]


def sweep_fresh(chk: Check, gen, deadline, rng) -> int:
    import logging
    logging.getLogger("sqlglot").setLevel(logging.ERROR)
    n = 0
    apis = sorted(fresh_table())
    chk.cov["fresh_result_apis"] = apis
    sqls = list(FRESH_SQL)

    def one(sql, api, prep):
        nonlocal n
        n += 1
        case = {"call": "fresh", "sql": sql, "dialect": None, "sql2": None, "prep": prep, "args": {"api": api}}
        chk.count("call:fresh:" + api.split(":")[0])
        try:
            res = evaluate_fresh(case)
        except c08.UnknownOp:
            return
        chk.case(("fresh", sql, api, json.dumps(prep, sort_keys=True)), nontrivial=True, sample=case if n % 997 == 1 else None)
        if res:
            chk.report_violation(res[0], res[1], case, context={"call": "fresh"})

    for sql in sqls:                      # the fixed inputs: every API on every one of them
        for api in apis:
            if time.time() > deadline or len(chk.violations) >= 3:
                return n
            one(sql, api, {"prehash": len(sql) % 2 == 0, "annotate": False, "schema": "int"})
    while time.time() < deadline and len(chk.violations) < 3:   # then generated queries
        sql = gen.query(rng.choice([0, 1, 1, 2]))
        prep = {"prehash": rng.random() < 0.3, "annotate": rng.random() < 0.2, "schema": "int"}
        for api in rng.sample(apis, 8):
            if time.time() > deadline:
                break
            one(sql, api, prep)
    return n


def search(chk: Check, hints: list, budget_s: float) -> None:
    t0 = time.time()
    rng = chk.rng
    gen = SqlGen(rng, comments=True)
    allc = calls()
    inc = {n: c.included() for n, c in allc.items()}
    chk.cov["copy_apis"] = {"by_signature": sorted(n for n, v in inc.items() if v == "signature"),
                            "documented_or_readonly": sorted(n for n, v in inc.items() if v == "documented"),
                            "excluded_no_copy_default": sorted(n for n, v in inc.items() if v is None)}
    active = [c for n, c in allc.items() if inc[n] and n != "sql"]
    dialects = c08.all_dialects()
    n_cases = n_copy = found = n_sub = n_mut = n_fresh = 0
    sc = [("x", c) for c in "abc"] + [("y", c) for c in "abc"]
    MON.install()
    try:
        for h in hints or []:
            try:
                res = evaluate_subnode(h) if h.get("call") == "subnode" else evaluate_mut(h) if h.get("call") == "mutprint" else evaluate_fresh(h) if h.get("call") == "fresh" else evaluate(h)
            except (c08.UnknownOp, KeyError, TypeError):
                chk.count("hint:skipped")
                continue
            chk.count("hint:run")
            if res:
                report(chk, h, res)
        n_fresh = sweep_fresh(chk, gen, t0 + budget_s * 0.14, rng)
        n_mut = sweep_mutating(chk, dialects, t0 + budget_s * 0.34, rng)
        n_sub = sweep_subnodes(chk, gen, dialects, t0 + budget_s * 0.5, rng)
        t_calls = t0 + budget_s * 0.82

        def one(case):
            nonlocal n_cases, found
            n_cases += 1
            chk.count("call:" + case["call"])
            res = evaluate(case)
            chk.case(("call", json.dumps(case, sort_keys=True)), nontrivial=True,
                     sample=case if n_cases % 499 == 1 else None)
            if res:
                found += 1
                report(chk, case, res)

        while time.time() < t_calls and len(chk.violations) < 3:
            r = rng.random()
            sql = rng.choice(PLACEHOLDER_SQL) if r < 0.04 else gen.query(rng.choice([1, 2, 2, 3]))
            dialect = None
            if rng.random() < 0.15:
                d = rng.choice([x for x in dialects if x])
                base = parse_quiet(sql)
                try:
                    text = base.sql(dialect=d)
                    if sqlglot.parse_one(text, dialect=d) is not None:
                        sql, dialect = text, d
                except Exception:  # noqa: BLE001
                    pass
            if parse_quiet(sql, dialect) is None:
                chk.count("parse-error")
                continue
            prep = {"prehash": rng.random() < 0.3, "annotate": rng.random() < 0.25, "schema": rng.choice(["int", "mixed"])}
            base_case = {"sql": sql, "dialect": dialect, "sql2": None, "prep": prep}
            # generation: always the tree's own dialect, plus a seeded sample of targets (thorough: all)
            targets = [dialect] + (rng.sample(dialects, 7) if chk.quick else list(dialects))
            for d in targets:
                if time.time() > t_calls or len(chk.violations) >= 3:
                    break
                p = gen_params(rng, allc["sql"], dialects)
                p["d"] = d
                one({**base_case, "call": "sql", "args": p})
            for call in rng.sample(active, min(len(active), chk.pick(8, 16))):
                if time.time() > t_calls or len(chk.violations) >= 3:
                    break
                sql2 = None
                if call.two == "query":
                    sql2 = gen.query(rng.choice([0, 1, 2]))
                elif call.two == "cond":
                    sql2 = gen.cond(sc, 2)
                elif call.two == "expr":
                    sql2 = gen.expr(sc, 2)
                one({**base_case, "sql2": sql2, "call": call.name, "args": gen_params(rng, call, dialects)})
        # ---- copy independence
        while time.time() < t0 + budget_s and len(chk.violations) < 3:
            sql = gen.query(rng.choice([0, 1, 2, 2]))
            prep = {"prehash": rng.random() < 0.4, "annotate": rng.random() < 0.4, "schema": rng.choice(["int", "mixed"])}
            try:
                t = build_tree(sql, None, prep)
            except Exception:  # noqa: BLE001
                continue
            side = rng.choice(["copy", "orig"])
            res, ops = _copy_case(t, side, [], rng, rng.randint(3, chk.pick(25, 50)), chk)
            n_copy += 1
            chk.count("call:copy-edit")
            case = {"sql": sql, "dialect": None, "sql2": None, "call": "copy-edit", "args": {"side": side, "ops": ops}, "prep": prep}
            chk.case(("copy", sql, side, json.dumps(ops)), nontrivial=True, sample=None)
            if res:
                found += 1
                res2 = evaluate(case)
                if res2 and res2[0] == res[0]:
                    report(chk, case, res2)
                else:
                    chk.report_violation(res[0], res[1] + " (not reproduced by the from-scratch replay)", case, context={"call": "copy-edit"})
    finally:
        MON.uninstall()
    chk.search_info = {"ran": True, "budget_s": budget_s, "calls": n_cases, "subnode_calls": n_sub, "mutating_print_calls": n_mut, "fresh_result_calls": n_fresh, "copy_histories": n_copy, "violating": found,
                       "apis": len(active) + 1, "dialects": len(dialects), "elapsed_s": round(time.time() - t0, 1),
                       "oracle": "fingerprint (links, args, comments, types, meta, sql(), repr()) of every argument tree identical before/after "
                                 "AND no monitored set/append/replace/pop/_set_parent touches a node of an argument tree; diff(): no hash "
                                 "cache left behind; copies equal, node-disjoint and unaffected by edits of the other side"}


# ------------------------------------------------------------------------------------------ run / replay

# ================================================================================================ LEAN STAGES
import ast as _ast


def _fn(tree, cls, name):
    for c in tree.body:
        if cls is None and isinstance(c, _ast.FunctionDef) and c.name == name:
            return c
        if isinstance(c, _ast.ClassDef) and c.name == cls:
            for f in c.body:
                if isinstance(f, _ast.FunctionDef) and f.name == name:
                    return f
    return None


def _default_of(fn, arg):
    if fn is None:
        return None
    a = fn.args
    pos = a.posonlyargs + a.args
    for name, d in zip(reversed(pos), reversed(a.defaults)):
        if name.arg == arg:
            return d.value if isinstance(d, _ast.Constant) else "?"
    for name, d in zip(a.kwonlyargs, a.kw_defaults):
        if name.arg == arg and d is not None:
            return d.value if isinstance(d, _ast.Constant) else "?"
    return None


_HELPERS = ("_apply_builder", "_apply_child_list_builder", "_apply_list_builder", "_apply_conjunction_builder",
            "_apply_set_operation", "_apply_cte_builder")


def builder_tables():
    """(rows, bad, users): the copy decisions inside each `_apply_*` helper, the helper call sites that do not pass
    `copy=copy`, and which public method uses which helper"""
    import glob
    rows, bad, users = [], [], []
    watched = ("maybe_copy", "maybe_parse", "and_", "or_", "_apply_child_list_builder", "_combine")
    for f in sorted(glob.glob(os.path.join(REPO, "sqlglot", "expressions", "*.py"))):
        try:
            tree = _ast.parse(open(f, encoding="utf-8").read())
        except (OSError, SyntaxError):
            continue
        for fn in tree.body:
            if isinstance(fn, _ast.FunctionDef) and fn.name in _HELPERS:
                calls = []
                for n in _ast.walk(fn):
                    if isinstance(n, _ast.Call):
                        name = n.func.id if isinstance(n.func, _ast.Name) else n.func.attr if isinstance(n.func, _ast.Attribute) else None
                        if name in watched:
                            cp = [_ast.unparse(kw.value) for kw in n.keywords if kw.arg == "copy"]
                            pos = _ast.unparse(n.args[1]) if name == "maybe_copy" and len(n.args) > 1 else None
                            first = _ast.unparse(n.args[0]) if n.args else next(
                                (_ast.unparse(kw.value) for kw in n.keywords if kw.arg in ("sql_or_expression", "instance")), "*")
                            calls.append(f"{name}({first};copy={cp[0] if cp else pos if pos else '-'})")
                rows.append(f"{fn.name}: " + ", ".join(sorted(calls)))
        for cls in [None] + [c for c in _ast.walk(tree) if isinstance(c, _ast.ClassDef)]:
            for fn in (tree.body if cls is None else cls.body):
                if not isinstance(fn, _ast.FunctionDef):
                    continue
                for n in _ast.walk(fn):
                    if isinstance(n, _ast.Call) and isinstance(n.func, _ast.Name) and n.func.id in _HELPERS:
                        cp = [_ast.unparse(kw.value) for kw in n.keywords if kw.arg == "copy"]
                        u = f"{os.path.basename(f)}:{cls.name + '.' if cls else ''}{fn.name}->{n.func.id}(copy={cp[0] if cp else '-'})"
                        users.append(u)
                        if cp != ["copy"]:
                            bad.append(u)
    return sorted(rows), sorted(bad), sorted(users)


def scan_generate_overrides(REPO):
    rows=[]
    for f in sorted(__import__('glob').glob(os.path.join(REPO,'sqlglot','generators','*.py'))+__import__('glob').glob(os.path.join(REPO,'sqlglot','dialects','*.py'))):
        t=_ast.parse(open(f).read())
        for cls in _ast.walk(t):
            if not isinstance(cls, _ast.ClassDef): continue
            for fn in cls.body:
                if isinstance(fn, _ast.FunctionDef) and fn.name in ("generate",) and os.path.basename(f) not in ("dialect.py",):
                    first = fn.args.args[1].arg if len(fn.args.args) > 1 else "?"
                    assigns=[_ast.unparse(n) for n in _ast.walk(fn) if isinstance(n, _ast.Assign) and any(isinstance(tg, _ast.Name) and tg.id==first for tg in n.targets)]
                    dels=[_ast.unparse(n) for n in _ast.walk(fn) if isinstance(n, _ast.Call) and isinstance(n.func, _ast.Attribute) and n.func.attr in ("generate","sql")]
                    rows.append(f"{os.path.relpath(f, REPO)}:{cls.name}.{fn.name}({first}) | assigns: {'; '.join(assigns) or '-'} | delegates: {'; '.join(sorted(dels)) or '-'}")
    return sorted(rows)


def translate(chk: Check) -> str:
    def parse(rel):
        return _ast.parse(open(os.path.join(REPO, *rel.split("/")), encoding="utf-8").read())

    core = parse("sqlglot/expressions/core.py")
    gen = parse("sqlglot/generator.py")
    opt = parse("sqlglot/optimizer/optimizer.py")
    g = _fn(gen, "Generator", "generate")
    gsrc = _ast.unparse(g) if g else ""
    tr = _fn(core, "Expression", "transform")
    dc = _fn(core, "Expression", "__deepcopy__")
    dsrc = _ast.unparse(dc) if dc else ""
    o = _fn(opt, None, "optimize")
    osrc = _ast.unparse(o) if o else ""
    facts = {
        "generateCopiesByDefault": _default_of(g, "copy") is True and "expression.copy()" in gsrc and "if copy" in gsrc,
        "sqlCopiesByDefault": _default_of(_fn(core, "Expression", "sql"), "copy") is True,
        "transformCopiesWhenAsked": tr is not None and _default_of(tr, "copy") is True and "self.copy() if copy else self" in _ast.unparse(tr),
        "optimizeCopiesInput": "maybe_parse(" in osrc and "copy=True" in osrc,
        "deepcopyCarriesHashBeforeArgs": "copy._hash = node._hash" in dsrc and dsrc.find("copy._hash = node._hash") < dsrc.find("node.args.items()"),
        "deepcopyUsesSetAndAppend": c08._DEEPCOPY_LOOP in c08._stmts(dc, _ast.For),
    }
    for k, v in facts.items():
        if not v:
            chk.broken.append({"kind": "translator", "what": f"C09 translator: structure changed: {k} no longer recognised"})
    bld = parse("sqlglot/expressions/builders.py")
    ex = _fn(bld, None, "expand")
    ret_sites = []
    if ex is not None:
        def own_returns(node):
            for ch in _ast.iter_child_nodes(node):
                if isinstance(ch, (_ast.FunctionDef, _ast.AsyncFunctionDef, _ast.Lambda)):
                    continue
                if isinstance(ch, _ast.Return):
                    ret_sites.append(_ast.unparse(ch))
                own_returns(ch)
        own_returns(ex)
    lin = next((c for c in reversed(parse("sqlglot/lineage.py").body)
                if isinstance(c, _ast.FunctionDef) and c.name == "lineage"), None)   # the last def: earlier ones are @overload stubs
    lin_ok = False
    if lin is not None:
        for n in _ast.walk(lin):
            if isinstance(n, _ast.Call) and isinstance(n.func, _ast.Name) and n.func.id == "maybe_parse":
                if n.args and _ast.unparse(n.args[0]) == "sql":
                    lin_ok = any(kw.arg == "copy" and _ast.unparse(kw.value) == "copy" for kw in n.keywords)
    chk.cov["expand_return_sites"] = ret_sites
    sites = copy_false_sites()
    mcls = mutating_classes(harvest_mutating())
    chk.cov["copy_false_call_sites"] = sites
    lines = ["-- GENERATED by vf/props/c09.py from sqlglot/{generator,expressions/core,optimizer/optimizer}.py. Do not edit.",
             "import SqlglotModel.Model.Tree", "namespace SqlglotModel.Generated.C09"]
    for k, v in facts.items():
        lines.append(f"def {k} : Bool := {'true' if v else 'false'}")
    lines.append("/-- node classes whose `*_sql` method rewrites the node it prints in place (harvested from the generators): for them "
                 "`generate(copy=True)` is the only barrier between printing and the caller's tree -/")
    lines.append("def printingMutates : List String := " + c08._lean_list(c08._lean_str(x) for x in mcls))
    lines.append("/-- every call of `.sql(…)` / `.generate(…)` inside sqlglot that does not pass the default `copy=True` "
                 "(file:function:callee:value) -/")
    lines.append("def copyFalseSites : List String := " + c08._lean_list(c08._lean_str(x) for x in sites))
    govr = scan_generate_overrides(REPO)
    chk.cov["generate_overrides"] = govr
    lines.append("/-- every dialect generator that overrides `generate`: reassignments of its tree parameter and its delegate calls -/")
    lines.append("def generateOverrides : List String := " + c08._lean_list(c08._lean_str(x) for x in govr))
    rows, bad, users = builder_tables()
    chk.cov["builder_users"] = users
    lines.append("/-- per `_apply_*` helper: its maybe_copy / maybe_parse / and_ / delegated calls with their `copy` argument -/")
    lines.append("def builderCopyDecisions : List String := " + c08._lean_list(c08._lean_str(x) for x in rows))
    lines.append("/-- calls of a helper (from a public builder method) that do not pass `copy=copy` on -/")
    lines.append("def builderCallSitesNotThreadingCopy : List String := " + c08._lean_list(c08._lean_str(x) for x in bad))
    lines.append("/-- the `return` statements of `exp.expand` itself (not of the nested `_expand`) -/")
    lines.append("def expandReturnSites : List String := " + c08._lean_list(c08._lean_str(x) for x in ret_sites))
    lines.append("/-- `lineage` calls `maybe_parse(sql, copy=copy, …)` -/")
    lines.append(f"def lineageCopiesInput : Bool := {'true' if lin_ok else 'false'}")
    lines.append("end SqlglotModel.Generated.C09")
    return "\n".join(lines) + "\n"


def correspond(chk: Check) -> list:
    """build / copy / edit-one-side histories: model == implementation on every cell, and (real side, the property itself)
    no cell of the untouched side changes. Returns hint cases for the search (none: violations are reported here)."""
    rng = chk.rng
    n_hist = chk.pick(150, 1500)
    lines, expect, where, hists = [], [], [], []
    for hi in range(n_hist):
        ops = c08.random_history(rng, chk.pick(10, 20), wild=0.0)
        real = c08.RealHeap()
        outs = []
        ok = True
        for op in ops:
            r = real.apply(op)
            outs.append(r + "|" + ("" if r == "fail" else real.dump()))
            if r == "fail":
                ok = False
                break
        if ok:
            st = real.stored_ids()
            roots = [i for i, o in enumerate(real.reg) if id(o) not in st and o.args]
            if roots:
                src = rng.choice(roots)
                base = len(real.reg)
                op = {"op": "copy", "n": src}
                r = real.apply(op)
                ops.append(op); outs.append(r + "|" + real.dump())
                top = len(real.reg)
                edit_copy = rng.random() < 0.6      # edit the copy (ids >= base) or the original side (ids < base)
                lo, hi_ = (base, top) if edit_copy else (0, base)
                keep = range(0, base) if edit_copy else range(base, top)
                snap = real.dump().split(" ")
                for _ in range(rng.randint(2, 10)):
                    side = [i for i in range(lo, hi_)] + list(range(top, len(real.reg)))
                    tgt = rng.choice(side)
                    o = real.reg[tgt]
                    r0 = rng.random()
                    if r0 < 0.25:
                        e = {"op": "hash", "n": tgt}
                    elif r0 < 0.45:
                        e = c08._set(tgt, rng.choice(list(o.args.keys()) + ["this"]), rng.choice([None, {"s": "zz"}, {"s": True}]))
                    elif r0 < 0.6:
                        e = {"op": "pop", "n": tgt}
                    elif r0 < 0.7:
                        e = {"op": "eq", "a": tgt, "b": rng.choice(side)}
                    else:
                        n = len(real.reg)
                        for pre in (c08._mk("literal", n), c08._set(n, "this", {"s": "7"}), c08._set(n, "is_string", {"s": False})):
                            rr = real.apply(pre); ops.append(pre); outs.append(rr + "|" + real.dump())
                        lists = [k for k, v in o.args.items() if type(v) is list]
                        if lists and rng.random() < 0.5:
                            k = rng.choice(lists)
                            e = c08._set(tgt, k, {"n": n}, rng.randint(0, len(o.args[k])), rng.random() < 0.5)
                        elif rng.random() < 0.5:
                            e = {"op": "replace", "n": tgt, "v": {"n": n}}
                        else:
                            e = {"op": "append", "n": tgt, "k": "expressions", "it": {"n": n}}
                    r = real.apply(e)
                    ops.append(e)
                    if r == "fail":
                        outs.append("fail|")
                        break
                    d = real.dump()
                    outs.append(r + "|" + d)
                    cells = d.split(" ")
                    changed = [i for i in keep if cells[i] != snap[i]]
                    chk.count("frame-op:" + c08._opkey(e))
                    if changed:
                        chk.report_violation("copy-frame:" + c08._opkey(e) + ("|edit-copy" if edit_copy else "|edit-original"),
                                             f"editing the {'copy' if edit_copy else 'original'} changed a cell of the other tree: "
                                             f"{snap[changed[0]]} -> {cells[changed[0]]}", {"kind": "model-history", "ops": ops})
                        break
        hists.append(ops)
        lines.append('{"op":"reset"}'); expect.append("ok|"); where.append((hi, -1))
        for oi, (op, out) in enumerate(zip(ops, outs)):
            lines.append(json.dumps(op)); expect.append(out); where.append((hi, oi))
        chk.case(("c09corr", ops), nontrivial=any(o["op"] == "copy" for o in ops), sample={"ops": ops[-6:]} if hi % 397 == 0 else None)
    chk.corr_cases += n_hist
    got = chk.driver("C08", lines)
    seen = set()
    for g, e, (hi, oi) in zip(got, expect, where):
        if g != e and hi not in seen:
            seen.add(hi)
            chk.correspondence_broken("copy/edit history", {"ops": hists[hi][: oi + 1], "model": g[:300], "impl": e[:300]})
    return []


def run(chk: Check) -> None:
    chk.trusted.append("C09: the model Model/Tree.lean (shared with C08) of the Expression primitives; the generator / optimizer / diff / "
                       "lineage code is NOT modelled: the frame theorem is parametric in a callee that applies only these primitives inside "
                       "the copy's region, and the harness-side write monitor checks that premise on the real code")
    chk.assumptions += [
        "a region (Region h R) is closed under parent pointers and stored children (proved for the cells allocated by copy()); the "
        "deep copies of comments / _type / _meta are not modelled (checked by the fingerprint oracle on the real code)",
        "instrumentation is harness-side monkeypatching of Expression.set/append/replace/pop/_set_parent; direct attribute writes are "
        "caught by the before/after fingerprint only",
    ]
    chk.write_generated(translate(chk))
    proved = chk.prove(MODULES, "Properties.C09", THEOREMS)
    hints: list = []
    try:
        hints = correspond(chk)
    except HarnessError as e:
        if proved:
            raise
        chk.note(f"model driver unavailable ({e}); continuing with the search on the real code")
    budget = chk.pick(38, 300)
    if chk.broken:
        budget *= 2
    search(chk, hints, budget)


def replay(path: str) -> int:
    rec = json.load(open(path))
    case = rec.get("replay")
    if not case or "call" not in case:
        print(json.dumps(rec, indent=1))
        return 1
    MON.install()
    try:
        res = evaluate_subnode(case) if case["call"] == "subnode" else evaluate_mut(case) if case["call"] == "mutprint" else evaluate_fresh(case) if case["call"] == "fresh" else evaluate(case)
    finally:
        MON.uninstall()
    print("replay:", f"VIOLATES [{res[0]}]: {res[1]}" if res else "holds")
    return 1 if res else 0
