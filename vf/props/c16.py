"""C16 — Inferred types agree with the types the engine actually produces (DESIGN.md §4 C16).

translate : (a) sqlglot's typing tables for the modelled node classes under the duckdb dialect: COERCES_TO (restricted to the
                modelled types), BINARY_COERCIONS keys classified by behaviour, predicate/connector flags, the
                EXPRESSION_METADATA entry of every modelled node class (classified with a spy annotator), the type sets
                INTEGER/REAL/FLOAT_TYPES, the dialect flags the annotator reads;
            (b) assumption A-duck: the engine table duck : op x engine-class x engine-class -> engine-class, REGENERATED
                EXHAUSTIVELY from the installed DuckDB (`SELECT typeof(<op over representatives>)`) on every run, with a
                determinism check (all accepted representatives of one class pair must give one class).
prove     : Properties/C16.lean (coerce lattice facts, per-operator table agreement decided over the complete finite
            tables, class_agrees by structural induction over expressions of any depth, int_never_narrower, the exact
            characterisation of the operator/operand combinations on which sqlglot and DuckDB disagree)
correspond: generated typed expressions -> real annotate_types(parse_one(sql,'duckdb'), schema, dialect='duckdb') root type
            vs the Lean model's `annot`; and real DuckDB typeof vs the model's `eng` (compositionality of A-duck, sampled)
search    : the property's own oracle on the real code: class of the inferred type vs class of DuckDB's typeof() for the same
            expression over a one-row table with typed columns (exhaustive at depth 1 over the representatives, random
            nested expressions after that); `.sql()` before/after annotate_types must be identical.
"""

from __future__ import annotations

import json
import os
import re
import time

from vf.core import Check, REPO, HarnessError, lean_str

MODULES = ["Model.Types", "Generated.C16", "Proofs.Types", "Properties.C16"]
P = "SqlglotModel.Properties.C16."
THEOREMS = [P + n for n in [
    "coerce_idem", "coerce_comm", "coerce_assoc", "coerce_cross_chain_first_wins_witness",
    "coerce_decimalP_absorbs", "decimal_params_never_computed", "decimal_arith_engine_class",
    "extra_table_ok", "literal_typing", "int_literal_overflow_disagrees_witness", "predicates_are_boolean", "try_cast_is_cast",
    "argument_typed_functions_keep_type", "aggregate_classes_exact", "array_element_type",
    "container_element_types", "container_classes_exact", "list_concat_first_wins_witness",
    "write_sites_audited", "union_column_type", "union_branches_exact", "null_branches_agree", "nullif_exact", "temporal_branches",
    "leaf_table_agrees", "un_table_exact", "bin_table_exact", "tern_cond_irrelevant", "tern_table_exact", "nary_table_ok", "tables_ok",
    "depth1_exact_un", "depth1_exact_bin", "depth1_exact_tern", "every_family_inhabited",
    "rel_sound", "class_agrees", "final_class_agrees", "int_never_narrower",
    "column_takes_schema_type", "unqualified_column_witness", "derived_column_takes_projection_type", "class_agrees_through_derived",
    "cache_keys_ok", "scope_cache_transparent", "name_only_cache_key_witness", "byArgs_single", "wrapper_keeps_type",
    "nullif_witness", "nullif_first_arg_agrees",
    "null_only_arith_disagrees_witness", "decimal_null_arith_disagrees_witness", "strlit_null_arith_disagrees_witness",
    "concat_null_disagrees_witness", "date_interval_disagrees_witness", "temporal_diff_disagrees_witness",
    "mixed_chain_arith_disagrees_witness", "interval_minus_string_disagrees_witness", "mixed_chain_branches_disagrees_witness",
    "sum_boolean_disagrees_witness", "avg_temporal_disagrees_witness", "ceil_floor_disagrees_witness", "round_disagrees_witness",
    "corr_disagrees_witness", "nary_accumulators_disagree_witness",
]]

# ------------------------------------------------------------------------------------------ the modelled universe
# model Ty name -> sqlglot DType name ; decimalP = a parameterised DECIMAL(p, s)
TY = ["boolean", "tinyint", "smallint", "int", "bigint", "double", "decimal", "decimalP", "varchar", "text", "date", "datetime",
      "timestamp", "timestampntz", "interval", "null", "unknown"]
DTYPE_OF = {"boolean": "BOOLEAN", "tinyint": "TINYINT", "smallint": "SMALLINT", "int": "INT", "bigint": "BIGINT",
            "double": "DOUBLE", "decimal": "DECIMAL", "decimalP": "DECIMAL", "varchar": "VARCHAR", "text": "TEXT", "date": "DATE",
            "datetime": "DATETIME", "timestamp": "TIMESTAMP", "timestampntz": "TIMESTAMPNTZ", "interval": "INTERVAL", "null": "NULL", "unknown": "UNKNOWN"}
CLASS_OF = {"boolean": "boolean", "tinyint": "integer", "smallint": "integer", "int": "integer", "bigint": "integer",
            "double": "decimal", "decimal": "decimal", "decimalP": "decimal", "varchar": "text", "text": "text", "date": "date",
            "datetime": "timestamp", "timestamp": "timestamp", "timestampntz": "timestamp", "interval": "interval", "null": "nullUnknown",
            "unknown": "nullUnknown"}
# columns of the one-row table (name -> (DuckDB/sqlglot type text, model Ty))
COLS = {
    "bo": ("BOOLEAN", "boolean"), "ti": ("TINYINT", "tinyint"), "si": ("SMALLINT", "smallint"), "i": ("INT", "int"),
    "bi": ("BIGINT", "bigint"), "db": ("DOUBLE", "double"), "de": ("DECIMAL(18, 3)", "decimalP"),
    "v": ("VARCHAR", "text"), "da": ("DATE", "date"), "ts": ("TIMESTAMP", "timestampntz"),
}
ROW = "(TRUE, 1, 2, 3, 4, 1.5, 2.500, 'abc', DATE '2020-01-02', TIMESTAMP '2020-01-02 03:04:05')"
CAST_TARGETS = ["boolean", "tinyint", "smallint", "int", "bigint", "double", "decimalP", "text", "date", "timestampntz"]
CAST_SQL = {"boolean": "BOOLEAN", "tinyint": "TINYINT", "smallint": "SMALLINT", "int": "INT", "bigint": "BIGINT",
            "double": "DOUBLE", "decimalP": "DECIMAL(18, 3)", "text": "VARCHAR", "date": "DATE",
            "timestampntz": "TIMESTAMP"}

UN_WRAP = ["over", "filter"]  # wrappers around an aggregate; the engine side is the identity (A-duck-wrap), no table
UN_PLAIN = ["neg", "not", "isNull", "length", "upper", "lower", "abs", "sqrt", "ln", "exp", "sign", "ceil", "floor", "round",
            "year", "month", "day", "extractYear", "count", "sum", "min", "max", "avg",
            "anyValue", "stddev", "variance", "boolAnd", "boolOr", "groupConcat", "approxDistinct",
            "lag", "lead", "firstValue", "lastValue", "subq", "exists", "structField", "arrayAggElem", "mapElem"] + UN_WRAP
UN = UN_PLAIN + ["cast_" + t for t in CAST_TARGETS] + ["tryCast_" + t for t in CAST_TARGETS]
BIN = ["add", "sub", "mul", "div", "intdiv", "mod", "pow", "eq", "neq", "lt", "le", "gt", "ge", "and", "or", "dpipe", "like",
       "coalesce", "nullif", "concat", "greatest", "least", "corr", "isDistinct", "ilike", "arrayElem", "listConcatElem", "sliceElem", "unnest2", "unionCol"]
TERN = ["caseWhen", "iff"]
NARY = ["coalesce", "greatest", "least", "caseN"]
PRED3 = ["between", "inList"]
WIN0 = {"rowNumber": "ROW_NUMBER() OVER ()", "rank": "RANK() OVER ()", "denseRank": "DENSE_RANK() OVER ()",
        "cumeDist": "CUME_DIST() OVER ()", "percentRank": "PERCENT_RANK() OVER ()"}
NUMLIT = {"big": "3000000000", "huge": "99999999999999999999", "overflow": "1" * 40, "sci": "1e10"}
PRED3_SQL = {"between": "{a} BETWEEN {b} AND {c}", "inList": "{a} IN ({B}, {C})"}
AGG = {"count", "sum", "min", "max", "avg", "anyValue", "stddev", "variance", "boolAnd", "boolOr", "groupConcat", "approxDistinct"}

UN_SQL = {
    "neg": "-{a}", "not": "NOT {a}", "isNull": "{a} IS NULL", "length": "LENGTH({A})", "upper": "UPPER({A})",
    "lower": "LOWER({A})", "abs": "ABS({A})", "sqrt": "SQRT({A})", "ln": "LN({A})", "exp": "EXP({A})", "sign": "SIGN({A})", "year": "YEAR({A})", "month": "MONTH({A})", "day": "DAY({A})",
    "extractYear": "EXTRACT(YEAR FROM {a})", "count": "COUNT({A})", "sum": "SUM({A})", "min": "MIN({A})", "max": "MAX({A})",
    "avg": "AVG({A})", "ceil": "CEIL({A})", "floor": "FLOOR({A})", "round": "ROUND({A})",
    "over": "{A} OVER ()", "filter": "{A} FILTER (WHERE t.bo)",
    "anyValue": "ANY_VALUE({A})", "stddev": "STDDEV({A})", "variance": "VARIANCE({A})", "boolAnd": "BOOL_AND({A})",
    "boolOr": "BOOL_OR({A})", "groupConcat": "STRING_AGG({A}, ',')", "approxDistinct": "APPROX_COUNT_DISTINCT({A})",
    "lag": "LAG({A}) OVER ()", "lead": "LEAD({A}) OVER ()", "firstValue": "FIRST_VALUE({A}) OVER ()",
    "lastValue": "LAST_VALUE({A}) OVER ()", "subq": "(SELECT {A} FROM t)", "exists": "EXISTS(SELECT {A} FROM t)",
    "structField": "{{'k': {A}}}.k", "arrayAggElem": "ARRAY_AGG({A})[1]", "mapElem": "MAP(['k'], [{A}])['k']",
}
for _t in CAST_TARGETS:
    UN_SQL["cast_" + _t] = "CAST({A} AS " + CAST_SQL[_t] + ")"
    UN_SQL["tryCast_" + _t] = "TRY_CAST({A} AS " + CAST_SQL[_t] + ")"
BIN_SQL = {
    "add": "{a} + {b}", "sub": "{a} - {b}", "mul": "{a} * {b}", "div": "{a} / {b}", "intdiv": "{a} // {b}", "mod": "{a} % {b}", "pow": "{a} ** {b}",
    "eq": "{a} = {b}", "neq": "{a} <> {b}", "lt": "{a} < {b}", "le": "{a} <= {b}", "gt": "{a} > {b}", "ge": "{a} >= {b}",
    "and": "{a} AND {b}", "or": "{a} OR {b}", "dpipe": "{a} || {b}", "like": "{a} LIKE {b}",
    "coalesce": "COALESCE({A}, {B})", "nullif": "NULLIF({A}, {B})", "concat": "CONCAT({A}, {B})",
    "greatest": "GREATEST({A}, {B})", "least": "LEAST({A}, {B})", "corr": "CORR({A}, {B})",
    "isDistinct": "{a} IS DISTINCT FROM {b}", "ilike": "{a} ILIKE {b}", "arrayElem": "[{A}, {B}][1]",
    "listConcatElem": "LIST_CONCAT([{A}], [{B}])[1]", "sliceElem": "[{A}, {B}][1:2][1]", "unnest2": "UNNEST([{A}, {B}])",
    "unionCol": "(SELECT u.c FROM (SELECT {A} AS c UNION ALL SELECT {B} AS c) AS u LIMIT 1)",
}
TERN_SQL = {"caseWhen": "CASE WHEN {C} THEN {A} ELSE {B} END", "iff": "IF({C}, {A}, {B})"}

# engine classes (finer than the property's classes: DOUBLE vs fixed-point DECIMAL, string LITERAL vs VARCHAR value)
ETY = ["boolean", "integer", "hugeint", "double", "decimal", "text", "strlit", "date", "timestamp", "interval", "null", "other", "error"]
STR_LITS = {"other": "'abc'", "num": "'1'", "isoDate": "'2020-01-02'", "isoDatetime": "'2020-01-02 03:04:05'"}


def is_leaf(e):
    return e[0] not in ("un", "bin", "tern", "nary", "pred3")


def render_nary(k, xs):
    if k == "caseN":
        return "CASE " + " ".join("WHEN t.bo THEN " + x for x in xs[:-1]) + " ELSE " + xs[-1] + " END" if len(xs) > 1 else \
            "CASE WHEN t.bo THEN " + xs[0] + " END"
    return k.upper() + "(" + ", ".join(xs) + ")"


def render(e) -> str:
    """expression tree -> DuckDB SQL text (the same text goes to sqlglot and to DuckDB)"""
    k = e[0]
    if k == "col":
        return "t." + e[1]
    if k == "colx":  # ["colx", qualifier, name]: unqualified / other-table / unknown column references
        return (e[1] + "." if e[1] else "") + e[2]
    if k == "dcol":  # ["dcol", alias, name]: a column of a derived table / CTE of the scope
        return e[1] + "." + e[2]
    if k == "int":
        return "1"
    if k == "bigLit":
        return "1000"
    if k == "dec":
        return "1.5"
    if k == "str":
        return STR_LITS[e[1]]
    if k == "null":
        return "NULL"
    if k == "bool":
        return "TRUE"
    if k == "iv":
        return "INTERVAL 1 DAY" if e[1] else "INTERVAL 1 HOUR"
    if k == "raw":  # engine-only representative (never sent to the model)
        return e[1]
    if k == "numlit":
        return NUMLIT[e[1]]
    if k == "win0":
        return WIN0[e[1]]

    def sub(x, paren):
        s = render(x)
        return "(" + s + ")" if paren and not is_leaf(x) else s

    if k == "un":
        return UN_SQL[e[1]].format(a=sub(e[2], True), A=sub(e[2], False))
    if k == "bin":
        return BIN_SQL[e[1]].format(a=sub(e[2], True), b=sub(e[3], True), A=sub(e[2], False), B=sub(e[3], False))
    if k == "tern":
        return TERN_SQL[e[1]].format(C=sub(e[2], False), A=sub(e[3], False), B=sub(e[4], False))
    if k == "nary":
        return render_nary(e[1], [sub(x, False) for x in e[2:]])
    if k == "pred3":
        return PRED3_SQL[e[1]].format(a=sub(e[2], True), b=sub(e[3], True), c=sub(e[4], True), B=sub(e[3], False), C=sub(e[4], False))
    raise HarnessError(f"render: {e!r}")


def to_model(e):
    """expression tree -> the JSON the Lean driver reads (columns carry their model type)"""
    k = e[0]
    if k == "col":
        return ["col", "this", e[1]]
    if k == "colx":
        return ["col", {"": "none", "t": "this"}.get(e[1], "other"), e[2].lower()]
    if k == "dcol":
        return ["col", "d:" + e[1], e[2]]
    if k == "bigLit":
        return ["int"]
    if k in ("un", "bin", "tern", "nary", "pred3"):
        return [k, e[1]] + [to_model(x) for x in e[2:]]
    return list(e)


# ------------------------------------------------------------------------------------------ the real sides
_SG = {}


def sg():
    if not _SG:
        import sqlglot
        from sqlglot import exp
        from sqlglot.optimizer.annotate_types import annotate_types, TypeAnnotator
        from sqlglot.dialects.dialect import Dialect

        _SG.update(sqlglot=sqlglot, exp=exp, annotate_types=annotate_types, TypeAnnotator=TypeAnnotator,
                   dialect=Dialect.get_or_raise("duckdb"), schema={"t": {c: ty for c, (ty, _) in COLS.items()}})
    return _SG


_DUCK = {}


def duck():
    if "con" not in _DUCK:
        import duckdb

        con = duckdb.connect()
        con.execute("CREATE TABLE t(" + ", ".join(f"{c} {ty}" for c, (ty, _) in COLS.items()) + ")")
        con.execute("INSERT INTO t VALUES " + ROW)
        _DUCK["con"] = con
        _DUCK["version"] = duckdb.__version__
        _DUCK["cache"] = {}
    return _DUCK["con"]


def duck_typeof(sql_expr: str) -> str:
    """DuckDB's typeof() for the expression over the one-row table; 'ERR <kind>' when the engine rejects it"""
    con = duck()
    c = _DUCK["cache"]
    if sql_expr in c:
        return c[sql_expr]
    try:
        r = con.execute(f"SELECT typeof({sql_expr}) FROM t").fetchone()[0]
    except Exception as ex:  # noqa
        r = "ERR " + type(ex).__name__
    c[sql_expr] = r
    return r


def duck_typeof_bind(sql_expr: str) -> str:
    """the same answer as duck_typeof, ten times faster: the bound result type of `SELECT <expr> FROM t` (no execution). A relation
    column of the SQLNULL type is reported as INTEGER, so INTEGER answers are confirmed with typeof(); expressions that bind but
    fail at execution (CAST('abc' AS INT)) count as accepted here — the engine TABLE records the bound type, the search
    oracle (duck_typeof) skips whatever fails to execute."""
    con = duck()
    c = _DUCK.setdefault("bind_cache", {})
    if sql_expr in c:
        return c[sql_expr]
    r = None
    for attempt in (0, 1):
        try:
            r = str(con.sql(f"SELECT {sql_expr} FROM t").types[0])
            break
        except Exception as ex:  # noqa
            r = "ERR " + type(ex).__name__
            msg = str(ex)
            if "aborted" in msg or "INTERNAL" in msg or "FATAL" in msg:
                # an internal error (e.g. LIST_REVERSE over a scalar) leaves the implicit transaction aborted: every later
                # statement would fail; roll back, and retry the statement that merely ran into the aborted state
                try:
                    con.execute("ROLLBACK")
                except Exception:  # noqa
                    pass
                if "aborted" in msg and attempt == 0:
                    continue
            break
    if r == "INTEGER":
        r2 = duck_typeof(sql_expr)
        if not r2.startswith("ERR"):
            r = r2
    c[sql_expr] = r
    return r


def ety_of_duck(t: str) -> str:
    """engine class of a DuckDB type name"""
    if t.startswith("ERR"):
        return "error"
    if t.endswith("]") or t.startswith(("STRUCT", "MAP", "UNION")):
        return "other"
    base = t.split("(")[0].strip().strip('"')
    return {
        "BOOLEAN": "boolean", "TINYINT": "integer", "SMALLINT": "integer", "INTEGER": "integer", "BIGINT": "integer",
        "HUGEINT": "hugeint", "UTINYINT": "integer", "USMALLINT": "integer", "UINTEGER": "integer", "UBIGINT": "integer",
        "UHUGEINT": "hugeint", "DOUBLE": "double", "FLOAT": "double", "DECIMAL": "decimal", "VARCHAR": "text",
        "DATE": "date", "TIMESTAMP": "timestamp", "TIMESTAMP_S": "timestamp", "TIMESTAMP_MS": "timestamp",
        "TIMESTAMP_NS": "timestamp", "TIMESTAMP WITH TIME ZONE": "timestamp", "INTERVAL": "interval", "NULL": "null",
    }.get(base, "other")


CLASS_OF_ETY = {"boolean": "boolean", "integer": "integer", "hugeint": "integer", "double": "decimal", "decimal": "decimal", "text": "text",
                "strlit": "text", "date": "date", "timestamp": "timestamp", "interval": "interval", "null": "nullUnknown",
                "other": "other", "error": "error"}


def sg_annotate(sql_expr: str):
    """(DType name of the root select's type, parameterised?, sql-unchanged?) from the real annotate_types"""
    S = sg()
    sql = f"SELECT {sql_expr} AS x FROM t"
    ast = S["sqlglot"].parse_one(sql, dialect="duckdb")
    before = ast.sql(dialect="duckdb")
    out = S["annotate_types"](ast, schema=S["schema"], dialect="duckdb")
    after = out.sql(dialect="duckdb")
    ty = out.selects[0].type
    _SG["last_root"] = type(out.selects[0].unalias()).__name__
    if ty is None:
        return "NONE", False, before == after
    this = ty.this
    return (this.name if hasattr(this, "name") else str(this)), bool(ty.expressions), before == after


def model_ty_of_sg(name: str, param: bool) -> str:
    for k, v in DTYPE_OF.items():
        if v == name and k not in ("decimalP", "decimal"):
            return k
    if name == "DECIMAL":
        return "decimalP" if param else "decimal"
    return "other:" + name


def class_of_sg(name: str) -> str:
    from_model = {v: CLASS_OF[k] for k, v in DTYPE_OF.items()}
    extra = {"INT128": "integer", "INT256": "integer", "UBIGINT": "integer", "UINT": "integer", "FLOAT": "decimal",
             "TEXT": "text", "CHAR": "text", "NVARCHAR": "text", "NCHAR": "text", "TIMESTAMPTZ": "timestamp",
             "TIMESTAMPLTZ": "timestamp", "BIGDECIMAL": "decimal", "DECFLOAT": "decimal"}
    return from_model.get(name) or extra.get(name) or ("other:" + name)


# ------------------------------------------------------------------------------------------ representatives
# engine class -> expression trees standing for "an operand the engine types in this class"
def representatives():
    col = lambda c: ["col", c]  # noqa
    return {
        "boolean": [col("bo"), ["bool"], ["bin", "gt", col("i"), ["int"]]],
        "integer": [col("ti"), col("si"), col("i"), col("bi"), ["int"], ["bigLit"], ["bin", "add", col("i"), ["int"]]],
        "hugeint": [["raw", "CAST(t.i AS HUGEINT)"], ["raw", "CAST(t.ti AS HUGEINT)"]],
        "double": [col("db"), ["bin", "mul", col("db"), col("db")]],
        "decimal": [col("de"), ["bin", "add", col("de"), col("de")], ["dec"]],
        "text": [col("v"), ["un", "upper", col("v")]],
        "strlit": [["str", "other"], ["str", "num"], ["str", "isoDate"], ["str", "isoDatetime"]],
        "date": [col("da"), ["bin", "add", col("da"), ["int"]]],
        "timestamp": [col("ts"), ["un", "cast_timestampntz", col("da")]],
        "interval": [["iv", True], ["iv", False], ["bin", "sub", col("ts"), col("ts")]],
        "null": [["null"]],
    }


def has_raw(e):
    return e[0] == "raw" or (not is_leaf(e) and any(has_raw(x) for x in e[2:]))


# ------------------------------------------------------------------------------------------ A-duck: the engine table
def engine_table():
    """(table, issues, depth1) — table[(kind, op, classes...)] = engine class, regenerated from DuckDB.

    An entry is the unique engine class of all ACCEPTED representative combinations ('error' when DuckDB rejects all of
    them). Two accepted combinations with different classes = the engine is not class-level at this granularity: issue.
    depth1 = every concrete depth-1 expression that was evaluated (re-used by the search as its exhaustive first stage).
    """
    reps = representatives()
    classes = [c for c in ETY if c in reps]
    table, issues, depth1 = {}, [], []

    def settle(key, results):
        acc = sorted({r for r, _ in results if r != "error"})
        if len(acc) > 1:
            issues.append({"op": list(key), "classes_seen": acc,
                           "examples": [s for r, s in results if r != "error"][:4]})
        table[key] = acc[0] if acc else "error"

    for op in [o for o in UN if o not in UN_WRAP]:
        for ca in classes:
            res = []
            for a in reps[ca]:
                e = ["un", op, a]
                s = render(e)
                res.append((ety_of_duck(duck_typeof_bind(s)), s))
                depth1.append(e)
            settle(("un", op, ca), res)
    for op in BIN + TERN:
        for ca in classes:
            for cb in classes:
                res = []
                for a in reps[ca]:
                    for b in reps[cb]:
                        e = ["bin", op, a, b] if op in BIN else ["tern", op, ["col", "bo"], a, b]
                        s = render(e)
                        res.append((ety_of_duck(duck_typeof_bind(s)), s))
                        depth1.append(e)
                settle(("bin", op, ca, cb), res)
    # --- three-operand predicates (one representative per class), argument-less window functions, number literals
    for op in PRED3:
        for ca in classes:
            for cb in classes:
                for cc in classes:
                    e = ["pred3", op, reps[ca][0], reps[cb][0], reps[cc][0]]
                    sql = render(e)
                    settle(("pred3", op, ca, cb, cc), [(ety_of_duck(duck_typeof_bind(sql)), sql)])
                    if not has_raw(e):
                        depth1.append(e)
    for k in WIN0:
        table[("win0", k)] = ety_of_duck(duck_typeof_bind(WIN0[k]))
        depth1.append(["win0", k])
    for k in NUMLIT:
        table[("numlit", k)] = ety_of_duck(duck_typeof_bind(NUMLIT[k]))
        depth1.append(["numlit", k])
    # --- n-ary: the pairwise join of branch classes (two string literals stay a string literal), checked as a fold on triples
    for k in NARY:
        for ca in classes:
            for cb in classes:
                res = []
                for a in reps[ca][:2]:
                    for b in reps[cb][:2]:
                        sql = render(["nary", k, a, b])
                        res.append((ety_of_duck(duck_typeof_bind(sql)), sql))
                settle(("join", k, ca, cb), res)
                if ca == "strlit" and cb == "strlit" and table[("join", k, ca, cb)] == "text":
                    table[("join", k, ca, cb)] = "strlit"

        def J(a, b):
            return "error" if "error" in (a, b) else table.get(("join", k, a, b), "error")

        for ca in classes:
            for cb in classes:
                for cc in classes:
                    e = ["nary", k, reps[ca][0], reps[cb][0], reps[cc][0]]
                    real = ety_of_duck(duck_typeof_bind(render(e)))
                    model = J(J(ca, cb), cc)
                    model = "text" if model == "strlit" else model
                    if real != "error" and model != "error" and real != model:
                        issues.append({"op": ["nary-fold", k, ca, cb, cc], "classes_seen": [real, model], "examples": [render(e)]})
                    if not has_raw(e):
                        depth1.append(e)
    # --- wrappers: `agg OVER ()` / `agg FILTER (WHERE c)` have the aggregate's own type (A-duck-wrap)
    for w in UN_WRAP:
        for agg in sorted(AGG):
            for ca in classes:
                for a in reps[ca]:
                    inner = ["un", agg, a]
                    e = ["un", w, inner]
                    t_in, t_out = duck_typeof_bind(render(inner)), duck_typeof_bind(render(e))
                    if not t_out.startswith("ERR") and ety_of_duck(t_in) != ety_of_duck(t_out):
                        issues.append({"op": ["wrap", w, agg, ca], "classes_seen": [t_in, t_out], "examples": [render(e)]})
                    depth1.append(e)
    return table, issues, depth1


# ------------------------------------------------------------------------------------------ translate (sqlglot side)
NODEC_SAMPLES = {
    # NodeC -> (sample SQL, expected sqlglot class name, children accessor)
    "neg": ("-t.i", "Neg", lambda n: [n.this]),
    "not": ("NOT t.bo", "Not", lambda n: [n.this]),
    "is": ("t.i IS NULL", "Is", lambda n: [n.this, n.expression]),
    "length": ("LENGTH(t.v)", "Length", lambda n: [n.this]),
    "upper": ("UPPER(t.v)", "Upper", lambda n: [n.this]),
    "lower": ("LOWER(t.v)", "Lower", lambda n: [n.this]),
    "abs": ("ABS(t.i)", "Abs", lambda n: [n.this]),
    "sqrt": ("SQRT(t.i)", "Sqrt", lambda n: [n.this]),
    "ln": ("LN(t.i)", "Ln", lambda n: [n.this]),
    "exp": ("EXP(t.i)", "Exp", lambda n: [n.this]),
    "sign": ("SIGN(t.i)", "Sign", lambda n: [n.this]),
    "ceil": ("CEIL(t.db)", "Ceil", lambda n: [n.this]),
    "floor": ("FLOOR(t.db)", "Floor", lambda n: [n.this]),
    "round": ("ROUND(t.db)", "Round", lambda n: [n.this]),
    "year": ("YEAR(t.da)", "Year", lambda n: [n.this]),
    "month": ("MONTH(t.da)", "Month", lambda n: [n.this]),
    "day": ("DAY(t.da)", "Day", lambda n: [n.this]),
    "extract": ("EXTRACT(YEAR FROM t.da)", "Extract", lambda n: [n.expression]),
    "count": ("COUNT(t.i)", "Count", lambda n: [n.this]),
    "sum": ("SUM(t.i)", "Sum", lambda n: [n.this]),
    "min": ("MIN(t.i)", "Min", lambda n: [n.this]),
    "max": ("MAX(t.i)", "Max", lambda n: [n.this]),
    "avg": ("AVG(t.i)", "Avg", lambda n: [n.this]),
    "window": ("SUM(t.i) OVER ()", "Window", lambda n: [n.this]),
    "filter": ("SUM(t.i) FILTER (WHERE t.bo)", "Filter", lambda n: [n.this]),
    "cast": ("CAST(t.i AS BIGINT)", "Cast", lambda n: [n.this]),
    "tryCast": ("TRY_CAST(t.i AS BIGINT)", "TryCast", lambda n: [n.this]),
    # ANY_VALUE parses to IgnoreNulls(AnyValue): the wrapper is typed by _annotate_unary (its operand's type)
    "anyValue": ("ANY_VALUE(t.i)", "AnyValue", lambda n: [n.this], lambda n: n.this if type(n).__name__ == "IgnoreNulls" else n),
    "stddev": ("STDDEV(t.i)", "Stddev", lambda n: [n.this]),
    "variance": ("VARIANCE(t.i)", "Variance", lambda n: [n.this]),
    "logicalAnd": ("BOOL_AND(t.bo)", "LogicalAnd", lambda n: [n.this]),
    "logicalOr": ("BOOL_OR(t.bo)", "LogicalOr", lambda n: [n.this]),
    "groupConcat": ("STRING_AGG(t.v, ',')", "GroupConcat", lambda n: [n.this]),
    "approxDistinct": ("APPROX_COUNT_DISTINCT(t.i)", "ApproxDistinct", lambda n: [n.this]),
    "lag": ("LAG(t.i) OVER ()", "Lag", lambda n: [n.this], lambda n: n.this),
    "lead": ("LEAD(t.i) OVER ()", "Lead", lambda n: [n.this], lambda n: n.this),
    "firstValue": ("FIRST_VALUE(t.i) OVER ()", "FirstValue", lambda n: [n.this], lambda n: n.this),
    "lastValue": ("LAST_VALUE(t.i) OVER ()", "LastValue", lambda n: [n.this], lambda n: n.this),
    "subquery": ("(SELECT t.i FROM t)", "Subquery", lambda n: [n.this.selects[0]]),
    "exists": ("EXISTS(SELECT t.i FROM t)", "Exists", lambda n: []),
    "between": ("t.i BETWEEN t.i AND t.bi", "Between", lambda n: []),
    "in_": ("t.i IN (t.i, t.bi)", "In", lambda n: []),
    "rowNumber": ("ROW_NUMBER() OVER ()", "RowNumber", lambda n: [], lambda n: n.this),
    "rank": ("RANK() OVER ()", "Rank", lambda n: [], lambda n: n.this),
    "denseRank": ("DENSE_RANK() OVER ()", "DenseRank", lambda n: [], lambda n: n.this),
    "cumeDist": ("CUME_DIST() OVER ()", "CumeDist", lambda n: [], lambda n: n.this),
    "percentRank": ("PERCENT_RANK() OVER ()", "PercentRank", lambda n: [], lambda n: n.this),
    "nullSafeNeq": ("t.i IS DISTINCT FROM t.bi", "NullSafeNEQ", None),
    "ilike": ("t.v ILIKE t.v", "ILike", None),
    "array": ("[t.i, t.bi]", "Array", lambda n: list(n.expressions)),
    "bracket": ("[t.i, t.bi][1]", "Bracket", lambda n: [n.this]),
    "struct": ("{'k': t.i}", "Struct", lambda n: []),
    "dot": ("{'k': t.i}.k", "Dot", lambda n: []),
    "propertyEq": ("{'k': t.i}", "PropertyEQ", lambda n: [n.this, n.expression], lambda n: n.expressions[0]),
    "map": ("MAP(['k'], [t.db])", "Map", lambda n: []),
    "arrayAgg": ("ARRAY_AGG(t.i)", "ArrayAgg", lambda n: [n.this]),
    "arrayConcat": ("LIST_CONCAT([t.i], [t.bi])", "ArrayConcat", lambda n: [n.this] + list(n.expressions)),
    "explode": ("UNNEST([t.i, t.db])", "Explode", lambda n: []),
    "add": ("t.i + t.bi", "Add", None), "sub": ("t.i - t.bi", "Sub", None), "mul": ("t.i * t.bi", "Mul", None),
    "div": ("t.i / t.bi", "Div", None), "intdiv": ("t.i // t.bi", "IntDiv", None), "mod": ("t.i % t.bi", "Mod", None),
    "pow": ("t.i ** t.bi", "Pow", lambda n: [n.this, n.expression]),
    "eq": ("t.i = t.bi", "EQ", None), "neq": ("t.i <> t.bi", "NEQ", None), "lt": ("t.i < t.bi", "LT", None),
    "le": ("t.i <= t.bi", "LTE", None), "gt": ("t.i > t.bi", "GT", None), "ge": ("t.i >= t.bi", "GTE", None),
    "and": ("t.bo AND t.bo", "And", None), "or": ("t.bo OR t.bo", "Or", None), "dpipe": ("t.v || t.v", "DPipe", None),
    "like": ("t.v LIKE t.v", "Like", None),
    "coalesce": ("COALESCE(t.i, t.bi)", "Coalesce", lambda n: [n.this] + list(n.expressions)),
    "nullif": ("NULLIF(t.i, t.bi)", "Nullif", None),
    "concat": ("CONCAT(t.v, t.v)", "Concat", lambda n: list(n.expressions)),
    "greatest": ("GREATEST(t.i, t.bi)", "Greatest", lambda n: [n.this] + list(n.expressions)),
    "least": ("LEAST(t.i, t.bi)", "Least", lambda n: [n.this] + list(n.expressions)),
    "corr": ("CORR(t.i, t.bi)", "Corr", None),
    "case": ("CASE WHEN t.bo THEN t.i ELSE t.bi END", "Case",
             lambda n: [n.args["ifs"][0].this, n.args["ifs"][0].args["true"], n.args["default"]]),
    "if_": ("IF(t.bo, t.i, t.bi)", "If", lambda n: [n.this, n.args["true"], n.args["false"]]),
    "literal": ("1", "Literal", lambda n: []),
    "null": ("NULL", "Null", lambda n: []),
    "boolean": ("TRUE", "Boolean", lambda n: []),
    "interval": ("INTERVAL 1 DAY", "Interval", lambda n: []),
}
NODEC_ORDER = list(NODEC_SAMPLES)
BINARY_NODEC = ["add", "sub", "mul", "div", "intdiv", "mod", "pow", "eq", "neq", "lt", "le", "gt", "ge", "and", "or", "dpipe", "like",
                "nullif", "is"]


def _model_ty_of_dtype(x):
    """DType / DataType -> model Ty name or None"""
    S = sg()
    exp = S["exp"]
    param = False
    if isinstance(x, exp.DataType):
        param = bool(x.expressions)
        x = x.this
    name = getattr(x, "name", None)
    if name is None:
        return None
    m = model_ty_of_sg(name, param)
    return None if m.startswith("other:") else m


def _classify_meta(chk, nodec):
    from unittest.mock import MagicMock

    S = sg()
    exp = S["exp"]
    sql, want_cls, kids = NODEC_SAMPLES[nodec][:3]
    node = S["sqlglot"].parse_one(f"SELECT {sql} FROM t", dialect="duckdb").selects[0]
    if len(NODEC_SAMPLES[nodec]) > 3:
        node = NODEC_SAMPLES[nodec][3](node)  # the modelled node sits inside a wrapper (Window / IgnoreNulls)
    info = {"class": type(node).__name__}
    if type(node).__name__ != want_cls:
        chk.broken.append({"kind": "translator", "what": f"C16 translator: structure changed: `{sql}` parses to "
                                                          f"{type(node).__name__}, the model expects {want_cls}"})
        return ".notModelled", info
    children = (kids or (lambda n: [n.this, n.expression]))(node)

    def bad(why):
        chk.broken.append({"kind": "translator", "what": f"C16 translator: structure changed: EXPRESSION_METADATA[{want_cls}] {why}"})
        return ".notModelled", info

    return _shape_of(node, children, bad, info)


def _shape_of(node, children, bad, info):
    """the Lean `Meta` shape of the EXPRESSION_METADATA entry of `node`'s class, read by calling the entry on a spy annotator"""
    from unittest.mock import MagicMock

    S = sg()
    exp = S["exp"]
    spec = S["dialect"].EXPRESSION_METADATA.get(type(node))
    if not spec:
        return bad("is missing")
    if "annotator" not in spec or not spec.get("annotator"):
        r = spec.get("returns")
        t = _model_ty_of_dtype(r) if r is not None else None
        if t is None:
            return bad(f"returns the unmodelled type {r!r}")
        return f".returns .{t}", info
    spy = MagicMock()
    try:
        ret = spec["annotator"](spy, node)
    except Exception as ex:  # noqa
        return bad(f"annotator raised {type(ex).__name__} on a spy")
    calls = spy.method_calls
    if not calls and ret is node:
        return bad("annotator leaves the node untouched")
    if len(calls) != 1:
        return bad(f"annotator makes {len(calls)} calls on the annotator")
    name, args, kwargs = calls[0]
    if not args or args[0] is not node:
        return bad("annotator does not pass the node first")
    if name == "_annotate_binary" and len(args) == 1:
        pred = issubclass(type(node), (exp.Connector, exp.Predicate))
        return f".binary {'true' if pred else 'false'}", info
    if name == "_annotate_unary" and len(args) == 1:
        return ".unary", info
    if name == "_annotate_div" and len(args) == 1:
        return ".div", info
    if name == "_annotate_literal" and len(args) == 1:
        return ".literal", info
    if name == "_annotate_extract" and len(args) == 1:
        return ".extract", info
    if name == "_annotate_subquery" and len(args) == 1:
        return ".subquery", info
    if name == "_annotate_bracket" and len(args) == 1:
        return ".bracket", info
    if name in ("_annotate_struct", "_annotate_dot", "_annotate_map", "_annotate_explode") and len(args) == 1 and not kwargs:
        return f'.annotator "{name}"', info
    if name == "_set_type" and len(args) == 2 and not kwargs:
        if args[1] is node.args.get("to") and args[1] is not None:
            return ".castTo", info
        t = _model_ty_of_dtype(args[1])
        if t is None:
            return bad(f"sets the unmodelled type {args[1]!r}")
        return f".returns .{t}", info
    if name == "_annotate_by_args":
        is_array = bool(kwargs.get("array"))
        if is_array and kwargs.get("promote"):
            return bad("by-args with array=True and promote=True")
        if set(kwargs) - {"promote", "array"}:
            return bad(f"by-args with unknown options {sorted(kwargs)}")
        from sqlglot.helper import ensure_list

        seq = []
        for a in args[1:]:
            seq += ensure_list(node.args.get(a)) if isinstance(a, str) else ensure_list(a)
        ids = [id(x) for x in seq]
        cid = [id(c) for c in children]
        if any(i not in cid for i in ids):
            return bad("by-args reads an argument outside the modelled children")
        if ids != [i for i in cid if i in ids]:
            return bad("by-args visits the children in a different order")
        mask = ", ".join("true" if c in ids else "false" for c in cid)
        if is_array:
            return f".arrayOf [{mask}]", info
        return f".byArgs [{mask}] {'true' if kwargs.get('promote') else 'false'}", info
    return bad(f"annotator calls {name}")


def _co_reference(kind, l, r):
    """Python mirror of Model/Types.lean `applyCo` on summaries (ty, iso, dateUnit)"""
    def date_literal(iso, du):
        if iso == "isoDate":
            return "date" if du else "datetime"
        if iso == "isoDatetime":
            return "datetime"
        return "unknown"

    strip = lambda t: "decimal" if t == "decimalP" else t  # noqa
    if kind == "textInterval":
        return date_literal(l["iso"], r["du"])
    if kind == "intervalText":
        return date_literal(r["iso"], l["du"])
    if kind == "leftType":
        return l["ty"]
    if kind == "rightType":
        return r["ty"]
    if kind == "dateInterval":
        return strip(l["ty"]) if r["du"] else "datetime"
    if kind == "intervalDate":
        return strip(r["ty"]) if l["du"] else "datetime"
    raise HarnessError(kind)


CO_KINDS = ["textInterval", "intervalText", "leftType", "rightType", "dateInterval", "intervalDate"]


def _co_variants(dtype_name):
    """battery of operand nodes of one DType: (node, summary)"""
    S = sg()
    exp = S["exp"]
    DT = exp.DataType
    out = []
    dt = exp.DType[dtype_name]

    def typed(node, ty=None):
        node.type = ty if ty is not None else DT.build(dtype_name)
        return node

    mty = model_ty_of_sg(dtype_name, False)
    if dt in DT.TEXT_TYPES:
        for text, iso in (("2020-01-02", "isoDate"), ("2020-01-02 03:04:05", "isoDatetime"), ("abc", "other")):
            out.append((typed(exp.Literal.string(text)), {"ty": mty, "iso": iso, "du": False}))
        out.append((typed(exp.column("v", table="t")), {"ty": mty, "iso": None, "du": False}))
    elif dtype_name == "INTERVAL":
        for unit, du in (("DAY", True), ("HOUR", False)):
            out.append((typed(exp.Interval(this=exp.Literal.string("1"), unit=exp.var(unit))), {"ty": mty, "iso": None, "du": du}))
        out.append((typed(exp.column("iv", table="t")), {"ty": mty, "iso": None, "du": False}))
    else:
        out.append((typed(exp.column("c", table="t")), {"ty": mty, "iso": None, "du": False}))
        if dtype_name == "DECIMAL":
            out.append((typed(exp.column("c", table="t"), DT.build("DECIMAL(18, 3)")), {"ty": "decimalP", "iso": None, "du": False}))
    return out


def cache_inventory(chk: Check):
    """the per-call caches of TypeAnnotator (dict / set attributes created in __init__) and, for each, whether EVERY key expression
    used with it (subscript, .get/.pop/.add/.discard, `in`) mentions a Scope-typed name — read from the ast of
    sqlglot/optimizer/annotate_types.py, resolving a plain local name to its assignment in the same function"""
    import ast

    src = open(os.path.join(REPO, "sqlglot", "optimizer", "annotate_types.py"), encoding="utf-8").read()
    tree = ast.parse(src)
    cls = next((n for n in tree.body if isinstance(n, ast.ClassDef) and n.name == "TypeAnnotator"), None)
    if cls is None:
        chk.broken.append({"kind": "translator", "what": "C16 translator: structure changed: class TypeAnnotator not found"})
        return []
    caches = []
    for fn in cls.body:
        if isinstance(fn, ast.FunctionDef) and fn.name == "__init__":
            for st in ast.walk(fn):
                tgt = val = None
                if isinstance(st, ast.AnnAssign):
                    tgt, val = st.target, st.value
                elif isinstance(st, ast.Assign) and len(st.targets) == 1:
                    tgt, val = st.targets[0], st.value
                if (isinstance(tgt, ast.Attribute) and isinstance(tgt.value, ast.Name) and tgt.value.id == "self"
                        and (isinstance(val, (ast.Dict, ast.Set)) and not getattr(val, "keys", getattr(val, "elts", []))
                             or isinstance(val, ast.Call) and isinstance(val.func, ast.Name) and val.func.id in ("set", "dict") and not val.args)):
                    caches.append(tgt.attr)
    uses = {c: [] for c in caches}
    for fn in [n for n in cls.body if isinstance(n, ast.FunctionDef)]:
        scope_names = {a.arg for a in fn.args.args + fn.args.kwonlyargs
                       if a.annotation is not None and "Scope" in ast.unparse(a.annotation)}
        local = {}
        for st in ast.walk(fn):
            if isinstance(st, ast.Assign) and len(st.targets) == 1 and isinstance(st.targets[0], ast.Name):
                local.setdefault(st.targets[0].id, []).append(st.value)

        def mentions_scope(key, depth=0):
            for n in ast.walk(key):
                if isinstance(n, ast.Name):
                    if n.id in scope_names:
                        return True
                    if depth < 2 and n.id in local and len(local[n.id]) == 1 and mentions_scope(local[n.id][0], depth + 1):
                        return True
            return False

        def is_cache(node):
            return (isinstance(node, ast.Attribute) and isinstance(node.value, ast.Name) and node.value.id == "self"
                    and node.attr in uses)

        for n in ast.walk(fn):
            if isinstance(n, ast.Subscript) and is_cache(n.value):
                uses[n.value.attr].append((fn.name, ast.unparse(n.slice), mentions_scope(n.slice)))
            elif (isinstance(n, ast.Call) and isinstance(n.func, ast.Attribute) and is_cache(n.func.value)
                  and n.func.attr in ("get", "pop", "add", "discard", "setdefault") and n.args):
                uses[n.func.value.attr].append((fn.name, ast.unparse(n.args[0]), mentions_scope(n.args[0])))
            elif isinstance(n, ast.Compare) and len(n.ops) == 1 and isinstance(n.ops[0], (ast.In, ast.NotIn)) and is_cache(n.comparators[0]):
                uses[n.comparators[0].attr].append((fn.name, ast.unparse(n.left), mentions_scope(n.left)))
    inv = [(c, bool(uses[c]) and all(u[2] for u in uses[c])) for c in caches]
    chk.cov["annotator_caches"] = {c: {"keys": sorted({u[1] for u in uses[c]}), "every_key_mentions_scope": dict(inv)[c]} for c in caches}
    return inv


def rewrite_sites(chk: Check):
    """every place in sqlglot/optimizer/annotate_types.py that WRITES into an object other than the annotator itself: calls of
    .set / .replace / .transform / .pop / .append / .insert / .remove / .update on a receiver that is not `self...` or a local
    list/dict built in the same function, and assignments to an attribute or subscript of a non-self object — (function,
    receiver.method or target, kind). Setting `_type` and `meta` is how annotation works; anything else rewrites the tree."""
    import ast

    src = open(os.path.join(REPO, "sqlglot", "optimizer", "annotate_types.py"), encoding="utf-8").read()
    tree = ast.parse(src)
    out = set()
    for fn in [n for n in ast.walk(tree) if isinstance(n, ast.FunctionDef)]:
        local_containers = set()
        for st in ast.walk(fn):
            tgt = val = None
            if isinstance(st, ast.Assign) and len(st.targets) == 1:
                tgt, val = st.targets[0], st.value
            elif isinstance(st, ast.AnnAssign):
                tgt, val = st.target, st.value
            if isinstance(tgt, ast.Name) and isinstance(val, (ast.List, ast.Dict, ast.Set, ast.ListComp, ast.DictComp, ast.SetComp)):
                local_containers.add(tgt.id)

        def root_name(node):
            while isinstance(node, (ast.Attribute, ast.Subscript, ast.Call)):
                node = node.func if isinstance(node, ast.Call) else node.value
            return node.id if isinstance(node, ast.Name) else None

        for n in ast.walk(fn):
            if isinstance(n, ast.Call) and isinstance(n.func, ast.Attribute) and n.func.attr in (
                    "set", "replace", "transform", "pop", "append", "insert", "remove", "update", "extend", "clear"):
                r = root_name(n.func.value)
                if r in ("self", None) or r in local_containers:
                    continue
                out.add((fn.name, ast.unparse(n.func.value) + "." + n.func.attr, "call"))
            elif isinstance(n, (ast.Assign, ast.AugAssign)):
                for tg in (n.targets if isinstance(n, ast.Assign) else [n.target]):
                    if isinstance(tg, (ast.Attribute, ast.Subscript)):
                        r = root_name(tg)
                        if r in ("self", None) or r in local_containers:
                            continue
                        out.add((fn.name, ast.unparse(tg.value if isinstance(tg, ast.Subscript) else tg), "assign"))
    sites = sorted(out)
    chk.cov["annotate_types_write_sites"] = [" :: ".join(x) for x in sites]
    return sites


def translate(chk: Check, table) -> str:
    S = sg()
    exp = S["exp"]
    TA = S["TypeAnnotator"]
    D = S["dialect"]
    L = []
    w = L.append
    w("-- GENERATED by vf/props/c16.py from sqlglot/optimizer/annotate_types.py, sqlglot/typing/{__init__,duckdb}.py, the duckdb")
    w("-- dialect's flags, and the installed DuckDB (engine table). Do not edit.")
    w("import SqlglotModel.Model.Types")
    w("namespace SqlglotModel.Generated.C16")
    w("open SqlglotModel.Types")
    w("")
    # --- dialect flags the model fixes
    if D.PRIORITIZE_NON_LITERAL_TYPES:
        chk.broken.append({"kind": "translator", "what": "C16 translator: structure changed: duckdb sets PRIORITIZE_NON_LITERAL_TYPES (not modelled)"})
    if D.SUPPORTS_NULL_TYPE:
        chk.broken.append({"kind": "translator", "what": "C16 translator: structure changed: duckdb sets SUPPORTS_NULL_TYPE (not modelled)"})
    modelled = [t for t in TY if t != "decimalP"]
    dt_of = {t: exp.DType[DTYPE_OF[t]] for t in modelled}
    # --- COERCES_TO (as TypeAnnotator.__init__ picks it)
    eff = D.COERCES_TO or TA.COERCES_TO
    chk.cov["coerces_to_source"] = "dialect" if D.COERCES_TO else "TypeAnnotator"
    w("/-- b ∈ COERCES_TO[a], restricted to the modelled types -/")
    w("def coercesTo : Ty → Ty → Bool")
    n_co = 0
    for a in modelled:
        for b in modelled:
            if dt_of[b] in eff.get(dt_of[a], ()):
                w(f"  | .{a}, .{b} => true")
                n_co += 1
    w("  | _, _ => false")
    w("")
    chk.cov["coerces_to_pairs"] = n_co
    for fn, st in (("integerTypes", exp.DataType.INTEGER_TYPES), ("realTypes", exp.DataType.REAL_TYPES),
                   ("floatTypes", exp.DataType.FLOAT_TYPES)):
        w(f"def {fn} : Ty → Bool")
        for a in modelled:
            if dt_of[a] in st:
                w(f"  | .{a} => true")
        w("  | _ => false")
        w("")
    # --- BINARY_COERCIONS
    bc = TA.BINARY_COERCIONS
    w("/-- BINARY_COERCIONS restricted to the modelled types; each entry classified by its behaviour on a battery of operands -/")
    w("def binCo : Ty → Ty → Option CoKind")
    n_bc = 0
    for a in modelled:
        for b in modelled:
            f = bc.get((dt_of[a], dt_of[b]))
            if f is None:
                continue
            obs = []
            for ln, ls in _co_variants(DTYPE_OF[a]):
                for rn, rs in _co_variants(DTYPE_OF[b]):
                    try:
                        got = _model_ty_of_dtype(f(ln, rn)) or "?"
                    except Exception as ex:  # noqa
                        got = "exc:" + type(ex).__name__
                    obs.append((ls, rs, got))
            kinds = [k for k in CO_KINDS if all(_co_reference(k, ls, rs) == got for ls, rs, got in obs)]
            if not kinds:
                chk.broken.append({"kind": "translator", "what": f"C16 translator: structure changed: BINARY_COERCIONS[({DTYPE_OF[a]}, {DTYPE_OF[b]})] "
                                                                  f"behaves like none of {CO_KINDS}", "observed": [o[2] for o in obs][:8]})
                continue
            w(f"  | .{a}, .{b} => some .{kinds[0]}")
            n_bc += 1
    w("  | _, _ => none")
    w("")
    chk.cov["binary_coercions_modelled_keys"] = n_bc
    # --- EXPRESSION_METADATA of the modelled node classes
    w("/-- the EXPRESSION_METADATA entry (duckdb dialect) of every modelled node class -/")
    w("def md : NodeC → Meta")
    metas = {}
    for c in NODEC_ORDER:
        m, info = _classify_meta(chk, c)
        metas[c] = m
        w(f"  | .{c} => {m}    -- exp.{info['class']}")
    w("")
    chk.cov["metadata"] = metas
    typed = S["sqlglot"].parse_one("SELECT t.i / t.i FROM t", dialect="duckdb").selects[0].args.get("typed")
    dn = _model_ty_of_dtype(D.DEFAULT_NULL_TYPE)
    if dn is None:
        chk.broken.append({"kind": "translator", "what": f"C16 translator: structure changed: DEFAULT_NULL_TYPE {D.DEFAULT_NULL_TYPE!r} is not modelled"})
        dn = "unknown"
    # --- the engine table
    w(f"-- A-duck: regenerated from DuckDB {_DUCK.get('version', '?')} typeof() over the representatives of every engine class")

    def emit(name, keys, arity):
        rows = [(k, v) for k, v in keys if v != "error"]
        w(f"def {name} : " + " → ".join(["ETy"] * (arity + 1)))
        for k, v in rows:
            w("  | " + ", ".join("." + c for c in k) + f" => .{v}")
        w("  | " + ", ".join(["_"] * arity) + " => .error")
        w("")

    for op in [o for o in UN if o not in UN_WRAP]:
        emit("duckUn_" + op, [((ca,), table[("un", op, ca)]) for ca in ETY if ("un", op, ca) in table], 1)
    for op in PRED3:
        emit("duckPred3_" + op, [((ca, cb, cc), table[("pred3", op, ca, cb, cc)]) for ca in ETY for cb in ETY for cc in ETY
                                 if ("pred3", op, ca, cb, cc) in table], 3)
    for k in NARY:
        emit("duckJoin_" + k, [((ca, cb), table[("join", k, ca, cb)]) for ca in ETY for cb in ETY if ("join", k, ca, cb) in table], 2)
    for op in BIN + TERN:
        emit("duckBin_" + op, [((ca, cb), table[("bin", op, ca, cb)]) for ca in ETY for cb in ETY if ("bin", op, ca, cb) in table], 2)
    w("def duckUn : UnK → ETy → ETy")
    for op in UN_PLAIN:
        w(f"  | .{op} => duckUn_{op}" if op not in UN_WRAP else f"  | .{op} => fun e => e")
    for t in CAST_TARGETS:
        w(f"  | .cast .{t} => duckUn_cast_{t}")
    w("  | .cast _ => fun _ => .error")
    for t in CAST_TARGETS:
        w(f"  | .tryCast .{t} => duckUn_tryCast_{t}")
    w("  | .tryCast _ => fun _ => .error")
    w("")
    w("def duckBin : BinK → ETy → ETy → ETy")
    for op in BIN:
        w(f"  | .{op} => duckBin_{op}")
    w("")
    w("def duckTern : TernK → ETy → ETy → ETy")
    for op in TERN:
        w(f"  | .{op} => duckBin_{op}")
    w("")
    w("def duckPred3 : Pred3K → ETy → ETy → ETy → ETy")
    for op in PRED3:
        w(f"  | .{op} => duckPred3_{op}")
    w("")
    w("def duckWin0 : Win0K → ETy")
    for k in WIN0:
        w(f"  | .{k} => .{table[('win0', k)]}")
    w("")
    w("def duckNumLit : NumLitK → ETy")
    for k in NUMLIT:
        w(f"  | .{k} => .{table[('numlit', k)]}")
    w("")
    w("def duckJoin : NaryK → ETy → ETy → ETy")
    for k in NARY:
        w(f"  | .{k} => duckJoin_{k}")
    w("")
    w("def duckCol : Ty → ETy")
    seen = set()
    for c, (_, mty) in COLS.items():
        if mty in seen:
            continue
        seen.add(mty)
        w(f"  | .{mty} => .{ety_of_duck(duck_typeof('t.' + c))}")
    w("  | _ => .error")
    w("")
    sites = rewrite_sites(chk)
    w("/-- every place annotate_types.py writes into a node / type / meta (ast): (function, target, call|assign) -/")
    w("def writeSites : List (String × String × String) :=")
    w("  [" + ",\n   ".join(f'({lean_str(a)}, {lean_str(b)}, {lean_str(c)})' for a, b, c in sites) + "]")
    w("")
    inv = cache_inventory(chk)
    w("/-- the per-call caches of TypeAnnotator (ast of annotate_types.py): (attribute, every key expression mentions a Scope) -/")
    w("def cacheInventory : List (String × Bool) :=")
    w("  [" + ", ".join(f'("{c}", {"true" if b else "false"})' for c, b in inv) + "]")
    w("")
    w("/-- the key of `_scope_source_selects` contains the scope -/")
    w(f"def scopeCacheKeyHasScope : Bool := {'true' if dict(inv).get('_scope_source_selects') else 'false'}")
    w("")
    w("def tables : Tables where")
    w("  coercesTo := coercesTo")
    w("  integerTypes := integerTypes")
    w("  realTypes := realTypes")
    w("  floatTypes := floatTypes")
    w("  binCo := binCo")
    w("  md := md")
    w(f"  typedDivision := {'true' if typed else 'false'}")
    w(f"  defaultNullType := .{dn}")
    w("  duckUn := duckUn")
    w("  duckBin := duckBin")
    w("  duckTern := duckTern")
    w("  duckJoin := duckJoin")
    w("  duckPred3 := duckPred3")
    w("  duckWin0 := duckWin0")
    w("  duckNumLit := duckNumLit")
    w("  duckCol := duckCol")
    w("")
    w("end SqlglotModel.Generated.C16")
    return "\n".join(L) + "\n"


# ------------------------------------------------------------------------------------------ evaluation on the real sides
_EVAL = {}


def evaluate_sql(sql):
    """both real sides for one expression text: sqlglot's root type and DuckDB's typeof"""
    r = _EVAL.get(sql)
    if r is None:
        root = "?"
        try:
            name, param, same = sg_annotate(sql)
            root = _SG.get("last_root", "?")
        except Exception as ex:  # noqa
            # SQL the duckdb generator wrote but the duckdb parser rejects is not this property's business
            unparsed = type(ex).__name__ in ("ParseError", "TokenError")
            name, param, same = ("UNPARSED" if unparsed else "EXC:" + type(ex).__name__), False, True
        r = {"sql": sql, "sg": name, "param": param, "sql_same": same, "duck": duck_typeof(sql), "root": root}
        _EVAL[sql] = r
    return r


def evaluate(e):
    return evaluate_sql(render(e))


def child_desc(x):
    k = x[0]
    if k == "str":
        return "text*"
    if k in ("int", "bigLit"):
        return "integer#"
    if k == "dec":
        return "decimal#"
    if k == "iv":
        return "interval"
    if k == "null":
        return "nullUnknown"
    if k == "bool":
        return "boolean"
    if k == "col":
        return CLASS_OF[COLS[x[1]][1]]
    if k == "numlit":
        return "decimal#" if x[1] == "sci" else ("integer#:overflow" if x[1] == "overflow" else "integer#")
    return class_of_sg(evaluate(x)["sg"])


def verdict(e):
    """None when the property holds / makes no claim on e, else (kind, sgClass, duckClass)"""
    return verdict_of(evaluate(e))


def verdict_of(r):
    if r["sg"] == "UNPARSED":
        return None
    if not r["sql_same"]:
        return ("sql-changed", "", "")
    if r["sg"].startswith("EXC:"):
        return ("annotate-raised", r["sg"], "")
    ety = ety_of_duck(r["duck"])
    if ety in ("error", "other"):
        return None
    g, d = class_of_sg(r["sg"]), CLASS_OF_ETY[ety]
    if g != d:
        return ("class", g, d)
    return None


def kids_of(e):
    return [] if is_leaf(e) else list(e[2:])


def leaf_for(x):
    """a leaf with the same sqlglot type and the same engine class as the subexpression x, if there is one"""
    if is_leaf(x):
        return None
    r = evaluate(x)
    mt = model_ty_of_sg(r["sg"], r["param"])
    ety = ety_of_duck(r["duck"])
    for c, (_, t) in COLS.items():
        if t == mt and ety_of_duck(duck_typeof("t." + c)) == ety:
            return ["col", c]
    return None


def minimise(e):
    v = verdict(e)
    assert v
    changed = True
    while changed:
        changed = False
        for x in kids_of(e):
            if verdict(x):
                e, v, changed = x, verdict(x), True
                break
    # an n-ary node: drop branches while the verdict is unchanged
    if e[0] == "nary":
        i = 2
        while len(e) > 4 and i < len(e):
            cand = e[:i] + e[i + 1:]
            if verdict(cand) == v:
                e = cand
            else:
                i += 1
    # children agree: replace each compound child by a column of the same type when the verdict is unchanged
    for i in range(2, len(e)):
        if not is_leaf(e) and not is_leaf(e[i]):
            lf = leaf_for(e[i])
            if lf is not None:
                cand = e[:i] + [lf] + e[i + 1:]
                if verdict(cand) == v:
                    e = cand
    return e, v


def skeleton(e, v):
    kind, g, d = v
    if is_leaf(e):
        body = child_desc(e)
    else:
        ks = kids_of(e)
        if e[0] == "tern":
            ks = ks[1:]
        body = f"{e[1]}({','.join(child_desc(x) for x in ks)})"
    if kind == "class":
        return f"{body}|sg={g}|duck={d}"
    return f"{kind}:{body}"


def consider(chk: Check, e, source: str) -> bool:
    v = verdict(e)
    if not v:
        return False
    m, mv = minimise(e)
    r = evaluate(m)
    if mv[0] == "class":
        what = (f"annotate_types infers {r['sg']} ({mv[1]}) for `{r['sql']}` but DuckDB {_DUCK.get('version', '')} reports "
                f"{r['duck']} ({mv[2]})")
    elif mv[0] == "sql-changed":
        what = f"annotate_types changed the SQL generated for `{r['sql']}`"
    else:
        what = f"annotate_types raised {r['sg']} on `{r['sql']}`"
    chk.report_violation(skeleton(m, mv), what, {"expr": m, "sql": r["sql"], "found_in": render(e), "source": source},
                         context={"engine": "duckdb"})
    return True


# ------------------------------------------------------------------------------------------ generators
LEAVES_BY_CLASS = {
    "boolean": [["col", "bo"], ["bool"]],
    "integer": [["col", "ti"], ["col", "si"], ["col", "i"], ["col", "bi"], ["int"], ["bigLit"]],
    "decimal": [["col", "db"], ["col", "de"], ["dec"]],
    "text": [["col", "v"], ["str", "other"], ["str", "num"], ["str", "isoDate"]],
    "date": [["col", "da"]],
    "timestamp": [["col", "ts"]],
    "interval": [["iv", True], ["iv", False]],
    "null": [["null"]],
}


def gen_expr(rng, depth, want=None, agg="none"):
    """a mostly engine-valid expression of (roughly) the wanted class.  agg: none | window | must (every column under an aggregate)"""
    want = want or rng.choice(["integer", "integer", "decimal", "decimal", "text", "boolean", "date", "timestamp", "any", "any"])
    if want == "any":
        want = rng.choice(list(LEAVES_BY_CLASS))
    wild = rng.random() < 0.12  # sometimes ignore the wanted class of an operand (mixed chains, engine errors)

    def sub(w, d=depth - 1, a=agg):
        if wild and rng.random() < 0.5:
            w = rng.choice(list(LEAVES_BY_CLASS))
        return gen_expr(rng, d, w, a)

    def leaf():
        if agg == "must":
            num = want in ("integer", "decimal")
            inner = gen_expr(rng, 1, want if want in LEAVES_BY_CLASS and want not in ("null", "interval", "boolean") else "integer", "none")
            f = rng.choice(["sum", "min", "max", "avg", "count", "anyValue", "stddev"] if num else
                           ["min", "max", "count", "anyValue"] + (["groupConcat"] if want == "text" else []) + (["boolAnd", "boolOr"] if want == "boolean" else []))
            return ["un", f, inner]
        if rng.random() < 0.08:
            return ["null"]
        if want == "integer" and rng.random() < 0.08:
            return ["numlit", rng.choice(["big", "huge"])]
        if want == "decimal" and rng.random() < 0.05:
            return ["numlit", "sci"]
        return list(rng.choice(LEAVES_BY_CLASS[want]))

    if depth <= 0 or rng.random() < 0.15:
        return leaf()
    r = rng.random()
    if r < 0.16:  # branches
        if rng.random() < 0.45:
            n = rng.choice([1, 2, 3, 3, 4, 5, 6])
            args = [sub(want if rng.random() < 0.8 else rng.choice(["integer", "decimal", "text", "null"])) for _ in range(n)]
            return ["nary", rng.choice(NARY)] + args
        k = rng.choice(["caseWhen", "iff", "coalesce", "coalesce", "nullif", "greatest", "least", "arrayElem"])
        a, b = sub(want), sub(want if rng.random() < 0.8 else rng.choice(["integer", "decimal", "text", "null"]))
        if k in ("caseWhen", "iff"):
            return ["tern", k, sub("boolean"), a, b]
        return ["bin", k, a, b]
    if r < 0.22:
        t = {"integer": ["tinyint", "smallint", "int", "bigint"], "decimal": ["double", "decimalP"], "text": ["text"],
             "boolean": ["boolean"], "date": ["date"], "timestamp": ["timestampntz"]}.get(want)
        if t:
            src = rng.choice(["integer", "decimal", "text", want])
            return ["un", rng.choice(["cast_", "cast_", "tryCast_"]) + rng.choice(t), sub(src)]
    if r < 0.25 and depth >= 1 and agg != "must":
        return ["un", "subq", gen_expr(rng, depth - 1, want if want in LEAVES_BY_CLASS else "integer", rng.choice(["none", "must"]))]
    if r < 0.30 and agg == "window" and want in ("integer", "decimal", "date", "text", "timestamp"):
        if rng.random() < 0.35:
            if want == "integer" and rng.random() < 0.5:
                return ["win0", rng.choice(["rowNumber", "rank", "denseRank"])]
            if want == "decimal" and rng.random() < 0.3:
                return ["win0", rng.choice(["cumeDist", "percentRank"])]
            return ["un", rng.choice(["lag", "lead", "firstValue", "lastValue"]), sub(want, depth - 1, "none")]
        f = rng.choice(["sum", "max", "min", "count", "avg", "anyValue", "stddev", "variance", "approxDistinct"])
        if f in ("stddev", "variance") and want != "decimal":
            f = "max"
        if f == "approxDistinct" and want != "integer":
            f = "anyValue"
        wrap = rng.choice(UN_WRAP)
        if f == "count":
            return ["un", wrap, ["un", f, sub(rng.choice(["integer", "text", "date"]), depth - 1, "none")]] if want == "integer" else leaf()
        if f in ("sum", "avg") and want not in ("integer", "decimal"):
            f = "max"
        return ["un", wrap, ["un", f, sub(want, depth - 1, "none")]]
    if want == "boolean":
        k = rng.choice(["cmp", "cmp", "and", "or", "not", "isNull", "like", "pred3", "distinct", "exists"])
        if k == "pred3":
            c = rng.choice(["integer", "decimal", "text", "date"])
            return ["pred3", rng.choice(PRED3), sub(c), sub(c), sub(c if rng.random() < 0.8 else "integer")]
        if k == "distinct":
            c = rng.choice(["integer", "decimal", "text", "date", "timestamp"])
            return ["bin", rng.choice(["isDistinct", "isDistinct", "ilike"]), sub(c), sub(c)] if c != "text" else \
                ["bin", rng.choice(["isDistinct", "ilike"]), sub("text"), sub("text")]
        if k == "exists":
            return ["un", "exists", gen_expr(rng, max(depth - 1, 0), "any", "none")]
        if k == "cmp":
            c = rng.choice(["integer", "decimal", "text", "date", "timestamp"])
            return ["bin", rng.choice(["eq", "neq", "lt", "le", "gt", "ge"]), sub(c), sub(c if rng.random() < 0.7 else rng.choice(["integer", "decimal", "date", "timestamp"]))]
        if k in ("and", "or"):
            return ["bin", k, sub("boolean"), sub("boolean")]
        if k == "not":
            return ["un", "not", sub("boolean")]
        if k == "isNull":
            return ["un", "isNull", sub("any")]
        return ["bin", "like", sub("text"), ["str", "other"]]
    if want in ("integer", "decimal"):
        k = rng.choice(["arith", "arith", "arith", "neg", "abs", "fn"])
        if k == "arith":
            op = rng.choice(["add", "sub", "mul", "div", "intdiv", "mod", "pow"] if want == "decimal" else ["add", "sub", "mul", "intdiv", "mod", "add", "sub"])
            other = rng.choice(["integer", "decimal"]) if want == "decimal" else "integer"
            a, b = sub(want), sub(other)
            if rng.random() < 0.5:
                a, b = b, a
            if want == "integer" and rng.random() < 0.1:
                return ["bin", "sub", sub("date"), sub("date")]
            return ["bin", op, a, b]
        if k in ("neg", "abs"):
            return ["un", rng.choice([k, k, "ceil", "floor", "round"]), sub(want)]
        if want == "integer":
            f = rng.choice(["length", "year", "month", "day", "extractYear", "sign"])
            if f == "sign":
                return ["un", f, sub(rng.choice(["integer", "decimal"]))]
            return ["un", f, sub("text" if f == "length" else rng.choice(["date", "timestamp"]))]
        if rng.random() < 0.5:
            if agg == "must" and rng.random() < 0.3:
                return ["bin", "corr", gen_expr(rng, 1, rng.choice(["integer", "decimal"]), "none"), gen_expr(rng, 1, "decimal", "none")]
            return ["un", rng.choice(["sqrt", "ln", "exp"]), sub(rng.choice(["integer", "decimal"]))]
        return ["bin", rng.choice(["div", "pow"]), sub("integer"), sub("integer")]
    if want == "text":
        k = rng.choice(["upper", "lower", "dpipe", "concat", "dpipe"])
        if k in ("upper", "lower"):
            return ["un", k, sub("text")]
        return ["bin", k, sub("text"), sub(rng.choice(["text", "text", "integer", "date"]))]
    if want == "date":
        k = rng.choice(["addint", "subint", "leaf", "iv"])
        if k == "addint":
            return ["bin", "add", sub("date"), sub("integer")] if rng.random() < 0.8 else ["bin", "add", sub("integer"), sub("date")]
        if k == "subint":
            return ["bin", "sub", sub("date"), sub("integer")]
        if k == "iv":
            return ["bin", rng.choice(["add", "sub"]), sub("date"), list(rng.choice(LEAVES_BY_CLASS["interval"]))]
        return leaf()
    if want == "timestamp":
        k = rng.choice(["iv", "iv", "leaf", "rev"])
        if k == "iv":
            return ["bin", rng.choice(["add", "sub"]), sub("timestamp"), list(rng.choice(LEAVES_BY_CLASS["interval"]))]
        if k == "rev":
            return ["bin", "add", list(rng.choice(LEAVES_BY_CLASS["interval"])), sub("timestamp")]
        return leaf()
    if want == "interval":
        if rng.random() < 0.4:
            return ["bin", "sub", sub("timestamp"), sub("timestamp")]
        return leaf()
    return leaf()


def has_col(e):
    return e[0] == "col" or (not is_leaf(e) and any(has_col(x) for x in e[2:]))


def eng_is_null(x):
    """the engine types the operand SQLNULL (a NULL literal, CASE WHEN c THEN NULL ELSE NULL END, COALESCE(NULL, NULL), ...)"""
    return x[0] == "null" or (not is_leaf(x) and ety_of_duck(duck_typeof(render(x))) == "null")


def null_safe(e):
    """mirror of Model/Types.lean `nullSafe`: no SQLNULL-typed operand directly under a NULL-propagating operator"""
    if is_leaf(e):
        return True
    ks = e[2:]
    if e[0] != "nary" and not (e[0] == "bin" and e[1] == "coalesce"):
        direct = ks[:1] if e[0] == "tern" else ks
        if any(eng_is_null(x) for x in direct):
            return False
    return all(null_safe(x) for x in ks)


def parses_back(e):
    """`INTERVAL 1 DAY + '1'`: the parser reads a string after an interval in a sum as another interval — a different tree"""
    if is_leaf(e):
        return True
    if e[0] == "bin" and e[1] in ("add", "sub") and e[2][0] == "iv" and e[3][0] == "str":
        return False
    return all(parses_back(x) for x in e[2:])


def operands_ok(e):
    """mirror of Model/Types.lean `operandOk` on every node: a compound operand mentions a column and has no NULL literal under a
    NULL-propagating operator. DuckDB folds such operands to constants at bind time and some functions type a constant NULL like
    the NULL literal whatever its declared type (`1.5 % (1000 + NULL)`, `'a' || (NULL - t.si)` are typed "NULL"), which no
    class-level table can express."""
    return is_leaf(e) or all((is_leaf(x) or (has_col(x) and null_safe(x))) and operands_ok(x) for x in e[2:])


def random_exprs(chk: Check, n: int):
    rng = chk.rng
    out = []
    while len(out) < n:
        agg = rng.choice(["none", "none", "none", "window", "must"])
        e = gen_expr(rng, rng.choice([1, 2, 2, 3, 3, 4]), None, agg)
        if operands_ok(e) and parses_back(e):
            out.append(e)
        else:
            chk.count("gen:rejected-constant-operand")
    return out


# ------------------------------------------------------------------------------------------ correspondence
def nary_probe_exprs():
    """n-ary forms whose class is decided by ONE branch at every position (3 to 6 branches): an edit that drops, truncates or
    reorders the branches `_annotate_by_args` looks at changes the inferred class of one of them"""
    out = []
    fills = [(["col", "ti"], ["col", "db"]), (["null"], ["col", "da"]), (["int"], ["dec"]), (["col", "i"], ["dec"]), (["null"], ["col", "v"])]
    for k in NARY:
        for n in (3, 4, 5, 6):
            for pos in range(n):
                for lo, hi in fills:
                    args = [list(lo) for _ in range(n)]
                    args[pos] = list(hi)
                    out.append(["nary", k] + args)
    return out


def has_colx(e):
    return e[0] == "colx" or (not is_leaf(e) and any(has_colx(x) for x in e[2:]))


def column_reference_exprs(chk: Check):
    """the scope / column part: qualified, unqualified, other-table, unknown and upper-case column references, bare and inside
    operators (model: Model/Types.lean `annotCol` — only a column qualified with the table takes the schema's type)"""
    out = []
    for c in COLS:
        for q, name in (("", c), ("t", c.upper()), ("u", c), ("t", c + "zz")):
            x = ["colx", q, name]
            out += [x, ["bin", "add", x, ["int"]], ["bin", "coalesce", x, ["col", c]], ["un", "isNull", x],
                    ["nary", "coalesce", ["col", c], x, ["null"]]]
    return out


def decimal_grid(chk: Check):
    """(op, p1, s1, p2, s2, what the real annotate_types puts on `<left> op <right>`): left/right are CAST(t.i AS DECIMAL(p, s)) or,
    for p = None, the INT column itself. Also records how DuckDB's own DECIMAL(p, s) differs (class-level property: not a violation)."""
    S = sg()
    cases = []
    differs = []
    grid = [(18, 3), (10, 2), (5, 1), (38, 10), (20, 5), (4, 0), (None, None)]
    for op in ("+", "-", "*", "/", "%"):
        for p1, s1 in grid:
            for p2, s2 in grid:
                if p1 is None and p2 is None:
                    continue
                l = f"CAST(t.i AS DECIMAL({p1}, {s1}))" if p1 is not None else "t.i"
                r = f"CAST(t.i AS DECIMAL({p2}, {s2}))" if p2 is not None else "t.i"
                sql = f"{l} {op} {r}"
                ast = S["sqlglot"].parse_one(f"SELECT {sql} AS x FROM t", dialect="duckdb")
                ty = S["annotate_types"](ast, schema=S["schema"], dialect="duckdb").selects[0].type
                ps = [x.name for x in ty.expressions] if ty is not None else []
                real = ",".join(ps) if ps else "none"
                cases.append((op, p1, s1, p2, s2, real))
                d = duck_typeof(sql)
                if ety_of_duck(d) not in ("decimal", "double", "error"):
                    chk.broken.append({"kind": "assumption", "what": f"A-duck: DECIMAL arithmetic `{sql}` is typed {d} by DuckDB"})
                if d.startswith("DECIMAL") and real != "none" and d.replace(" ", "") != f"DECIMAL({real})" and len(differs) < 4:
                    differs.append({"sql": sql, "sqlglot": f"DECIMAL({real})", "duckdb": d})
    chk.cov["decimal_parameters"] = {"cases": len(cases), "precision_scale_differs_from_duckdb_examples": differs,
                                     "note": "sqlglot never computes a precision/scale (theorem decimal_params_never_computed); the property compares classes"}
    return cases


def derived_cases(chk: Check, n: int):
    """statements `SELECT <outer> AS x0 FROM (SELECT <inner_c> AS c, ... FROM t) AS s`: every base column c is re-projected under its
    own name through an inner expression (mostly of its class; sometimes a literal or NULL), the outer expression reads only s.*"""
    rng = chk.rng

    def to_derived(e):
        if e[0] == "col":
            return ["dcol", "s", e[1]]
        if is_leaf(e):
            return e
        return e[:2] + [to_derived(x) for x in e[2:]]

    out = []
    for _ in range(n):
        projs = []
        for c in COLS:
            r = rng.random()
            if r < 0.45:
                inner = ["col", c]
            elif r < 0.9:
                want = {"nullUnknown": "any"}.get(CLASS_OF[COLS[c][1]], CLASS_OF[COLS[c][1]])
                inner = gen_expr(rng, rng.choice([1, 2]), want, "none")
                if not (operands_ok(inner) and parses_back(inner)):
                    inner = ["col", c]
            else:
                inner = list(rng.choice([["null"], ["str", "other"], ["int"], ["dec"], ["bool"]]))
            projs.append((c, inner))
        outers = []
        while len(outers) < 4:
            e = gen_expr(rng, rng.choice([0, 1, 2, 3]), None, rng.choice(["none", "none", "window"]))
            if operands_ok(e) and parses_back(e):
                outers.append(to_derived(e))
        out.append((projs, outers))
    return out


def evaluate_stmt(sql: str):
    """first projection of a whole statement: (sqlglot type name, parameterised?, DuckDB typeof through a wrapping subquery)"""
    S = sg()
    ast = S["sqlglot"].parse_one(sql, dialect="duckdb")
    ty = S["annotate_types"](ast, schema=S["schema"], dialect="duckdb").selects[0].type
    name = ty.this.name if ty is not None and hasattr(ty.this, "name") else "NONE"
    try:
        row = duck().execute(f"SELECT typeof(x0) FROM ({sql}) LIMIT 1").fetchone()
        d = row[0] if row else "ERR empty"
    except Exception as ex:  # noqa
        d = "ERR " + type(ex).__name__
    return name, bool(ty is not None and ty.expressions), d


def correspond(chk: Check, depth1: list) -> list:
    """model vs implementation: (a) `annotFinal` vs the real annotate_types root type, (b) `eng` vs the real DuckDB typeof
    (compositionality of A-duck on nested expressions). Returns the disagreeing expressions (search hints)."""
    rng = chk.rng
    d1 = [e for e in depth1 if not has_raw(e) and parses_back(e)]
    n1 = chk.pick(2500, len(d1))
    if n1 < len(d1):
        d1 = rng.sample(d1, n1)
    exprs = d1 + random_exprs(chk, chk.pick(1500, 20000)) + column_reference_exprs(chk) + nary_probe_exprs() + \
        [["numlit", k] for k in NUMLIT] + [["win0", k] for k in WIN0]
    schema_line = json.dumps({"schema": [[c, t] for c, (_, t) in COLS.items()]})
    dec_cases = decimal_grid(chk)
    lines = [schema_line] + [json.dumps(to_model(e)) for e in exprs] + [json.dumps({"census": True})] + \
        [json.dumps({"dec": [op == "/", p1, s1, p2, s2]}) for op, p1, s1, p2, s2, _ in dec_cases]
    dcases = derived_cases(chk, chk.pick(40, 600))
    n_fixed = len(lines)
    for projs, outers in dcases:
        lines.append(json.dumps({"derive": [["s", [[c, to_model(inner)] for c, inner in projs]]]}))
        lines += [json.dumps(to_model(o)) for o in outers]
    out = chk.driver("C16", lines)
    if out[0] != "ok":
        raise HarnessError(f"driver rejected the schema: {out[0]!r}")
    got = out[1:1 + len(exprs)]
    census = json.loads(out[1 + len(exprs)])
    chk.cov["depth1_census"] = {
        "what": "operator x typed operand summaries x compatible engine classes accepted by the engine table; 'agree' = proved to "
                "agree (in no family), the named families = proved to disagree (known findings); nothing is left undecided "
                "(theorems un/bin/tern_table_exact)",
        **census,
        "totals": {"accepted": sum(census[a]["accepted"] for a in census), "proved_agree": sum(census[a].get("agree", 0) for a in census),
                   "proved_disagree": sum(census[a]["accepted"] - census[a].get("agree", 0) for a in census), "unknown": 0}}
    dec_out = out[2 + len(exprs):n_fixed]
    # --- columns reaching the expression through a derived table (model: deriveScope + annotCol .derived)
    pos = n_fixed
    d_n = d_acc = d_wf = 0
    for projs, outers in dcases:
        if out[pos] != "ok":
            raise HarnessError(f"driver rejected a derive line: {out[pos]!r}")
        pos += 1
        inner_sql = ", ".join(f"{render(inner)} AS {c}" for c, inner in projs)
        for o in outers:
            g = out[pos]
            pos += 1
            parts = g.split(" ")
            if len(parts) != 4:
                raise HarnessError(f"driver answered {g!r} for a derived-scope expression")
            sql = f"SELECT {render(o)} AS x0 FROM (SELECT {inner_sql} FROM t) AS s"
            try:
                name, param, d = evaluate_stmt(sql)
            except Exception as ex:  # noqa
                name, param, d = "EXC:" + type(ex).__name__, False, "ERR"
            d_n += 1
            chk.case(("derived", sql), nontrivial=True)
            if model_ty_of_sg(name, param) != parts[1]:
                chk.correspondence_broken("annotate_types of an expression over a derived table vs Model/Types.lean (deriveScope, annotCol)",
                                          {"sql": sql, "impl": name + ("(p,s)" if param else ""), "model": parts[1]})
            if not d.startswith("ERR") and parts[2] != "error":
                d_acc += 1
                real_ety, m_cmp = ety_of_duck(d), ("text" if parts[2] == "strlit" else parts[2])
                if real_ety == "double" and m_cmp == "decimal":
                    m_cmp = real_ety
                if real_ety != m_cmp:
                    chk.correspondence_broken("assumption A-duck over a derived table (column type of a projection = resolveCol of its class)",
                                              {"sql": sql, "duckdb": d, "model_eng": parts[2]})
                elif parts[3] == "true":
                    d_wf += 1
                    if model_ty_of_sg(name, param) == parts[1] and class_of_sg(name) != CLASS_OF_ETY.get(real_ety, "other") and real_ety != "other":
                        raise HarnessError(f"well-formed derived-scope expression disagrees although both sides correspond: {sql}")
    chk.cov["derived_scope_correspondence"] = {"statements": d_n, "accepted_and_compared": d_acc, "well_formed": d_wf}
    chk.corr_cases += d_n
    for (op, p1, s1, p2, s2, real), m in zip(dec_cases, dec_out):
        if real != m:
            chk.correspondence_broken("DECIMAL parameters annotated on an arithmetic result vs Model/Types.lean sgDecArith",
                                      {"op": op, "left": [p1, s1], "right": [p2, s2], "impl": real, "model": m})
    hints = []
    wf_n = acc_n = eng_checked = eng_model_error = 0
    for e, g in zip(exprs, got):
        parts = g.split(" ")
        if len(parts) != 4 or g.startswith("bad-input"):
            raise HarnessError(f"driver answered {g!r} for {json.dumps(to_model(e))}")
        m_annot, m_final, m_eng, m_wf = parts
        r = evaluate(e)
        real_ty = model_ty_of_sg(r["sg"], r["param"])
        chk.count("root:" + (e[1] if not is_leaf(e) else e[0]))
        accepted = not r["duck"].startswith("ERR")
        chk.case(("corr", r["sql"]), nontrivial=not is_leaf(e), sample={"sql": r["sql"], "sqlglot": r["sg"], "duckdb": r["duck"],
                                                                         "model": g} if len(chk.samples) < 6 and accepted and not is_leaf(e) else None)
        scoped = not has_colx(e)
        if real_ty != m_final:
            chk.correspondence_broken("annotate_types root type vs Model/Types.lean annotFinal",
                                      {"sql": r["sql"], "expr": e, "impl": r["sg"] + ("(p,s)" if r["param"] else ""), "model": m_final})
            hints.append(e)
        if accepted and scoped:
            acc_n += 1
            real_ety = ety_of_duck(r["duck"])
            if m_eng == "error":
                eng_model_error += 1
            else:
                eng_checked += 1
                m_cmp = "text" if m_eng == "strlit" else m_eng
                if real_ety == "double" and m_cmp == "decimal":
                    # DuckDB falls back to DOUBLE when a DECIMAL result would need more than 38 digits: same class
                    chk.count("corr:decimal-overflow-to-double")
                    m_cmp = real_ety
                if real_ety != m_cmp:
                    chk.correspondence_broken("assumption A-duck: DuckDB typeof vs the class-level engine table composed over the expression",
                                              {"sql": r["sql"], "expr": e, "duckdb": r["duck"], "model_eng": m_eng})
                    hints.append(e)
            if m_wf == "true":
                wf_n += 1
                if real_ty == m_final and real_ety == m_cmp and (verdict(e) or ("",))[0] == "class":
                    # cannot happen while theorem + correspondence hold; kept as an internal consistency check
                    raise HarnessError(f"well-formed expression disagrees although model and both real sides correspond: {r['sql']}")
    chk.corr_cases += len(exprs)
    chk.cov["correspondence"] = {"expressions": len(exprs), "accepted_by_duckdb": acc_n, "engine_class_compared": eng_checked,
                                 "accepted_but_engine_table_says_error": eng_model_error, "well_formed_and_accepted": wf_n}
    return hints


# ------------------------------------------------------------------------------------------ search
def search(chk: Check, depth1: list, hints: list, budget_s: float) -> None:
    t0 = time.time()
    tried = found = skipped = 0
    rng = chk.rng
    d1 = [e for e in depth1 if not has_raw(e) and parses_back(e)]
    if chk.quick and not chk.broken:
        d1 = rng.sample(d1, min(len(d1), 3000))

    def one(e, source):
        nonlocal tried, found, skipped
        tried += 1
        r = evaluate(e)
        if r["duck"].startswith("ERR"):
            skipped += 1
            chk.count("search:engine-rejects")
            return
        chk.count("search:engine-class:" + CLASS_OF_ETY[ety_of_duck(r["duck"])])
        chk.case(("search", r["sql"]), nontrivial=not is_leaf(e))
        if consider(chk, e, source):
            found += 1

    for e in WITNESSES + list(hints):
        one(e, "witness/hint")
    for e in nary_probe_exprs():
        one(e, "n-ary probes")
    query_stream(chk)
    sweep(chk)
    for e in d1:
        one(e, "depth-1 exhaustive over representatives")
        if len(chk.violations) >= 8:
            break
    while time.time() - t0 < budget_s and len(chk.violations) < 8:
        for e in random_exprs(chk, 50):
            one(e, "random nested")
    chk.search_info = {"ran": True, "budget_s": budget_s, "expressions": tried, "engine_rejected": skipped, "disagreeing": found,
                       "streams": "witnesses, n-ary probes, query-level scopes (same alias / column name with different types in sibling and "
                                  "nested scopes, CTEs, set operations, 1-3 aliasing levels), metadata sweep (every Binary/Unary/Func entry of the duckdb EXPRESSION_METADATA, 1-3 scalar args), "
                                  "depth-1 exhaustive over the modelled operators, random nested",
                       "oracle": "class(annotate_types root type) == class(DuckDB typeof) for every expression DuckDB accepts; "
                                 ".sql() unchanged by annotation"}


WITNESSES = [
    ["bin", "nullif", ["int"], ["un", "upper", ["col", "v"]]],
    ["bin", "nullif", ["un", "cast_int", ["col", "db"]], ["bin", "div", ["col", "bi"], ["col", "de"]]],
    ["bin", "coalesce", ["col", "da"], ["col", "ts"]],
    ["bin", "coalesce", ["col", "bo"], ["col", "si"]],
    ["bin", "add", ["col", "ti"], ["col", "da"]],
    ["bin", "sub", ["col", "da"], ["col", "da"]],
    ["bin", "add", ["col", "da"], ["iv", True]],
    ["bin", "div", ["col", "i"], ["col", "i"]],
    ["bin", "mul", ["bin", "add", ["col", "ti"], ["col", "bi"]], ["dec"]],
    ["un", "sum", ["col", "ti"]],
    ["un", "length", ["col", "v"]],
]



# ------------------------------------------------------------------------------------------ the unmodelled-but-engine-checkable sweep
SWEEP_LEAVES = {"2": "integer#", "1.5": "decimal#", "'abc'": "text*"}


def _sweep_leaf(name):
    exp = sg()["exp"]
    if name in COLS:
        return exp.column(name, table="t")
    if name == "'abc'":
        return exp.Literal.string("abc")
    return exp.Literal.number(name)


def _sweep_desc(name):
    return CLASS_OF[COLS[name][1]] if name in COLS else SWEEP_LEAVES[name]


def sweep_combos(quick=False):
    cols = list(COLS)
    l1 = [(x,) for x in cols + list(SWEEP_LEAVES)]
    num = ("ti", "si", "i", "bi", "db", "de")
    pairs = [(a, b) for a in cols for b in cols]
    if quick:  # same-type pairs, all numeric pairs and a spread of mixed ones; thorough: all 10 x 10
        keep = {("v", "i"), ("i", "v"), ("da", "i"), ("i", "da"), ("ts", "da"), ("da", "ts"), ("bo", "i"), ("i", "bo"), ("v", "da"),
                ("v", "db"), ("ts", "i"), ("bo", "v")}
        pairs = [(a, b) for a, b in pairs if a == b or (a in num and b in num) or (a, b) in keep]
    l2 = (pairs + [(a, "2") for a in cols] + [("2", a) for a in cols]
          + [(a, "'abc'") for a in ("v", "i", "da")] + [(a, "1.5") for a in ("i", "bi", "db", "de")])
    l3 = [(a, a, a) for a in cols] + [("v", "i", "i"), ("v", "v", "v"), ("v", "i", "2"), ("v", "2", "2"), ("i", "i", "db"), ("db", "i", "i"),
                                      ("v", "'abc'", "'abc'"), ("da", "da", "i"), ("i", "2", "2"), ("db", "2", "2"), ("bo", "i", "i"),
                                      ("bo", "i", "db"), ("ts", "da", "da")]
    return {1: l1, 2: l2, 3: l3}


def sweep_items(chk: Check):
    """EVERY Binary / Unary / Func class of the duckdb dialect's EXPRESSION_METADATA, instantiated generically with 1-3 scalar
    arguments over the typed columns and a few literals, rendered with the duckdb generator. Classes the Lean model covers are
    skipped (their depth-1 space is searched exhaustively by the model-shaped stream). Yields (class name, combo, sql)."""
    import logging

    S = sg()
    exp = S["exp"]
    modelled = {v[1] for v in NODEC_SAMPLES.values()}
    combos = sweep_combos(chk.quick and not chk.broken)
    lg = logging.getLogger("sqlglot")
    old = lg.level
    lg.setLevel(logging.CRITICAL)
    n_cls = n_built = 0
    try:
        live = set(S["dialect"].EXPRESSION_METADATA)
        # plus every class that HAD an entry when the check was built (corpus/C16/metadata_classes.json): an entry that
        # disappears from the table leaves the node UNKNOWN, which the oracle then compares with DuckDB's type
        base_path = os.path.join(os.path.dirname(os.path.dirname(os.path.dirname(os.path.abspath(__file__)))), "corpus", "C16", "metadata_classes.json")
        baseline = json.load(open(base_path))["classes"] if os.path.exists(base_path) else []
        gone = [n for n in baseline if isinstance(getattr(exp, n, None), type) and getattr(exp, n) not in live]
        chk.cov["sweep_entries_missing_vs_baseline"] = gone
        for cls in sorted(live | {getattr(exp, n) for n in gone}, key=lambda c: c.__name__):
            if not issubclass(cls, (exp.Func, exp.Binary, exp.Unary)) or cls.__name__ in modelled:
                continue
            n_cls += 1
            at = cls.arg_types
            req = [k for k, v in at.items() if v]
            order = req + [k for k in at if k not in req]
            for ar in (1, 2, 3):
                for combo in combos[ar]:
                    vals = [_sweep_leaf(x) for x in combo]
                    args, i = {}, 0
                    for k in order:
                        if i >= ar:
                            break
                        if k == "expressions":
                            args[k] = vals[i:]
                            i = ar
                        else:
                            args[k] = vals[i]
                            i += 1
                    if i < ar or any(k not in args for k in req):
                        continue
                    try:
                        sql = cls(**args).sql("duckdb")
                    except Exception:  # noqa
                        continue
                    n_built += 1
                    yield cls.__name__, combo, sql
    finally:
        lg.setLevel(old)
        chk.cov["sweep"] = {"metadata_classes_swept": n_cls, "instances_rendered": n_built}


def consider_sql(chk: Check, cls_name, combo, sql) -> bool:
    r = evaluate_sql(sql)
    v = verdict_of(r)
    if not v:
        return False
    head = cls_name if r["root"] == cls_name else f"{cls_name}>{r['root']}"  # what was built > what its duckdb SQL parses to
    body = f"{head}({','.join(_sweep_desc(x) for x in combo)})"
    if v[0] == "class":
        key = f"sweep:{body}|sg={v[1]}|duck={v[2]}"
        what = (f"annotate_types infers {r['sg']} ({v[1]}) for `{sql}` but DuckDB {_DUCK.get('version', '')} reports {r['duck']} ({v[2]})")
    elif v[0] == "sql-changed":
        key = f"sweep-sql-changed:{body}"
        what = f"annotate_types changed the SQL generated for `{sql}`"
    else:
        key = f"sweep-raised:{body}"
        what = f"annotate_types raised {r['sg']} on `{sql}`"
    chk.report_violation(key, what, {"sql": sql, "built_from": cls_name, "args": list(combo), "source": "metadata sweep"},
                         context={"engine": "duckdb"})
    return True


def sweep(chk: Check) -> None:
    seen = set()
    accepted = found = 0
    for cls_name, combo, sql in sweep_items(chk):
        if sql in seen:
            continue
        seen.add(sql)
        d = duck_typeof(sql)
        if d.startswith("ERR") or ety_of_duck(d) == "other":
            continue
        accepted += 1
        chk.case(("sweep", sql), nontrivial=True)
        chk.count("sweep:engine-class:" + CLASS_OF_ETY[ety_of_duck(d)])
        if consider_sql(chk, cls_name, combo, sql):
            found += 1
    chk.cov["sweep"].update({"distinct_sql": len(seen), "accepted_by_duckdb_in_a_property_class": accepted, "disagreeing": found})



# ------------------------------------------------------------------------------------------ the query-level stream (scopes)
QCOLS = ["bo", "ti", "i", "bi", "db", "de", "v", "da", "ts"]


def _outer_exprs(ref, col):
    """outer-scope expressions over the column reference `ref` whose type is column `col`'s: chosen inside the agreeing
    (WellFormed) operator/class combinations, so a mismatch is about how the column's type travelled through the scopes"""
    cls = CLASS_OF[COLS[col][1]]
    out = [ref, f"COALESCE({ref}, {ref})", f"CASE WHEN {ref} IS NULL THEN {ref} ELSE {ref} END"]
    if cls in ("integer", "decimal"):
        out += [f"{ref} + 1", f"{ref} * 2", f"-{ref}", f"SUM({ref}) OVER ()"]
    if cls == "text":
        out += [f"UPPER({ref})", f"{ref} || 'x'"]
    if cls in ("date", "timestamp"):
        out += [f"YEAR({ref})", f"{ref} < {ref}"]
    return out


def query_statements(chk: Check):
    """statements with nested / sibling scopes in which the SAME alias and the SAME column name recur with DIFFERENT types
    (derived tables, CTEs, scalar subqueries, set operations, 1-3 levels of aliasing); every outer projection is compared with
    DuckDB. Yields (template name, (type tags), sql) over all ordered pairs of column types."""
    rng = chk.rng
    pairs = [(a, b) for a in QCOLS for b in QCOLS if a != b]
    for a, b in pairs:
        ea, eb = rng.choice(_outer_exprs("s.c", a)), rng.choice(_outer_exprs("s.c", b))
        # sibling scalar subqueries, both FROM (...) AS s
        yield "sibling-scalar-subqueries", (a, b), (
            f"SELECT (SELECT {ea} FROM (SELECT t.{a} AS c FROM t) AS s) AS c0, (SELECT {eb} FROM (SELECT t.{b} AS c FROM t) AS s) AS c1 FROM t")
        # nested: the outer scope and a scalar subquery inside it both name their derived table s
        yield "outer-and-nested-subquery", (a, b), (
            f"SELECT {ea} AS c0, (SELECT {eb} FROM (SELECT t.{b} AS c FROM t) AS s) AS c1, s.c AS c2 FROM (SELECT t.{a} AS c FROM t) AS s")
        # sibling derived tables q1, q2, each reading its own inner derived table s
        yield "sibling-derived-tables", (a, b), (
            f"SELECT q1.x AS c0, q2.x AS c1 FROM (SELECT {ea} AS x FROM (SELECT t.{a} AS c FROM t) AS s) AS q1 "
            f"CROSS JOIN (SELECT {eb} AS x FROM (SELECT t.{b} AS c FROM t) AS s) AS q2")
        # CTE s at the top, shadowed by a CTE s inside a derived table
        yield "cte-shadowed-in-derived", (a, b), (
            f"WITH s AS (SELECT t.{a} AS c FROM t) SELECT {ea} AS c0, q.x AS c1 FROM s "
            f"CROSS JOIN (WITH s AS (SELECT t.{b} AS c FROM t) SELECT {eb} AS x FROM s) AS q")
        # two CTEs with different names but the same inner alias
        yield "ctes-with-same-inner-alias", (a, b), (
            f"WITH p AS (SELECT {ea} AS x FROM (SELECT t.{a} AS c FROM t) AS s), r AS (SELECT {eb} AS x FROM (SELECT t.{b} AS c FROM t) AS s) "
            f"SELECT p.x AS c0, r.x AS c1 FROM p CROSS JOIN r")
        # one derived table with two differently typed projections, read in the other order
        yield "two-projections", (a, b), (
            f"SELECT s.q AS c0, s.p AS c1, COALESCE(s.q, s.q) AS c2 FROM (SELECT t.{a} AS p, t.{b} AS q FROM t) AS s")
        # set operation whose branches read same-named derived tables
        yield "union-branches-same-alias", (a, b), (
            f"SELECT u.k AS c0, u.x AS c1 FROM (SELECT 1 AS k, CAST({ea} AS VARCHAR) AS x FROM (SELECT t.{a} AS c FROM t) AS s UNION ALL "
            f"SELECT 2 AS k, CAST({eb} AS VARCHAR) AS x FROM (SELECT t.{b} AS c FROM t) AS s) AS u")
    # 1-3 levels of aliasing, every column type
    for a in QCOLS:
        for ea in _outer_exprs("s3.c", a):
            yield "three-levels-of-aliasing", (a,), (
                f"SELECT {ea} AS c0, s3.d AS c1 FROM (SELECT s2.c AS c, s2.c AS d FROM (SELECT s1.c AS c FROM (SELECT t.{a} AS c FROM t) AS s1) AS s2) AS s3")
        yield "cte-chain", (a,), (
            f"WITH s1 AS (SELECT t.{a} AS c FROM t), s2 AS (SELECT s1.c AS c FROM s1) SELECT s2.c AS c0, COALESCE(s2.c, s2.c) AS c1 FROM s2")
    # set operations inside one chain
    for a, b in [("ti", "bi"), ("i", "db"), ("bi", "ti"), ("db", "i"), ("v", "v"), ("da", "da")]:
        yield "union-coerces-within-chain", (a, b), (
            f"SELECT u.c AS c0, COALESCE(u.c, u.c) AS c1 FROM (SELECT t.{a} AS c FROM t UNION ALL SELECT t.{b} AS c FROM t) AS u")


def query_verdicts(sql):
    """[(projection index, projection sql, sqlglot type name, DuckDB type, verdict)] for every projection of the outer query"""
    S = sg()
    ast = S["sqlglot"].parse_one(sql, dialect="duckdb")
    before = ast.sql(dialect="duckdb")
    out = S["annotate_types"](ast, schema=S["schema"], dialect="duckdb")
    same = out.sql(dialect="duckdb") == before
    n = len(out.selects)
    try:
        row = duck().execute("SELECT " + ", ".join(f"typeof(c{i})" for i in range(n)) + f" FROM ({sql}) LIMIT 1").fetchone()
    except Exception as ex:  # noqa
        return [(-1, sql, "", "ERR " + type(ex).__name__, None)], same
    res = []
    for i, sel in enumerate(out.selects):
        ty = sel.type
        name = ty.this.name if ty is not None and hasattr(ty.this, "name") else "NONE"
        d = row[i] if row else "ERR empty"
        ety = ety_of_duck(d)
        v = None
        if ety not in ("error", "other"):
            g, dc = class_of_sg(name), CLASS_OF_ETY[ety]
            if g != dc:
                v = ("class", g, dc)
        res.append((i, sel.sql(dialect="duckdb"), name, d, v))
    return res, same


def query_stream(chk: Check) -> None:
    n = rejected = found = 0
    for tmpl, tags, sql in query_statements(chk):
        if len(chk.violations) >= 8:
            break
        n += 1
        try:
            res, same = query_verdicts(sql)
        except Exception as ex:  # noqa
            chk.report_violation(f"query-raised:{tmpl}", f"annotate_types raised {type(ex).__name__} on `{sql}`",
                                 {"query": sql, "template": tmpl}, context={"engine": "duckdb"})
            continue
        if res and res[0][0] == -1:
            rejected += 1
            chk.count("query:engine-rejects")
            continue
        chk.case(("query", sql), nontrivial=True)
        chk.count("query:" + tmpl)
        if not same:
            chk.report_violation(f"query-sql-changed:{tmpl}", f"annotate_types changed the SQL generated for `{sql}`",
                                 {"query": sql, "template": tmpl}, context={"engine": "duckdb"})
        for i, psql, name, d, v in res:
            if v:
                found += 1
                tag = ",".join(CLASS_OF[COLS[c][1]] for c in tags)
                chk.report_violation(f"query:{tmpl}({tag})|c{i}|sg={v[1]}|duck={v[2]}",
                                     f"projection c{i} `{psql}` of `{sql}`: annotate_types infers {name} ({v[1]}) but DuckDB reports {d} ({v[2]})",
                                     {"query": sql, "template": tmpl, "projection": i}, context={"engine": "duckdb"})
    chk.cov["query_stream"] = {"statements": n, "engine_rejected": rejected, "disagreeing_projections": found}



# ------------------------------------------------------------------------------------------ generic metadata functions (thorough tier)
FN_MODULES = ["Generated.C16Fn", "Properties.C16Fn"]
FN_THEOREMS = ["SqlglotModel.Properties.C16Fn.metadata_functions_exact", "SqlglotModel.Properties.C16Fn.metadata_functions_census"]


def fn_inventory(chk: Check):
    """every Binary / Unary / Func class of the duckdb EXPRESSION_METADATA outside the modelled node classes, instantiated with 1 and
    2 scalar arguments: [(name, arity, cls, slot names, Lean Meta shape)] for the FAITHFUL ones (the duckdb rendering parses back to
    the same tree, and the entry has a modelled shape) + the reasons for the others. Cheap (no engine)."""
    import logging

    S = sg()
    exp = S["exp"]
    modelled = {v[1] for v in NODEC_SAMPLES.values()}
    entries, skipped = [], {}
    lg = logging.getLogger("sqlglot")
    old = lg.level
    lg.setLevel(logging.CRITICAL)
    try:
        for cls in sorted(S["dialect"].EXPRESSION_METADATA, key=lambda c: c.__name__):
            if not issubclass(cls, (exp.Func, exp.Binary, exp.Unary)) or cls.__name__ in modelled:
                continue
            at = cls.arg_types
            req = [k for k, v in at.items() if v]
            order = req + [k for k in at if k not in req]
            for ar in (1, 2):
                cols = [exp.column(c, table="t") for c in ("i", "bi")[:ar]]
                args, i = {}, 0
                for k in order:
                    if i >= ar:
                        break
                    if k == "expressions":
                        args[k] = cols[i:]
                        i = ar
                    else:
                        args[k] = cols[i]
                        i += 1
                name = f"{cls.__name__}/{ar}"
                if i < ar or any(k not in args for k in req):
                    continue
                try:
                    node = cls(**args)
                    sql = node.sql("duckdb")
                    back = S["sqlglot"].parse_one(f"SELECT {sql} FROM t", dialect="duckdb").selects[0]
                except Exception as ex:  # noqa
                    skipped[name] = "does not render / parse: " + type(ex).__name__
                    continue
                if back != node:
                    skipped[name] = f"renders as `{sql}`, which parses back to {type(back).__name__}"
                    continue
                why = []
                shape, _ = _shape_of(node, cols, lambda w: (why.append(w) or (None, None)), {})
                if shape is None:
                    skipped[name] = "shape not modelled: " + why[0]
                    continue
                entries.append((name, ar, cls, list(args), shape))
    finally:
        lg.setLevel(old)
    return entries, skipped


def fn_digest(entries) -> str:
    import hashlib

    txt = json.dumps([[n, a, sh] for n, a, _, _, sh in entries]) + "|" + _DUCK.get("version", "?") + "|" + json.dumps(representatives(), sort_keys=True)
    return hashlib.sha256(txt.encode()).hexdigest()[:20]


def fn_generated_digest():
    path = os.path.join(os.path.dirname(os.path.dirname(os.path.dirname(os.path.abspath(__file__)))), "lean", "SqlglotModel", "Generated", "C16Fn.lean")
    if not os.path.exists(path):
        return None
    m = re.search(r'def digest : String := "([0-9a-f]+)"', open(path, encoding="utf-8").read())
    return m.group(1) if m else None


def fn_translate(chk: Check, entries, digest) -> str:
    """Generated/C16Fn.lean: shapes from the live metadata + the engine class table of every entry over every class (pair),
    one representative per class, bound types from the installed DuckDB"""
    import logging

    S = sg()
    reps = representatives()
    classes = [c for c in ETY if c in reps]
    rep_node = {}
    for c in classes:
        sql = render(reps[c][0])
        rep_node[c] = S["sqlglot"].parse_one(f"SELECT {sql} FROM t", dialect="duckdb").selects[0]
    rep_node2 = {}
    for c in classes:
        sql = render(reps[c][1] if len(reps[c]) > 1 and not has_raw(reps[c][1]) else reps[c][0])
        rep_node2[c] = S["sqlglot"].parse_one(f"SELECT {sql} FROM t", dialect="duckdb").selects[0]
    lg = logging.getLogger("sqlglot")
    old = lg.level
    lg.setLevel(logging.CRITICAL)
    L = []
    w = L.append
    w("-- GENERATED by vf/props/c16.py (thorough tier, or whenever the digest below no longer matches the live metadata): the duckdb")
    w("-- EXPRESSION_METADATA entries outside the modelled node classes, and their engine class tables from the installed DuckDB.")
    w("import SqlglotModel.Model.Types")
    w("namespace SqlglotModel.Generated.C16Fn")
    w("open SqlglotModel.Types")
    w("")
    w(f'def digest : String := "{digest}"')
    w("")
    nq = 0
    try:
        for idx, (name, ar, cls, slots, shape) in enumerate(entries):
            rows = []
            for combo in ([(a,) for a in classes] if ar == 1 else [(a, b) for a in classes for b in classes]):
                vals = [rep_node[c].copy() for c in combo]
                args, i = {}, 0
                for k in slots:
                    if k == "expressions":
                        args[k] = vals[i:]
                        i = ar
                    else:
                        args[k] = vals[i]
                        i += 1
                try:
                    sql = cls(**args).sql("duckdb")
                except Exception:  # noqa
                    continue
                nq += 1
                e = ety_of_duck(duck_typeof_bind(sql))
                # a second representative of every class: the table must be class-level
                try:
                    vals2 = [rep_node2[c].copy() for c in combo]
                    args2, i2 = {}, 0
                    for k in slots:
                        if k == "expressions":
                            args2[k] = vals2[i2:]
                            i2 = ar
                        else:
                            args2[k] = vals2[i2]
                            i2 += 1
                    e2 = ety_of_duck(duck_typeof_bind(cls(**args2).sql("duckdb")))
                    nq += 1
                except Exception:  # noqa
                    e2 = "error"
                if e == "error":
                    e = e2
                elif e2 != "error" and e2 != e:
                    chk.broken.append({"kind": "assumption", "what": f"A-duck: {name} is not class-level on {combo}: {e} vs {e2}"})
                if e != "error":
                    rows.append((combo, e))
            w(f"def duck_{idx} : " + " → ".join(["ETy"] * (ar + 1)) + f"    -- {name}")
            for combo, e in rows:
                w("  | " + ", ".join("." + c for c in combo) + f" => .{e}")
            w("  | " + ", ".join(["_"] * ar) + " => .error")
            w("")
    finally:
        lg.setLevel(old)
    w("def name : Nat → String")
    for idx, (n, *_r) in enumerate(entries):
        w(f'  | {idx} => "{n.split("/")[0]}"')
    w('  | _ => ""')
    w("")
    w("def arity : Nat → Nat")
    for idx, e in enumerate(entries):
        w(f"  | {idx} => {e[1]}")
    w("  | _ => 0")
    w("")
    w("def shape : Nat → Meta")
    for idx, e in enumerate(entries):
        w(f"  | {idx} => {e[4]}")
    w("  | _ => .notModelled")
    w("")
    w("def duck1 : Nat → ETy → ETy")
    for idx, e in enumerate(entries):
        if e[1] == 1:
            w(f"  | {idx} => duck_{idx}")
    w("  | _ => fun _ => .error")
    w("")
    w("def duck2 : Nat → ETy → ETy → ETy")
    for idx, e in enumerate(entries):
        if e[1] == 2:
            w(f"  | {idx} => duck_{idx}")
    w("  | _ => fun _ _ => .error")
    w("")
    w("def tables : FnTables where")
    w(f"  count := {len(entries)}")
    w("  name := name")
    w("  arity := arity")
    w("  shape := shape")
    w("  duck1 := duck1")
    w("  duck2 := duck2")
    w("")
    w("end SqlglotModel.Generated.C16Fn")
    chk.cov.setdefault("metadata_functions", {})["typeof_queries"] = nq
    return "\n".join(L) + "\n"


def metadata_functions(chk: Check) -> None:
    """both tiers: regenerate the generic-function table (cheap: bound types, one or two representatives per class) and decide
    it (theorem metadata_functions_exact; the Lean build is a no-op while the table is unchanged)"""
    entries, skipped = fn_inventory(chk)
    digest = fn_digest(entries)
    have = fn_generated_digest()
    info = chk.cov.setdefault("metadata_functions", {})
    info.update({"entries": len(entries), "not_faithful_or_unmodelled_shape": len(skipped), "digest": digest,
                 "table_changed_since_last_run": have != digest, "skipped_examples": dict(list(skipped.items())[:6]),
                 "proved_in": "this run, both tiers (complete decision over every entry x typed operand summaries x compatible engine "
                              "classes; the thorough tier forces a rebuild)"})
    chk.write_generated(fn_translate(chk, entries, digest), name="C16Fn")
    chk.prove(FN_MODULES, "Properties.C16Fn", FN_THEOREMS)


# ------------------------------------------------------------------------------------------ entry points
def run(chk: Check) -> None:
    chk.trusted.append("C16: hand-written model Model/Types.lean of TypeAnnotator._maybe_coerce/_annotate_by_args/_annotate_binary/"
                       "_annotate_unary/_annotate_div/_annotate_literal and the EXPRESSION_METADATA dispatch; the installed DuckDB as the engine")
    chk.assumptions += [
        "A-duck: DuckDB's result class of an operator depends only on its operands' engine classes (boolean, integer, hugeint, double, "
        "decimal, text, string literal, date, timestamp, interval, NULL); the table is regenerated exhaustively from typeof() over "
        "representatives on every run (determinism checked) and its composition over nested expressions is compared with typeof() on "
        "the generated expressions (sampled)",
        "engine errors make no claim: where DuckDB rejects an expression the property says nothing (such nodes are outside WellFormed)",
        "modelled fragment: 20 unary operators/functions/aggregates/window forms + CAST to 11 types, 19 binary operators, CASE/IF; "
        "the other ~600 function signatures, nested types, set operations and decimals' precision/scale are not modelled",
        "the class of a type is the property's: boolean, integer, decimal/floating, text, date, timestamp, interval, NULL/unknown",
    ]
    duck()
    chk.cov["duckdb_version"] = _DUCK["version"]
    table, issues, depth1 = engine_table()
    chk.cov["engine_table"] = {"entries": len(table), "accepted": sum(1 for v in table.values() if v != "error"),
                               "typeof_queries": len(depth1), "nondeterministic_class_pairs": len(issues)}
    for i in issues[:5]:
        chk.broken.append({"kind": "assumption", "what": "A-duck: the engine is not class-level for " + json.dumps(i)})
    chk.write_generated(translate(chk, table))
    proved = chk.prove(MODULES, "Properties.C16", THEOREMS)
    metadata_functions(chk)
    hints = []
    try:
        hints = correspond(chk, depth1)
    except HarnessError as e:
        if proved:
            raise
        chk.note(f"model driver unavailable ({e}); continuing with the search on the real code")
    budget = chk.pick(6, 240)
    if chk.broken:
        budget *= 3
    search(chk, depth1, hints, budget)


def replay(path: str) -> int:
    rec = json.load(open(path))
    r = rec.get("replay")
    if not r:
        print(json.dumps(rec, indent=1))
        return 1
    if "query" in r:
        res, same = query_verdicts(r["query"])
        bad = [x for x in res if x[4]]
        for i, psql, name, d, v in res:
            print(f"replay: projection c{i} `{psql}`: annotate_types -> {name}, DuckDB typeof -> {d}")
        print("replay:", f"VIOLATES: {[(x[0], x[4]) for x in bad]}" if bad or not same else "holds")
        return 1 if bad or not same else 0
    if "expr" not in r:
        ev = evaluate_sql(r["sql"])
        v = verdict_of(ev)
        print(f"replay: `{ev['sql']}`: annotate_types -> {ev['sg']}, DuckDB typeof -> {ev['duck']}, sql unchanged: {ev['sql_same']}")
        print("replay:", f"VIOLATES: {v}" if v else "holds")
        return 1 if v else 0
    e = r["expr"]
    ev = evaluate(e)
    v = verdict(e)
    print(f"replay: `{ev['sql']}`: annotate_types -> {ev['sg']}, DuckDB typeof -> {ev['duck']}, sql unchanged: {ev['sql_same']}")
    print("replay:", "VIOLATES: " + skeleton(e, v) if v else "holds")
    return 1 if v else 0
