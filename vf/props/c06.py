"""C06 — Simplification and normal forms preserve SQL three-valued logic exactly (DESIGN.md §4 C06).

translate : COMPLEMENT_COMPARISONS / INVERSE_COMPARISONS / INVERSE_OPS, the rule pipeline of Simplifier._simplify (ast),
            the dialect flags, the class facts the model's parent-kind tables rely on  -> Generated/C06.lean
prove     : Properties/C06.lean (one soundness theorem per mirrored rule, the verified step checker, witnesses)
correspond: every step the real pipeline performs is observed by wrapping the Simplifier rule methods (harness side,
            no source hooks) and (a) compared exactly with the model's mirror of that rule, or (b) fed to `checkStep`
search    : the property's own oracle on the real code: before/after of simplify / normalize and of every observed
            step evaluated under ALL assignments of their columns ({NULL,TRUE,FALSE} / {NULL} ∪ integers around every
            literal) with a Python 3VL evaluator that is differential-tested against SQLite and the Lean `eval`;
            normalize's result must be in the requested normal form or unchanged.
"""

from __future__ import annotations

import ast
import functools
import itertools
import json
import operator
import os
import re
import time
import zlib

from vf.core import Check, REPO, HarnessError

MODULES = ["Sem.ThreeVL", "Model.Simplify", "Proofs.Simplify", "Generated.C06", "Properties.C06"]
P = "SqlglotModel.Properties.C06."
THEOREMS = [P + n for n in [
    "generated_complement_ok", "generated_inverse_ok", "generated_inverse_ops_ok", "generated_subflip_ok",
    "generated_pipeline_known", "generated_parens_guard_reparse_safe", "simplify_parens_text_safe", "parens_known_unsafe_witness",
    "generated_parens_guard_matches_model",
    "rewrite_between_sound", "rewrite_between_keeps_grouping", "rewrite_between_not_only_witness", "simplify_not_sound", "conn_const_sound", "conn_const_exact", "bin_pair_sound",
    "simplify_neg_neg_sound", "simplify_equality_sound", "simplify_parens_sound", "flatten_sound",
    "simplify_conditionals_if_sound", "simplify_conditionals_sound", "simplify_conditionals_needs_first_branch",
    "simplify_conditionals_keeps_grouping", "simplify_conditionals_flag_skips_after_pop", "wrap_needed_for_same_op_subtraction",
    "simplify_coalesce_head_sound", "simplify_coalesce_cmp_sound", "simplify_coalesce_needs_nonnull_constant",
    "simplify_coalesce_guard_subject_needed", "simplify_coalesce_not_subject_grouped",
    "simplify_comparison_bounds_sound", "simplify_comparison_tie_needed",
    "simplify_comparison_nonnull_sound", "simplify_comparison_where_sound", "simplify_comparison_false_nonnull",
    "simplify_comparison_not_where_counterexample", "simplify_comparison_nonfalse_sound", "exact_pair_sound",
    "flat_simplify_sound", "simplify_connectors_exact_sound", "simplify_literals_add_sound", "simplify_literals_mul_sound",
    "distributive_law_sound", "distribute_exact", "generated_distribute_no_sharing", "distribute_copy_false_shares", "uniq_sort_sound", "remove_complements_sound",
    "propagate_constants_where_sound", "propagate_constants_nonnull_sound", "propagate_constants_null_counterexample",
    "checkStep_sound", "checkStep_exact", "nonnull_needed", "nonnull_needed_absorb",
    "simplify_comparison_and_false_counterexample", "normalize_result", "while_changing_sound",
]] + ["SqlglotModel.Simplify.ttCheck_sound", "SqlglotModel.Simplify.checkAll_sound",
                   "SqlglotModel.Simplify.caseLoop_sound", "SqlglotModel.Simplify.evalCoalesce_split", "SqlglotModel.Simplify.eval_wrapForParent",
                   "SqlglotModel.Simplify.splitAtConst_ends", "SqlglotModel.Simplify.endsCoalesce_ne_null",
                   "SqlglotModel.Simplify.flatSimplify_sound", "SqlglotModel.Simplify.flatLoop_sound", "SqlglotModel.Simplify.tryPair_sound",
                   "SqlglotModel.Simplify.distLaw_all", "SqlglotModel.Simplify.distTop_sound", "SqlglotModel.Simplify.distribute_sound",
                   "SqlglotModel.Simplify.uniqSortWith_sound", "SqlglotModel.Simplify.removeComplements_sound",
                   "SqlglotModel.Simplify.foldSem_sameSet", "SqlglotModel.Simplify.substAll_all", "SqlglotModel.Simplify.substSpine_sound",
                   "SqlglotModel.Simplify.bindings_true", "SqlglotModel.Simplify.conjBindings_subset", "SqlglotModel.Simplify.binding_false"]

KNOWN_PRE = ["rewrite_between", "uniq_sort", "absorb_and_eliminate", "simplify_concat", "simplify_conditionals", "propagate_constants"]
KNOWN_POST = ["simplify_not", "flatten", "simplify_connectors", "remove_complements", "simplify_coalesce", "simplify_literals",
              "simplify_equality", "simplify_parens", "simplify_datetrunc", "sort_comparison", "simplify_startswith"]
CMP_NAMES = {"EQ": "eq", "NEQ": "neq", "LT": "lt", "LTE": "lte", "GT": "gt", "GTE": "gte"}


def sg():
    import sqlglot  # noqa
    from sqlglot import exp
    import sqlglot.optimizer.simplify as S
    import sqlglot.optimizer.normalize as N
    return exp, S, N


# ------------------------------------------------------------------------------------------ translate
def pipeline_from_ast(chk: Check):
    src = open(os.path.join(REPO, "sqlglot", "optimizer", "simplify.py"), encoding="utf-8").read()
    tree = ast.parse(src)
    pre = post = None
    for cls in [n for n in tree.body if isinstance(n, ast.ClassDef) and n.name == "Simplifier"]:
        for fn in [n for n in cls.body if isinstance(n, ast.FunctionDef) and n.name == "_simplify"]:
            loops = [n for n in fn.body if isinstance(n, ast.While)]
            if len(loops) != 2:
                break
            out = []
            for lp in loops:
                names = []
                for node in ast.walk(lp):
                    if isinstance(node, ast.Assign) and len(node.targets) == 1 and isinstance(node.targets[0], ast.Name) \
                            and node.targets[0].id == "node" and isinstance(node.value, ast.Call):
                        f = node.value.func
                        nm = f.attr if isinstance(f, ast.Attribute) else (f.id if isinstance(f, ast.Name) else None)
                        if nm:
                            names.append((node.lineno, nm))
                out.append([n for _, n in sorted(names)])
            pre, post = out
    if pre is None:
        chk.broken.append({"kind": "translator", "what": "C06 translator: structure changed: Simplifier._simplify is not two while loops"})
        pre, post = KNOWN_PRE, KNOWN_POST
    return pre, post


PKINDS = ["none", "func", "paren", "or", "and", "not", "eq", "rel", "is", "between", "inList", "add", "sub", "mul", "neg", "atom"]


def parens_guard_from_ast(chk: Check):
    """The guard list of simplify_parens as a Lean Bool expression over (kind of `this`, kind of `parent`) plus the class
    facts it mentions (issubclass on a representative class per kind): which (this, parent) pairs lose their parentheses."""
    exp, S, N = sg()
    reps = {"none": None, "func": exp.Coalesce, "paren": exp.Paren, "or": exp.Or, "and": exp.And, "not": exp.Not, "eq": exp.EQ,
            "rel": exp.LT, "is": exp.Is, "between": exp.Between, "inList": exp.In, "add": exp.Add, "sub": exp.Sub, "mul": exp.Mul,
            "neg": exp.Neg, "atom": exp.Column}
    src = open(os.path.join(REPO, "sqlglot", "optimizer", "simplify.py"), encoding="utf-8").read()
    fn = next((n for n in ast.parse(src).body if isinstance(n, ast.FunctionDef) and n.name == "simplify_parens"), None)
    classes = set()
    unknown = []
    aliases = {}

    def cls_names(node):
        if isinstance(node, ast.Tuple):
            return [x for e in node.elts for x in cls_names(e)]
        if isinstance(node, ast.Attribute) and isinstance(node.value, ast.Name) and node.value.id == "exp":
            return [node.attr]
        raise ValueError(ast.dump(node))

    def tr(node):
        if isinstance(node, ast.BoolOp):
            op = " && " if isinstance(node.op, ast.And) else " || "
            return "(" + op.join(tr(v) for v in node.values) + ")"
        if isinstance(node, ast.UnaryOp) and isinstance(node.op, ast.Not):
            return "(!" + tr(node.operand) + ")"
        if isinstance(node, ast.Name) and node.id in aliases:
            return aliases[node.id]
        if isinstance(node, ast.Call) and isinstance(node.func, ast.Name) and node.func.id == "isinstance" and len(node.args) == 2:
            subj = node.args[0]
            try:
                names = cls_names(node.args[1])
            except ValueError:
                names = None
            if names is not None and isinstance(subj, ast.Name) and subj.id in ("this", "parent"):
                classes.update(names)
                v = "t" if subj.id == "this" else "p"
                return "(" + " || ".join(f"kindIsA {v} {json.dumps(n)}" for n in names) + ")"
            if names == ["Paren"] and isinstance(subj, ast.Name) and subj.id == "expression":
                return "true"
        unknown.append(ast.unparse(node))
        return "true"  # an atom the model does not know: assume it may hold

    steps = []
    ok = fn is not None
    if ok:
        for st in fn.body:
            if isinstance(st, ast.Assign) and len(st.targets) == 1 and isinstance(st.targets[0], ast.Name):
                nm = st.targets[0].id
                if nm in ("this", "parent"):
                    continue
                aliases[nm] = tr(st.value)
            elif isinstance(st, ast.If) and len(st.body) == 1 and isinstance(st.body[0], ast.Return) and not st.orelse \
                    and isinstance(st.body[0].value, ast.Name) and st.body[0].value.id in ("this", "expression"):
                steps.append((tr(st.test), st.body[0].value.id == "this"))
            elif isinstance(st, ast.Return) and isinstance(st.value, ast.Name) and st.value.id in ("this", "expression"):
                steps.append(("true", st.value.id == "this"))
            elif isinstance(st, ast.Expr) and isinstance(st.value, ast.Constant):
                continue
            else:
                ok = False
    if not ok or not steps:
        chk.broken.append({"kind": "translator", "what": "C06 translator: structure changed: simplify_parens is not a list of guarded returns"})
        steps = [("true", False)]
    body = ""
    for cond, drop in steps:
        body += f"  if {cond} then {'true' if drop else 'false'} else\n"
    body += "  false\n"
    rows = []
    for k in PKINDS:
        c = reps[k]
        yes = sorted(n for n in classes if c is not None and hasattr(exp, n) and issubclass(c, getattr(exp, n)))
        rows.append(f"  | .{k}, s => " + (" || ".join(f"s == {json.dumps(n)}" for n in yes) if yes else "false"))
    chk.cov["parens_guard"] = {"steps": len(steps), "classes": sorted(classes), "unknown_atoms": unknown}
    return ("def kindIsA : PKind → String → Bool\n" + "\n".join(rows) + "\n"
            "/-- the guard list of simplify_parens (ast of the source): are the parentheses of a `t` under a `p` dropped? -/\n"
            "def parensGuard (t p : PKind) : Bool :=\n" + body)


def distribute_uses_from_ast(chk: Check) -> str:
    """which operands normalize._distribute copies and which it moves (ast of the from_func calls)"""
    src = open(os.path.join(REPO, "sqlglot", "optimizer", "normalize.py"), encoding="utf-8").read()
    fn = next((n for n in ast.parse(src).body if isinstance(n, ast.FunctionDef) and n.name == "_distribute"), None)
    uses = []
    ok = fn is not None
    if ok:
        lambdas = [n for n in ast.walk(fn) if isinstance(n, ast.Lambda)]
        in_lambda = {id(x) for lam in lambdas for x in ast.walk(lam)}
        calls = [n for n in ast.walk(fn) if isinstance(n, ast.Call) and isinstance(n.func, ast.Name) and n.func.id == "from_func"]
        calls.sort(key=lambda n: (n.lineno, n.col_offset))
        names = {"a": "a", "c": "c", "b.left": "bLeft", "b.right": "bRight"}
        for call in calls:
            copied = True
            for kw in call.keywords:
                if kw.arg == "copy":
                    copied = not (isinstance(kw.value, ast.Constant) and kw.value.value is False)
                else:
                    ok = False
            for arg in call.args:
                uses.append((id(call) in in_lambda, names.get(ast.unparse(arg), "other"), copied))
        if len(calls) != 4:
            ok = False
        # to_func must not copy (its operands are the fresh clauses) - pinned too
    if not ok:
        chk.broken.append({"kind": "translator", "what": "C06 translator: structure changed: normalize._distribute is not four from_func(x, y) calls"})
    chk.cov["distribute_uses"] = [{"per_child": u[0], "operand": u[1], "copied": u[2]} for u in uses]
    return ("/-- the operand uses of normalize._distribute (ast): (inside the per-child lambda, operand, deep-copied?) -/\n"
            "def distributeUses : List DistUse := ["
            + ", ".join(f"⟨{'true' if u[0] else 'false'}, .{u[1]}, {'true' if u[2] else 'false'}⟩" for u in uses) + "]\n")


def _case_loop_pinned() -> dict:
    """simplify_conditionals' CASE loop as the model's `caseLoop` mirrors it: a for-loop over the LIVE `ifs` list, a pop of the
    current branch inside it (so the next branch is skipped), and the early return of a statically-true branch guarded by
    the identity test `case is expression.args["ifs"][0]` followed by `break`"""
    out = {"case_loop_header": False, "case_pop_in_loop": False, "case_first_branch_identity": False, "case_no_extra_state": False}
    src = open(os.path.join(REPO, "sqlglot", "optimizer", "simplify.py"), encoding="utf-8").read()
    norm = lambda n: re.sub(r"\s+", "", ast.unparse(n)).replace('"', "'")  # noqa
    for cls in [n for n in ast.parse(src).body if isinstance(n, ast.ClassDef) and n.name == "Simplifier"]:
        for fn in [n for n in cls.body if isinstance(n, ast.FunctionDef) and n.name == "simplify_conditionals"]:
            loops = [n for n in ast.walk(fn) if isinstance(n, ast.For)]
            if len(loops) != 1:
                return out
            loop = loops[0]
            out["case_loop_header"] = norm(loop.target) == "case" and norm(loop.iter) == "expression.args['ifs']" and not loop.orelse
            out["case_pop_in_loop"] = any(isinstance(n, ast.Call) and norm(n.func) == "case.pop" for n in ast.walk(loop))
            for st in loop.body:
                if isinstance(st, ast.If) and norm(st.test) == "always_true(cond)":
                    b = st.body
                    out["case_first_branch_identity"] = (
                        len(b) == 2 and isinstance(b[0], ast.If) and norm(b[0].test) == "caseisexpression.args['ifs'][0]"
                        and len(b[0].body) == 1 and isinstance(b[0].body[0], ast.Return) and not b[0].orelse and isinstance(b[1], ast.Break))
            # no loop-carried state besides the list itself: the only names assigned in the loop are `cond`
            assigned = {norm(t) for n in ast.walk(loop) if isinstance(n, ast.Assign) for t in n.targets}
            out["case_no_extra_state"] = assigned <= {"cond"}
    return out


def _wrap_helper_pinned() -> bool:
    """_parenthesize_for_parent wraps iff parent and argument are Binary / Unary / Predicate and the argument is not a Paren —
    nothing else (what `wrapForParent` in the model mirrors)"""
    src = open(os.path.join(REPO, "sqlglot", "optimizer", "simplify.py"), encoding="utf-8").read()
    fn = next((n for n in ast.parse(src).body if isinstance(n, ast.FunctionDef) and n.name == "_parenthesize_for_parent"), None)
    if fn is None:
        return False
    ifs = [n for n in fn.body if isinstance(n, ast.If)]
    if len(ifs) != 1:
        return False
    text = re.sub(r"[\s()]+", "", ast.unparse(ifs[0].test))
    return text == ("isinstanceparent,exp.Binary,exp.Unary,exp.Predicateandisinstanceexpression,exp.Binary,exp.Unary,exp.Predicate"
                    "andnotisinstanceexpression,exp.Paren")


def _between_wrap_pinned() -> bool:
    src = open(os.path.join(REPO, "sqlglot", "optimizer", "simplify.py"), encoding="utf-8").read()
    for cls in [n for n in ast.parse(src).body if isinstance(n, ast.ClassDef) and n.name == "Simplifier"]:
        for fn in [n for n in cls.body if isinstance(n, ast.FunctionDef) and n.name == "rewrite_between"]:
            for node in ast.walk(fn):
                if isinstance(node, ast.Assign) and len(node.targets) == 1 and isinstance(node.targets[0], ast.Name) and node.targets[0].id == "wrap":
                    text = re.sub(r"[\s()]+", "", ast.unparse(node.value))
                    return text == "isinstanceparent,exp.Binary,exp.Unary,exp.Predicateandnotisinstanceparent,exp.Connector,exp.Paren"
    return False


def translate(chk: Check) -> str:
    exp, S, N = sg()
    from sqlglot.dialects.dialect import Dialect, Dialects
    Sx = S.Simplifier
    classes = [exp.EQ, exp.NEQ, exp.LT, exp.LTE, exp.GT, exp.GTE]

    def table(name, d, default_identity):
        lines = [f"def {name} : Cmp → Cmp"]
        for c in classes:
            tgt = d.get(c, c if default_identity else None)
            if tgt is None or tgt.__name__ not in CMP_NAMES:
                chk.broken.append({"kind": "translator", "what": f"C06 translator: structure changed: {name}[{c.__name__}] = {tgt}"})
                tgt = c
            lines.append(f"  | .{CMP_NAMES[c.__name__]} => .{CMP_NAMES[tgt.__name__]}")
        return "\n".join(lines)

    pre, post = pipeline_from_ast(chk)
    flags = []
    for d in Dialects:
        inst = Dialect.get_or_raise(d.value or None)
        flags.append((d.value or "", bool(inst.SAFE_TO_ELIMINATE_DOUBLE_NEGATION), bool(inst.COALESCE_COMPARISON_NON_STANDARD)))
    flags.sort()
    # class facts hard-coded in the model's parent-kind tables (pkIsPredicate, pkIsBinaryNonConn, eIsBinary ...)
    facts = {
        "predicates": all(issubclass(c, exp.Predicate) for c in classes + [exp.Is, exp.Between, exp.In]),
        "non_predicates": not any(issubclass(c, exp.Predicate) for c in (exp.And, exp.Or, exp.Not, exp.Paren, exp.Add, exp.Sub, exp.Mul, exp.Neg, exp.Coalesce, exp.Case, exp.If, exp.Column)),
        "binaries": all(issubclass(c, exp.Binary) for c in classes + [exp.Is, exp.Add, exp.Sub, exp.Mul, exp.And, exp.Or]),
        "non_binaries": not any(issubclass(c, exp.Binary) for c in (exp.Not, exp.Paren, exp.Neg, exp.Coalesce, exp.Case, exp.If, exp.Column, exp.Between, exp.In, exp.Literal, exp.Null, exp.Boolean)),
        "connectors": issubclass(exp.And, exp.Connector) and issubclass(exp.Or, exp.Connector) and not any(issubclass(c, exp.Connector) for c in classes + [exp.Is, exp.Add, exp.Sub, exp.Mul]),
        "conditions": all(issubclass(c, (exp.Condition, exp.Binary)) for c in classes + [exp.Is, exp.Between, exp.In, exp.And, exp.Or, exp.Not, exp.Paren, exp.Add, exp.Sub, exp.Mul, exp.Neg, exp.Coalesce, exp.Case, exp.If]),
        # what _parenthesize_for_parent (wrapForParent in the model) tests
        "unaries": all(issubclass(c, exp.Unary) for c in (exp.Not, exp.Neg, exp.Paren))
        and not any(issubclass(c, exp.Unary) for c in classes + [exp.Is, exp.And, exp.Or, exp.Add, exp.Sub, exp.Mul, exp.Between, exp.In,
                                                            exp.Coalesce, exp.Case, exp.If, exp.Column, exp.Literal, exp.Null, exp.Boolean]),
        "wrap_helper": hasattr(S, "_parenthesize_for_parent") and _wrap_helper_pinned(),
        # rewrite_between's `wrap`: isinstance(parent, (Binary, Unary, Predicate)) and not isinstance(parent, (Connector, Paren))
        "between_wrap": _between_wrap_pinned(),
        **_case_loop_pinned(),
        # simplify_coalesce wraps a NOT guard subject (b0a036f): `if isinstance(this, exp.Not): this = exp.paren(this.copy(), copy=False)`
        "coalesce_not_subject_wrap": bool(re.search(r"if isinstance\(this, exp\.Not\):\s+this = exp\.paren\(this\.copy\(\), copy=False\)",
                                                    open(os.path.join(REPO, "sqlglot", "optimizer", "simplify.py"), encoding="utf-8").read())),
        "comparisons": set(Sx.COMPARISONS) == set(classes + [exp.Is]),
        "lt_lte": tuple(Sx.LT_LTE) == (exp.LT, exp.LTE) and tuple(Sx.GT_GTE) == (exp.GT, exp.GTE),
        "constants": set(exp.CONSTANTS) == {exp.Literal, exp.Boolean, exp.Null} and set(exp.NONNULL_CONSTANTS) == {exp.Literal, exp.Boolean},
        "safe_result": set(Sx.SAFE_CONNECTOR_ELIMINATION_RESULT) == {exp.Connector, exp.Boolean},
    }
    for k, v in facts.items():
        if not v:
            chk.broken.append({"kind": "translator", "what": f"C06 translator: structure changed: class fact '{k}' no longer holds"})
    chk.cov["class_facts"] = facts
    chk.cov["pipeline"] = {"pre": pre, "post": post}
    inv_ops = Sx.INVERSE_OPS
    return (
        "-- GENERATED by vf/props/c06.py from sqlglot/optimizer/simplify.py and the dialect classes. Do not edit.\n"
        "import SqlglotModel.Model.Simplify\n"
        "namespace SqlglotModel.Generated.C06\n"
        "open SqlglotModel.ThreeVL SqlglotModel.Simplify\n"
        + table("complement", Sx.COMPLEMENT_COMPARISONS, False) + "\n"
        + table("inverseCmp", Sx.INVERSE_COMPARISONS, True) + "\n"
        + f"def addInverseIsSub : Bool := {'true' if inv_ops.get(exp.Add) is exp.Sub else 'false'}\n"
        + f"def subInverseIsAdd : Bool := {'true' if inv_ops.get(exp.Sub) is exp.Add else 'false'}\n"
        + "def preOrder : List String := [" + ", ".join(json.dumps(x) for x in pre) + "]\n"
        + "def postOrder : List String := [" + ", ".join(json.dumps(x) for x in post) + "]\n"
        + "-- (dialect, SAFE_TO_ELIMINATE_DOUBLE_NEGATION, COALESCE_COMPARISON_NON_STANDARD)\n"
        + "def dialectFlags : List (String × Bool × Bool) := ["
        + ", ".join(f"({json.dumps(n)}, {'true' if a else 'false'}, {'true' if b else 'false'})" for n, a, b in flags) + "]\n"
        + parens_guard_from_ast(chk)
        + distribute_uses_from_ast(chk)
        + "end SqlglotModel.Generated.C06\n"
    )


# ------------------------------------------------------------------------------------------ 3VL evaluator (Python)
class Unsupported(Exception):
    pass


def truth(v):
    return None if v is None else bool(v)


def k_and(a, b):
    a = truth(a); b = truth(b)
    if a is False or b is False:
        return False
    if a is None or b is None:
        return None
    return True


def k_or(a, b):
    a = truth(a); b = truth(b)
    if a is True or b is True:
        return True
    if a is None or b is None:
        return None
    return False


def k_not(a):
    a = truth(a)
    return None if a is None else (not a)


def comp(n):
    """compile a sqlglot expression of the fragment to a function env -> None | bool | int"""
    exp, _, _ = sg()
    CMP = {exp.EQ: operator.eq, exp.NEQ: operator.ne, exp.LT: operator.lt, exp.LTE: operator.le, exp.GT: operator.gt, exp.GTE: operator.ge}
    ARITH = {exp.Add: operator.add, exp.Sub: operator.sub, exp.Mul: operator.mul}

    def go(n):
        t = type(n)
        if t is exp.Column:
            name = n.name
            return lambda env: env[name]
        if t is exp.Literal:
            if n.is_string:
                raise Unsupported("string literal")
            v = n.to_py()
            if not isinstance(v, int):
                raise Unsupported("non-int literal")
            return lambda env: v
        if t is exp.Boolean:
            v = bool(n.this)
            return lambda env: v
        if t is exp.Null:
            return lambda env: None
        if t is exp.Paren:
            return go(n.this)
        if t is exp.And:
            a, b = go(n.this), go(n.expression)
            return lambda env: k_and(a(env), b(env))
        if t is exp.Or:
            a, b = go(n.this), go(n.expression)
            return lambda env: k_or(a(env), b(env))
        if t is exp.Not:
            a = go(n.this)
            return lambda env: k_not(a(env))
        if t in CMP:
            f = CMP[t]; a, b = go(n.this), go(n.expression)

            def c(env):
                x = a(env); y = b(env)
                return None if x is None or y is None else f(x, y)
            return c
        if t in ARITH:
            f = ARITH[t]; a, b = go(n.this), go(n.expression)

            def c(env):
                x = a(env); y = b(env)
                return None if x is None or y is None else f(int(x), int(y))
            return c
        if t is exp.Neg:
            a = go(n.this)

            def c(env):
                x = a(env)
                return None if x is None else -int(x)
            return c
        if t is exp.Is:
            a = go(n.this); r = n.expression; neg = bool(n.args.get("negate"))
            if type(r) is exp.Null:
                return (lambda env: a(env) is not None) if neg else (lambda env: a(env) is None)
            if type(r) is exp.Boolean:
                want = bool(r.this)

                def c(env):
                    x = truth(a(env))
                    res = x is not None and x == want
                    return (not res) if neg else res
                return c
            raise Unsupported("IS rhs " + type(r).__name__)
        if t is exp.Between:
            if n.args.get("symmetric"):
                raise Unsupported("between symmetric")
            a, lo, hi = go(n.this), go(n.args["low"]), go(n.args["high"])

            def c(env):
                x, l, h = a(env), lo(env), hi(env)
                p = None if x is None or l is None else x >= l
                q = None if x is None or h is None else x <= h
                return k_and(p, q)
            return c
        if t is exp.In:
            if n.args.get("query") or n.args.get("unnest") or n.args.get("field") or not n.expressions:
                raise Unsupported("IN form")
            a = go(n.this); xs = [go(x) for x in n.expressions]

            def c(env):
                x = a(env); res = False
                for f in xs:
                    y = f(env)
                    res = k_or(res, None if x is None or y is None else x == y)
                return res
            return c
        if t is exp.Coalesce:
            fs = [go(n.this)] + [go(x) for x in n.expressions]

            def c(env):
                for f in fs:
                    v = f(env)
                    if v is not None:
                        return v
                return None
            return c
        if t is exp.Case:
            op = go(n.this) if n.args.get("this") is not None else None
            ifs = [(go(i.this), go(i.args["true"])) for i in n.args["ifs"]]
            d = go(n.args["default"]) if n.args.get("default") is not None else None

            def c(env):
                x = op(env) if op is not None else None
                for cf, tf in ifs:
                    cv = cf(env)
                    if op is not None:
                        cv = None if x is None or cv is None else x == cv
                    if truth(cv) is True:
                        return tf(env)
                return d(env) if d is not None else None
            return c
        if t is exp.If:
            cf, tf = go(n.this), go(n.args["true"])
            ff = go(n.args["false"]) if n.args.get("false") is not None else None

            def c(env):
                if truth(cf(env)) is True:
                    return tf(env)
                return ff(env) if ff is not None else None
            return c
        raise Unsupported(t.__name__)
    return go(n)


def same(u, v):
    if u is None or v is None:
        return u is None and v is None
    return int(u) == int(v)


def is_bool_col(name):
    return name[0] in "bc"


def is_nonnull_col(c):
    return c.meta.get("nonnull") is True


def domain(exprs):
    exp, _, _ = sg()
    cols = {}
    lits = set()
    for e in exprs:
        for c in e.find_all(exp.Column):
            cols[c.name] = cols.get(c.name, False) or is_nonnull_col(c)
        for l in e.find_all(exp.Literal):
            if not l.is_string:
                try:
                    v = l.to_py()
                except Exception:
                    continue
                if isinstance(v, int):
                    lits.add(v); lits.add(-v)
    ivals = {0, 1}
    for v in lits:
        ivals.update((v - 1, v, v + 1))
    if len(ivals) > 14:  # keep the order-relevant values around every literal, thin out the rest
        ivals = set(sorted(ivals)[:: max(1, len(ivals) // 14)]) | {v for v in lits if abs(v) < 50} | {0, 1}
    names = sorted(cols)
    doms = []
    for c in names:
        base = [True, False] if is_bool_col(c) else sorted(ivals)
        doms.append(base if cols[c] else [None] + base)
    return names, doms


def same_truth(u, v):
    return truth(u) == truth(v)


def differing_envs(a, b, limit=40000, truth_only=False):
    """all assignments under which a and b evaluate differently: ('ok', [(env,u,v)...]) / ('unsupported', msg) / ('toolarge', n).
    truth_only: compare 3-valued truth values (an operand of AND / OR: `TRUE AND x -> x` for a numeric x)"""
    eq = same_truth if truth_only else same
    try:
        fa, fb = comp(a), comp(b)
    except Unsupported as e:
        return "unsupported", str(e)
    names, doms = domain([a, b])
    n = 1
    for d in doms:
        n *= len(d)
    if n > limit:
        return "toolarge", n
    out = []
    for vals in itertools.product(*doms):
        env = dict(zip(names, vals))
        u, v = fa(env), fb(env)
        if not eq(u, v):
            out.append((env, u, v))
    return "ok", out


# ------------------------------------------------------------------------------------------ generators
BCOLS, ICOLS, NB, NI = ["b0", "b1", "b2"], ["i0", "i1"], ["c0"], ["n0"]
LITS = [0, 1, 2, 3, 5]
CMPS = ["=", "<>", "<", "<=", ">", ">="]
COMPL = {"=": "<>", "<>": "=", "<": ">=", "<=": ">", ">": "<=", ">=": "<"}


def lit(rng):
    return str(rng.choice(LITS))


TERMS = ["i0 * i1", "i0 + i1", "i0 - i1", "i0 * i0", "i1 * 2 + i0", "-i0 * i1"]
# constant expressions that need more than one fixpoint pass to fold (3-term subtractions, nested arithmetic)
KEXPRS = ["5 - 3 - 1", "(2 + 3) - 1 - 1", "1 + 2 * 3 - 5", "2 * (3 - 1) - 1", "7 - (2 + 3) - 1", "- -(3 - 1)", "8 - 2 - 2 - 2", "(5 - 3 - 1) * 2"]


# constants in every shape the folding helpers (_is_constant, is_number, is_null, always_true / always_false ...) look at:
# NULL wherever a number can stand, under unary minus, inside arithmetic, nested 1-3 deep
CONST_ATOMS = ["NULL", "0", "1", "2", "5", "TRUE", "FALSE"]
CONST_SWEEP = ["NULL", "-NULL", "- -NULL", "(-NULL)", "-(-(-NULL))", "0", "-0", "1", "-1", "-(-1)", "(2)", "TRUE", "FALSE", "-TRUE",
               "NULL + 1", "1 - NULL", "-NULL + 1", "2 * NULL", "-(NULL * 2)", "1 + 1", "2 - 5", "-(2 - 5)", "NULL - NULL", "-(1 + NULL)",
               "COALESCE(NULL, -NULL)", "COALESCE(-NULL, 1)", "CASE WHEN NULL THEN 1 ELSE -NULL END"]
CONST_CONTEXTS = ["{K} IS NULL", "{K} IS NOT NULL", "NOT {K} IS NULL", "({K}) IS NULL", "{K} = 1", "1 < {K}", "{K} <> {K2}", "{K} >= i0",
                  "i0 > 1 AND {K} IS NULL", "i0 > 1 OR {K} IS NOT NULL", "b0 AND {K}", "{K} OR b0", "NOT {K}", "NOT NOT {K}",
                  "CASE WHEN {K} IS NULL THEN i0 ELSE 0 END", "CASE WHEN {K} THEN i0 ELSE 0 END", "CASE {K} WHEN 1 THEN i0 ELSE 0 END",
                  "IF({K}, 1, 2)", "COALESCE({K}, i0)", "COALESCE(i0, {K}, 3)", "COALESCE({K}, {K2}) = 1", "COALESCE(i0, {K}) = 1",
                  "i0 IN ({K}, 1)", "{K} IN (1, i0)", "{K} IN ({K2})", "i0 + {K}", "{K} - i0", "{K} * i0 + 1", "-({K})", "i0 + {K} = 3",
                  "{K} - i0 < 2", "{K} BETWEEN 0 AND 2", "i0 BETWEEN {K} AND 2", "i0 = {K} AND i0 < 3"]


def gen_const(rng, depth):
    if depth <= 0 or rng.random() < 0.35:
        return rng.choice(CONST_ATOMS)
    k = rng.random()
    a = lambda: gen_const(rng, depth - 1)  # noqa
    if k < 0.35:
        return f"-{atom(a())}" if rng.random() < 0.7 else f"-({a()})"
    if k < 0.75:
        return f"{atom(a())} {rng.choice(['+', '-', '*'])} {atom(a())}"
    if k < 0.82:
        return f"({a()})"
    if k < 0.92:
        return f"COALESCE({a()}, {a()})"
    return f"CASE WHEN {a()} THEN {a()} ELSE {a()} END"


# COALESCE compared with a constant: 1-4 non-constant arguments before the first constant, constants in any position,
# int and bool typed, every comparison operator, both operand orders (simplify_coalesce's comparison branch)
COALESCE_ARGS_INT = [["i0", "1"], ["i0", "i1", "1"], ["i0", "i1", "i2", "2"], ["i0", "i1", "i2", "i3", "1"], ["i0", "1", "i1"], ["1", "i0", "i1"],
                     ["i0", "i1", "2", "i2", "3"], ["i0", "i1", "NULL", "2"], ["i0", "i1", "-1"], ["i0", "i0 + 1", "1"], ["i1", "i0", "i1", "2"],
                     ["i0", "i1"], ["i0", "i1", "NULL"]]
COALESCE_ARGS_BOOL = [["b0", "TRUE"], ["b0", "b1", "TRUE"], ["b0", "b1", "b2", "FALSE"], ["b0", "i0 > 1", "FALSE"], ["b0", "b1", "NULL", "TRUE"]]
COALESCE_CMP_INT = ["{C} = 2", "2 = {C}", "{C} <> 1", "1 <> {C}", "{C} < 2", "2 < {C}", "{C} <= 1", "1 <= {C}", "{C} > 1", "1 > {C}", "{C} >= 2", "2 >= {C}",
                    "{C} IS NULL", "{C} IS NOT NULL", "{C} = -1", "{C} = NULL", "{C} = i3", "NOT {C} = 2", "{C} = 2 AND b0", "{C} + 1 = 3", "{C} IN (1, 2)",
                    "{C} BETWEEN 1 AND 2", "{C} = 2 OR {C} = 1"]
COALESCE_CMP_BOOL = ["{C} = TRUE", "FALSE = {C}", "{C} <> TRUE", "{C} IS TRUE", "{C} IS NOT TRUE", "{C} IS NULL", "{C} AND b2", "NOT {C}", "{C} = b2"]


def coalesce_cases(with_index=False):
    for ai, args in enumerate(COALESCE_ARGS_INT):
        for ci, ctx in enumerate(COALESCE_CMP_INT):
            q = ctx.replace("{C}", "COALESCE(" + ", ".join(args) + ")")
            yield (ai, ci, q) if with_index else q
    for ai, args in enumerate(COALESCE_ARGS_BOOL):
        for ci, ctx in enumerate(COALESCE_CMP_BOOL):
            q = ctx.replace("{C}", "COALESCE(" + ", ".join(args) + ")")
            yield (100 + ai, ci, q) if with_index else q


def coalesce_template(rng):
    if rng.random() < 0.7:
        n = rng.choice([1, 2, 2, 3, 4])
        args = [rng.choice(["i0", "i1", "i2", "i3", "i0 + 1", "-i1"]) for _ in range(n)]
        k = [rng.choice(["1", "2", "-1", "NULL", "0"])]
        tail = [rng.choice(["i2", "3", "i0"])] if rng.random() < 0.3 else []
        pos = rng.choice([len(args)] * 3 + [0, 1])
        args = args[:pos] + k + args[pos:] + tail
        ctx = rng.choice(COALESCE_CMP_INT)
    else:
        n = rng.choice([1, 2, 3])
        args = [rng.choice(["b0", "b1", "b2", "i0 > 1", "NOT b1"]) for _ in range(n)] + [rng.choice(["TRUE", "FALSE", "NULL"])]
        ctx = rng.choice(COALESCE_CMP_BOOL)
    return ctx.replace("{C}", "COALESCE(" + ", ".join(args) + ")")


# CASE with 3-4 WHENs over every order of {statically false, NULL, undecided, statically true} conditions (also conditions that
# only become constant after folding), distinct branch values: the loop pops constant-false branches from the list it iterates
CASE_CONDS = {"F": ["FALSE", "1 = 2", "0"], "N": ["NULL", "NULL = 1", "NULL"], "U": ["b0", "i0 > 0", "b1"], "T": ["TRUE", "1 = 1", "1"]}


def case_cases(with_index=False):
    idx = 0
    for n in (3, 4):
        for order in itertools.product("FNUT", repeat=n):
            for flavour in ((0, 1) if n == 3 else (0,)):
                whens = " ".join(f"WHEN {CASE_CONDS[k][(flavour + j) % 3 if flavour else 0]} THEN {10 * (j + 1)}" for j, k in enumerate(order))
                q = f"CASE {whens}" + (" ELSE 99" if (idx % 2) else "") + " END"
                idx += 1
                yield (n, flavour, q) if with_index else q


# a CASE / IF / COALESCE whose condition folds, compound branch, under every parent slot (the branch replaces the function and
# must keep its grouping: _parenthesize_for_parent) — in particular the same operator on the right of a non-associative one
BRANCH_INT = ["i0 - 1", "i0 - i1", "i0 + i1", "i0 * 2", "-i0", "i0"]
BRANCH_BOOL = ["b0 OR b1", "b0 AND b1", "i0 < i1", "i0 = 1", "NOT b0", "i0 IN (1, 2)", "b0 IS NULL"]
BRANCH_FUNCS = ["CASE WHEN TRUE THEN {B} END", "IF(FALSE, {Z}, {B})", "COALESCE({B})", "CASE WHEN 1 = 2 THEN {Z} WHEN 1 = 1 THEN {B} END"]
BRANCH_CTX_INT = ["i1 - {F}", "{F} - i1", "7 - 2 - {F} > 0", "7 - {F} - 2 > 0", "{F} - 2 - 1 < 3", "2 * {F}", "{F} * 2", "{F} + 1", "1 + {F}", "-{F}",
                  "{F} < 3", "3 = {F}", "{F} IN (1, 2)", "{F} IS NULL", "{F} BETWEEN 0 AND 3", "i1 - {F} - i1"]
BRANCH_CTX_BOOL = ["{F} AND b2", "b2 AND {F}", "b2 OR {F}", "{F} OR b2 AND b1", "NOT {F}", "{F} = b2", "b2 <> {F}", "{F} IN (b2, TRUE)", "{F} IS NULL",
                   "{F} IS TRUE", "NOT {F} IS NULL"]


def branch_cases(with_index=False):
    for kind, brs, ctxs, z in (("i", BRANCH_INT, BRANCH_CTX_INT, "0"), ("b", BRANCH_BOOL, BRANCH_CTX_BOOL, "b2")):
        for bi, br in enumerate(brs):
            for ci, ctx in enumerate(ctxs):
                for fi, fn in enumerate(BRANCH_FUNCS):
                    q = ctx.replace("{F}", fn.replace("{B}", br).replace("{Z}", z))
                    always = kind == "i" and bi < 2 and ci < 5
                    yield (always, fi, q) if with_index else q


CONN_VARS = ["b0", "b1", "b2", "b3", "b4", "b5", "b6", "b7"]


def conn_shape(rng, leaves, top=None):
    """a random binary tree of AND / OR over the given leaves, explicitly parenthesised (left-deep, right-nested, balanced)"""
    if len(leaves) == 1:
        return leaves[0] if rng.random() < 0.85 else f"NOT {leaves[0]}"
    k = rng.choice([1, len(leaves) - 1, len(leaves) // 2, rng.randint(1, len(leaves) - 1)])
    op = top or rng.choice(["AND", "OR"])
    sub = None if rng.random() < 0.5 else ("AND" if op == "OR" else "OR")
    l, r = conn_shape(rng, leaves[:k], sub if rng.random() < 0.6 else op), conn_shape(rng, leaves[k:], sub if rng.random() < 0.6 else op)
    wrap = lambda x, n: f"({x})" if n > 1 else x  # noqa
    return f"{wrap(l, k)} {op} {wrap(r, len(leaves) - k)}"


def conn_template(rng):
    """both operands of the top connector are connectors of the other polarity, children themselves parenthesised chains,
    right-nested operands, 6-8 distinct variables (what the cross-product branch of _distribute needs)"""
    n = rng.choice([6, 6, 7, 8])
    vs = CONN_VARS[:n]
    rng.shuffle(vs)
    top = rng.choice(["OR", "AND"])
    inner = "AND" if top == "OR" else "OR"
    r = rng.random()
    if r < 0.5:
        k = rng.choice([3, 4]) if n >= 7 else rng.choice([3, 4])
        a = conn_shape(rng, vs[:k], inner)
        b = conn_shape(rng, vs[k:], inner)
        return f"({a}) {top} ({b})"
    if r < 0.75:
        p_, q_, r_, s_, t_, u_ = vs[:6]
        v_ = vs[6] if n > 6 else vs[0]
        return f"(({p_} {inner} {q_}) {inner} ({r_} {inner} {s_})) {top} ({t_} {inner} ({u_} {inner} {v_}))"
    return conn_shape(rng, vs)


CONN_CORPUS = [
    "((b0 AND b1) AND (b2 AND b3)) OR (b4 AND (b5 AND b6))", "((b0 OR b1) OR (b2 OR b3)) AND (b4 OR (b5 OR b6))",
    "((b3 AND b1) AND (b2 AND b0)) OR (b6 AND (b5 AND b4))", "(b0 AND (b1 AND b2)) OR ((b3 AND b4) AND (b5 AND b6))",
    "((b0 AND b1) AND (b2 AND b3)) OR (b4 AND (b5 AND b6)) OR b7", "NOT (((b0 AND b1) AND (b2 AND b3)) OR (b4 AND (b5 AND b6)))",
]


def branch_template(rng):
    """a CASE / IF / COALESCE whose condition folds, with a compound branch, under a parent that binds tighter"""
    br = rng.choice(["i0 + i1", "i0 - 1", "b0 OR b1", "b0 AND b1", "i0 < i1", "i0 = 1", "NOT b0", "-i0", "i0 IN (1, 2)", "i0 * 2"])
    other = rng.choice(["0", "i1", "b2", "NULL"])
    cond_t, cond_f = rng.choice(["TRUE", "1", "1 < 2", "(TRUE)"]), rng.choice(["FALSE", "NULL", "0", "1 > 2", "(0)"])
    fn = rng.choice([f"CASE WHEN {cond_t} THEN {br} ELSE {other} END", f"CASE WHEN {cond_f} THEN {other} ELSE {br} END",
                     f"IF({cond_t}, {br}, {other})", f"IF({cond_f}, {other}, {br})", f"COALESCE({br})",
                     f"CASE WHEN {cond_f} THEN {other} WHEN {cond_t} THEN {br} END"])
    ctx = rng.choice(["{F} * 2", "2 - {F}", "-{F}", "{F} AND b2", "NOT {F}", "{F} = b2", "{F} IN (b2, TRUE)", "{F} + 1 < 3", "{F} IS NULL",
                      "b2 OR {F} AND b1", "({F}) * i0 + 1", "{F} BETWEEN 0 AND 2", "{F} < i1"])
    return ctx.replace("{F}", fn)


def const_template(rng):
    ctx = rng.choice(CONST_CONTEXTS)
    k1 = gen_const(rng, rng.choice([1, 2, 3])) if rng.random() < 0.6 else rng.choice(CONST_SWEEP)
    k2 = gen_const(rng, rng.choice([1, 2])) if rng.random() < 0.6 else rng.choice(CONST_SWEEP)
    return ctx.replace("{K2}", atom(k2)).replace("{K}", atom(k1))


def const_cases(with_index=False):
    for ci, ctx in enumerate(CONST_CONTEXTS):
        for i, k in enumerate(CONST_SWEEP):
            q = ctx.replace("{K2}", atom(CONST_SWEEP[(i * 7 + 3) % len(CONST_SWEEP)])).replace("{K}", atom(k))
            yield (ci, i, q) if with_index else q


def _const_cases_old():
    for ctx in CONST_CONTEXTS:
        for i, k in enumerate(CONST_SWEEP):
            yield ctx.replace("{K2}", atom(CONST_SWEEP[(i * 7 + 3) % len(CONST_SWEEP)])).replace("{K}", atom(k))


def compound_term(rng, cols):
    t = rng.choice(TERMS)
    if "n0" in cols["i"] and rng.random() < 0.3:
        t = t.replace("i1", "n0")
    return t


def multipass_template(rng, cols):
    """multi-pass interactions: a compound shared term, a constant side that folds late (or a comparison rebuilt by
    simplify_not / simplify_equality), AND/OR-ed with another range comparison on the same compound term"""
    T = compound_term(rng, cols); K, K2 = rng.choice(KEXPRS), rng.choice(KEXPRS)
    o1, o2 = rng.choice(CMPS), rng.choice(CMPS)
    l1, l2, l3 = lit(rng), lit(rng), str(rng.choice([5, 7, 9]))
    conn = rng.choice(["AND", "OR"])
    c, c2 = rng.choice(cols["i"]), rng.choice(cols["i"])
    A = rng.choice(cols["b"])
    t = [
        f"{K} {o1} {T} {conn} {T} {o2} {l3}", f"{T} {o2} {l3} {conn} {K} {o1} {T}", f"{K} {o1} {T} {conn} {K2} {o2} {T}",
        f"{T} {o1} {K} {conn} {T} {o2} {l3}", f"{K} {o1} {T} {conn} {T} {o2} {l3} {conn} {A}",
        f"NOT ({T} + {l1} {o1} {l3}) {conn} {T} {o2} {l3}", f"NOT ({K} {o1} {T}) {conn} {T} {o2} {l3}", f"NOT ({T} + {l1} + 1 {o1} {l2}) {conn} NOT ({T} {o2} {l3})",
        f"{l3} - ({T}) {o1} {l1} {conn} {T} {o2} {l2}", f"{T} + {K} {o1} {l3} {conn} {T} {o2} {l2}", f"{K} + ({T}) {o1} {l3} {conn} {T} {o2} {l2}",
        f"{T} BETWEEN {K} AND {l3} {conn} {T} {o1} {l2}", f"NOT {T} BETWEEN {K} AND {l3}",
        f"{c} = {K} AND {c} {o1} {c2} AND {c2} {o2} {l3}", f"{c} = 2 + 3 AND {c} {o1} {T} AND {T} {o2} {l3}",
        f"({K} {o1} {T} {conn} {T} {o2} {l3}) {'OR' if conn == 'AND' else 'AND'} {A}",
        f"CASE WHEN {K} {o1} {T} {conn} {T} {o2} {l3} THEN {A} ELSE NOT {A} END",
        f"COALESCE({K} {o1} {T}, {A}) {conn} {T} {o2} {l3}",
        f"{K} {o1} {c} {conn} {c} {o2} {l3}", f"{c} * {K} {o1} {l3} {conn} {c} * {K2} {o2} {l2}",
    ]
    return rng.choice(t)


def atom(s):
    if s.replace("_", "").isalnum() or s.startswith("COALESCE(") or s.startswith("IF("):
        return s
    return f"({s})"


def gen_int(rng, d, cols):
    r = rng.random()
    if d <= 0 or r < 0.45:
        r2 = rng.random()
        if r2 < 0.5:
            return rng.choice(cols["i"])
        if r2 < 0.90:
            return lit(rng)
        return rng.choice(["NULL", "NULL", "-NULL", "-" + lit(rng), "(-NULL)"])
    k = rng.random()
    a = lambda: gen_int(rng, d - 1, cols)  # noqa
    if k < 0.30:
        return f"{atom(a())} + {atom(a())}"
    if k < 0.50:
        return f"{atom(a())} - {atom(a())}"
    if k < 0.62:
        return f"{atom(a())} * {atom(a())}"
    if k < 0.68:
        return f"-{atom(a())}"
    if k < 0.74:
        return f"({a()})"
    if k < 0.84:
        return "COALESCE(" + ", ".join(a() for _ in range(rng.choice([1, 2, 2, 3]))) + ")"
    if k < 0.92:
        return f"CASE WHEN {gen_bool(rng, d - 1, cols)} THEN {a()}" + (f" WHEN {gen_bool(rng, 0, cols)} THEN {a()}" if rng.random() < 0.4 else "") + (f" ELSE {a()}" if rng.random() < 0.7 else "") + " END"
    if k < 0.96:
        return f"CASE {a()} WHEN {a()} THEN {a()}" + (f" ELSE {a()}" if rng.random() < 0.7 else "") + " END"
    return f"IF({gen_bool(rng, d - 1, cols)}, {a()}, {a()})"


def gen_cmp(rng, d, cols):
    r = rng.random()
    c = rng.choice(cols["i"]); op = rng.choice(CMPS)
    if r < 0.12:
        T, K = compound_term(rng, cols), rng.choice(KEXPRS)
        return f"{K} {op} {T}" if rng.random() < 0.5 else (f"{T} {op} {K}" if rng.random() < 0.5 else f"{T} {op} {lit(rng)}")
    if r < 0.58:
        return f"{c} {op} {lit(rng)}" if rng.random() < 0.75 else f"{lit(rng)} {op} {c}"
    if r < 0.70:
        aop = rng.choice(["+", "-"])
        return f"{c} {aop} {lit(rng)} {op} {lit(rng)}" if rng.random() < 0.6 else f"{lit(rng)} {aop} {c} {op} {lit(rng)}"
    return f"{atom(gen_int(rng, d - 1, cols))} {op} {atom(gen_int(rng, d - 1, cols))}"


def gen_bool(rng, d, cols):
    r = rng.random()
    b = lambda: gen_bool(rng, d - 1, cols)  # noqa
    if d <= 0 or r < 0.40:
        k = rng.random()
        if k < 0.30:
            return rng.choice(cols["b"])
        if k < 0.70:
            return gen_cmp(rng, d, cols)
        if k < 0.76:
            return rng.choice(["TRUE", "FALSE"])
        if k < 0.79:
            return "NULL"
        if k < 0.87:
            x = rng.choice(cols["i"] + cols["b"]) if rng.random() < 0.7 else atom(gen_int(rng, d - 1, cols))
            return f"{x} IS {'NOT ' if rng.random() < 0.4 else ''}NULL"
        x = rng.choice(cols["i"]) if rng.random() < 0.7 else atom(gen_int(rng, d - 1, cols))
        if k < 0.94:
            return f"{x} {'NOT ' if rng.random() < 0.3 else ''}BETWEEN {gen_int(rng, 0, cols)} AND {gen_int(rng, 0, cols)}"
        return f"{x} {'NOT ' if rng.random() < 0.3 else ''}IN ({', '.join(gen_int(rng, 0, cols) for _ in range(rng.choice([1, 2, 3])))})"
    k = rng.random()
    if k < 0.30:
        return f"{atom(b())} AND {atom(b())}"
    if k < 0.60:
        return f"{atom(b())} OR {atom(b())}"
    if k < 0.80:
        return f"NOT {atom(b())}"
    if k < 0.85:
        return f"({b()})"
    if k < 0.90:
        return f"COALESCE({b()}, {b()})"
    if k < 0.96:
        return f"CASE WHEN {b()} THEN {b()}" + (f" WHEN {b()} THEN {b()}" if rng.random() < 0.5 else "") + (f" ELSE {b()}" if rng.random() < 0.7 else "") + " END"
    return f"IF({b()}, {b()}, {b()})"


def templates(rng, cols):
    c = rng.choice(cols["i"]); c2 = rng.choice(cols["i"]); l1, l2, l3 = lit(rng), lit(rng), lit(rng)
    o1, o2 = rng.choice(CMPS), rng.choice(CMPS)
    A, B, C = (rng.choice(cols["b"]) for _ in range(3))
    conn = rng.choice(["AND", "OR"]); other = "OR" if conn == "AND" else "AND"
    t = [
        f"{c} {o1} {l1} {conn} {c} {o2} {l2}", f"{c} {o1} {l1} {conn} {c} {o2} {l1}", f"{c} {o2} {l1} {conn} {c} {o1} {l1} {conn} {A}", f"{l1} {o1} {c} {conn} {c} {o2} {l2}", f"{l1} {o1} {c} {conn} {l2} {o2} {c}",
        f"NOT ({c} {o1} {l1} {conn} {c} {o2} {l2})", f"NOT {c} {o1} {l1} {conn} {c} {o2} {l1}", f"{c} {o1} {l1} {conn} NOT {c} {o2} {l1} {conn} {A}", f"{c} {o1} {l1} {conn} {c} {o2} {l2} {conn} {A}",
        f"{c} {o1} {l1} {conn} {c} {o2} {l2} {conn} {c} {o1} {l3}",
        f"{A} {conn} NOT {A}", f"{A} {conn} {B} {conn} NOT {A}", f"{A} {conn} ({A} {other} {B})", f"{A} {conn} (NOT {A} {other} {B})",
        f"({A} {other} {B}) {conn} ({A} {other} NOT {B})", f"({A} {other} {B}) {conn} ({C} {other} {B})",
        f"({A} {other} {B}) {conn} ({A} {other} {B} {other} {C})", f"{C} {conn} {A} {conn} {B} {conn} {A}",
        f"NOT ({A} {conn} {B})", f"NOT NOT {A}", f"NOT NOT ({c} {o1} {l1})", f"NOT NOT {c}", f"NOT ({c} {o1} {l1})", f"NOT {l1}", f"NOT ((NULL))",
        f"COALESCE({c}, {l1}) {o1} {l2}", f"{l2} {o1} COALESCE({c}, {l1})", f"COALESCE({c}, {c2}, {l1}) {o1} {l2}", f"COALESCE({l1}, {c}) {o1} {l2}", f"COALESCE({c})", f"COALESCE({c}, {l1}) IS NOT NULL",
        f"({c} AND TRUE) AND TRUE", f"({c} AND TRUE) AND ({l1} = {l1})", f"({c} OR FALSE) AND TRUE", f"({c} AND TRUE) OR FALSE", f"({c} AND TRUE) AND {A}",
        f"{c} AND {A}", f"{c} OR {c2}", f"IF(({c} AND TRUE) AND TRUE, {l1}, {l2})", f"(({c} AND TRUE)) AND TRUE = {A}",
        f"{c} BETWEEN {l1} AND {l2} IS NULL", f"{c} BETWEEN {l1} AND {l2} IS TRUE", f"{c} BETWEEN {l1} AND {l2} = {A}", f"NOT {c} BETWEEN {l1} AND {l2} IS NULL",
        f"{c} NOT BETWEEN {l1} AND {l2} IS NOT NULL", f"{c} IN ({l1}, {l2}) IS NULL", f"{c} IN ({l1}, {l2}) = {A}", f"{c} IS NULL = {A}", f"{c} BETWEEN {l1} AND {l2} IN ({A}, TRUE)", f"COALESCE({c}, {l1}) IS NULL",
        f"NOT COALESCE({c}, {c2}, {l1}) IS NULL", f"COALESCE({c}, {l1}) IS NOT NULL {conn} {A}", f"COALESCE({A}, TRUE) IS TRUE", f"COALESCE({A}, FALSE) IS NOT TRUE", f"COALESCE({c}, NULL, {c2}) {o1} {l2}", f"{l2} {o1} COALESCE({c}, {c2}, -{l1}, {c})",
        f"{c} + {l1} {o1} {l2}", f"{l1} - {c} {o1} {l2}", f"{l1} + {c} {o1} {l2}", f"{c} - {l1} {o1} {l2}", f"-{c} + {l1} {o1} {l2}",
        f"{c} BETWEEN {l1} AND {l2} {conn} {c} {o1} {l2}", f"NOT {c} BETWEEN {l1} AND {l2}",
        f"{c} = {c2} AND {c} = {l1}", f"{c} = {l1} AND {c2} {o1} {c}", f"NOT {c} {o1} {l2} AND NOT {c} = {l1}",
        f"CASE WHEN {c} {o1} {l1} THEN {A} ELSE {B} END", f"CASE WHEN {A} THEN {l1} WHEN TRUE THEN {l2} END", f"CASE WHEN FALSE THEN {l1} WHEN {A} THEN {l2} WHEN TRUE THEN {l3} ELSE {c} END",
        f"CASE WHEN FALSE THEN {l1} WHEN NULL THEN {l3} WHEN {A} THEN {l2} END", f"IF(TRUE, {c}, {l1})", f"IF(NULL, {c}, {l1})", f"IF({l1} > {l2}, {A}, {B})", f"IF({A}, NULL + {l1}, {l2})",
        f"{A} AND NULL", f"NULL OR {A}", "NOT NULL", f"{A} AND TRUE", f"{A} OR FALSE", f"{A} AND {l1}", f"{l1} OR {A}", f"NULL AND {l1}", f"TRUE AND {c} {o1} {l1}",
        f"{c} = {l1} {conn} {c} = {l2}", f"({A} AND {c} {o1} {l1}) OR ({B} AND {c} {o2} {l2})",
        f"{l1} + {l2} * {c} - {l1} {o1} {l2}", f"{c} * {l1} + {l2} + {l1}", f"{l1} - {l2} - {l3}", f"{c} - {l2} - {l3}", f"{l1} - ({l2} - {l3})", f"{l1} * {l2} * {c} * {l3}", f"- -{c}", f"-(-{l1})",
        f"{c} IS NULL {conn} {c} {o1} {l1}", f"{c} = {l1} IS NULL", f"NULL IS NULL", f"{l1} IS NULL", f"NOT {l1} IS NULL", f"{l1} {o1} {l2}",
        f"NOT ({A} AND {B}) AND NOT ({A} OR {C})", f"({A} OR {B}) AND ({B} OR {C}) AND ({A} OR {C})", f"({A} AND {B}) OR ({B} AND {C}) OR NOT ({A} AND {C})",
        f"({c}) {o1} ({l1})", f"(({A}))", f"({A} AND {B}) AND {C}", f"{A} AND ({B} AND {C})", f"({c} + {l1}) + {l2}", f"({c} * {l1}) + {l2}", f"NOT ({A})", f"-({c} {o1} {l1})" if False else f"({c} {o1} {l1}) = {A}",
    ]
    return rng.choice(t)


# every parent kind x every child kind for Paren removal: a parenthesised child as subject / member of IN, BETWEEN
# subject / bound, operand of comparisons, IS, arithmetic, unary minus, NOT, connectors, function arguments, CASE operands
PAREN_CHILDREN_BOOL = ["i0 < i1", "i0 = 1", "i0 <> i1", "i0 IS NULL", "NOT b0", "b0 AND b1", "b0 OR b1", "i0 IN (1, 2)",
                       "i0 BETWEEN 1 AND 2", "b0", "i0 + 1 < 3", "NOT i0 <= i1", "i0 IS NOT NULL"]
PAREN_CHILDREN_INT = ["i0 + 1", "i0 - 1", "i0 * 2", "-i0", "i0", "2", "CASE WHEN b0 THEN 1 ELSE 2 END", "COALESCE(i0, 1)", "i0 - i1 - 1"]
PAREN_PARENTS = [  # (template, kind of hole: b / i)
    ("({X}) IN (b1, FALSE)", "b"), ("b1 IN (({X}), TRUE)", "b"), ("NOT ({X}) IN (b1, b2)", "b"), ("({X}) NOT IN (b1)", "b"),
    ("({X}) BETWEEN b1 AND b2", "b"), ("b1 BETWEEN ({X}) AND b2", "b"), ("b1 BETWEEN b2 AND ({X})", "b"),
    ("({X}) = b1", "b"), ("b1 = ({X})", "b"), ("({X}) <> b1", "b"), ("({X}) < b1", "b"), ("b1 >= ({X})", "b"),
    ("({X}) IS NULL", "b"), ("({X}) IS TRUE", "b"), ("NOT ({X}) IS NULL", "b"),
    ("NOT ({X})", "b"), ("({X}) AND b1", "b"), ("b1 OR ({X})", "b"), ("b1 AND ({X}) AND b2", "b"),
    ("COALESCE(({X}), b1)", "b"), ("CASE WHEN ({X}) THEN b1 ELSE b2 END", "b"), ("CASE ({X}) WHEN TRUE THEN 1 ELSE 2 END", "b"),
    ("IF(({X}), 1, 2)", "b"), ("CASE WHEN b1 THEN ({X}) END", "b"),
    ("({X}) + 1", "b"), ("1 - ({X})", "b"), ("({X}) * 2", "b"), ("-({X})", "b"),
    ("({X}) + 1", "i"), ("1 + ({X})", "i"), ("({X}) - 1", "i"), ("5 - ({X})", "i"), ("({X}) * 2", "i"), ("2 * ({X})", "i"), ("-({X})", "i"),
    ("({X}) < 3", "i"), ("3 <= ({X})", "i"), ("({X}) = i1", "i"), ("({X}) IS NULL", "i"), ("({X}) IN (1, i1)", "i"), ("i1 IN (({X}), 2)", "i"),
    ("({X}) BETWEEN 0 AND 3", "i"), ("i1 BETWEEN ({X}) AND 3", "i"), ("i1 BETWEEN 0 AND ({X})", "i"),
    ("COALESCE(({X}), 1)", "i"), ("CASE ({X}) WHEN 1 THEN 2 ELSE 3 END", "i"), ("CASE WHEN b0 THEN ({X}) ELSE 0 END", "i"),
]


def paren_cases():
    for tpl, kind in PAREN_PARENTS:
        for child in (PAREN_CHILDREN_BOOL if kind == "b" else PAREN_CHILDREN_INT):
            yield tpl.replace("{X}", child)


def paren_template(rng):
    tpl, kind = rng.choice(PAREN_PARENTS)
    child = rng.choice(PAREN_CHILDREN_BOOL if kind == "b" else PAREN_CHILDREN_INT)
    s = tpl.replace("{X}", child)
    r = rng.random()
    if r < 0.25:
        return f"NOT ({s})" if kind == "b" or "IN" in tpl or "=" in tpl or "<" in tpl or "IS" in tpl or "BETWEEN" in tpl else s
    if r < 0.45:
        return f"({s}) = {rng.choice(['b2', 'TRUE'])}" if not s.startswith("-") else s
    return s


def gen_sql(rng, nonnull=False):
    cols = {"b": BCOLS + (NB * 3 if nonnull else []), "i": ICOLS + (NI * 2 if nonnull else [])}
    r = rng.random()
    if r < 0.03:
        return coalesce_template(rng)
    if r < 0.06:
        return conn_template(rng)
    if r < 0.08:
        return branch_template(rng)
    if r < 0.12:
        return const_template(rng)
    if r < 0.20:
        return paren_template(rng)
    if r < 0.36:
        return multipass_template(rng, cols)
    if r < 0.50:
        return templates(rng, cols)
    if r < 0.56:
        return gen_int(rng, 3, cols)
    return gen_bool(rng, rng.choice([2, 3, 3, 4]), cols)


SCHEMA = None


def typed(e):
    """qualify + annotate against a schema (bool / int columns, c*/n* declared NOT NULL) and return the bare condition"""
    global SCHEMA
    exp, _, _ = sg()
    from sqlglot.optimizer.qualify import qualify
    from sqlglot.optimizer.annotate_types import annotate_types
    if SCHEMA is None:
        t = {}
        for c in BCOLS + [v for v in CONN_VARS if v not in BCOLS]:
            t[c] = "boolean"
        for c in ICOLS + ["i2", "i3"]:
            t[c] = "int"
        for c in NB:
            t[c] = exp.DataType.build("boolean", nullable=False)
        for c in NI:
            t[c] = exp.DataType.build("int", nullable=False)
        SCHEMA = {"t": t}
    q = exp.select("*").from_("t").where(e.copy(), copy=False)
    q = annotate_types(qualify(q, schema=SCHEMA, quote_identifiers=False), schema=SCHEMA)
    return q.args["where"].this.copy()


# ------------------------------------------------------------------------------------------ E <-> JSON
class NotInFragment(Exception):
    pass


def to_json(n):
    exp, _, _ = sg()
    t = type(n)
    if t is exp.Column:
        name = n.name
        if not re.fullmatch(r"[bcin]\d", name):
            raise NotInFragment("column " + name)
        return ["bcol" if is_bool_col(name) else "icol", int(name[1]) + (10 if name[0] in "cn" else 0), is_nonnull_col(n)]
    if t is exp.Literal:
        if n.is_string or not n.this.isdigit():
            raise NotInFragment("literal")
        return ["int", int(n.this)]
    if t is exp.Boolean:
        return ["bool", bool(n.this)]
    if t is exp.Null:
        return ["null"]
    simple = {exp.And: "and", exp.Or: "or", exp.Add: "add", exp.Sub: "sub", exp.Mul: "mul"}
    if t in simple:
        return [simple[t], to_json(n.this), to_json(n.expression)]
    if t is exp.Not:
        return ["not", to_json(n.this)]
    if t is exp.Paren:
        return ["paren", to_json(n.this)]
    if t is exp.Neg:
        return ["neg", to_json(n.this)]
    if t.__name__ in CMP_NAMES and t in (exp.EQ, exp.NEQ, exp.LT, exp.LTE, exp.GT, exp.GTE):
        return ["cmp", CMP_NAMES[t.__name__], to_json(n.this), to_json(n.expression)]
    if t is exp.Is:
        if n.args.get("negate") or type(n.expression) not in (exp.Null, exp.Boolean):
            raise NotInFragment("is")
        return ["is", to_json(n.this), to_json(n.expression)]
    if t is exp.Between:
        if n.args.get("symmetric"):
            raise NotInFragment("between")
        return ["between", to_json(n.this), to_json(n.args["low"]), to_json(n.args["high"])]
    if t is exp.In:
        if n.args.get("query") or n.args.get("unnest") or n.args.get("field"):
            raise NotInFragment("in")
        return ["in", to_json(n.this), [to_json(x) for x in n.expressions]]
    if t is exp.Coalesce:
        return ["coalesce", [to_json(n.this)] + [to_json(x) for x in n.expressions]]
    if t is exp.Case:
        if n.args.get("this") is not None:
            raise NotInFragment("simple case")
        d = n.args.get("default")
        return ["case", [to_json(i) for i in n.args["ifs"]], to_json(d) if d is not None else ["absent"]]
    if t is exp.If:
        f = n.args.get("false")
        return ["if", to_json(n.this), to_json(n.args["true"]), to_json(f) if f is not None else ["absent"]]
    raise NotInFragment(t.__name__)


def json_sql(j):
    """fully parenthesised SQLite text of a model term"""
    t = j[0]
    ops = {"and": "AND", "or": "OR", "add": "+", "sub": "-", "mul": "*"}
    cmps = {"eq": "=", "neq": "<>", "lt": "<", "lte": "<=", "gt": ">", "gte": ">="}
    if t == "null":
        return "NULL"
    if t == "bool":
        return "TRUE" if j[1] else "FALSE"
    if t == "int":
        return str(j[1])
    if t in ("bcol", "icol"):
        k = j[1]
        return (("c" if k >= 10 else "b") if t == "bcol" else ("n" if k >= 10 else "i")) + str(k % 10)
    if t in ops:
        return f"({json_sql(j[1])} {ops[t]} {json_sql(j[2])})"
    if t == "not":
        return f"(NOT {json_sql(j[1])})"
    if t == "paren":
        return f"({json_sql(j[1])})"
    if t == "neg":
        return f"(- {json_sql(j[1])})"
    if t == "cmp":
        return f"({json_sql(j[2])} {cmps[j[1]]} {json_sql(j[3])})"
    if t == "is":
        return f"({json_sql(j[1])} IS {json_sql(j[2])})"
    if t == "between":
        return f"({json_sql(j[1])} BETWEEN {json_sql(j[2])} AND {json_sql(j[3])})"
    if t == "in":
        return f"({json_sql(j[1])} IN ({', '.join(json_sql(x) for x in j[2])}))"
    if t == "coalesce":
        xs = j[1] if len(j[1]) > 1 else j[1] + [["null"]]
        return "COALESCE(" + ", ".join(json_sql(x) for x in xs) + ")"
    if t == "case":
        return "(CASE " + " ".join(f"WHEN {json_sql(i[1])} THEN {json_sql(i[2])}" for i in j[1]) + (f" ELSE {json_sql(j[2])}" if j[2] != ["absent"] else "") + " END)"
    if t == "if":
        return f"(CASE WHEN {json_sql(j[1])} THEN {json_sql(j[2])}" + (f" ELSE {json_sql(j[3])}" if j[3] != ["absent"] else "") + " END)"
    raise HarnessError("json_sql " + t)


def pk_of(p):
    exp, _, _ = sg()
    if p is None:
        return "none"
    m = {exp.Not: "not", exp.And: "and", exp.Or: "or", exp.Paren: "paren", exp.Is: "is", exp.Between: "between", exp.In: "in",
         exp.Coalesce: "coalesce", exp.Case: "case", exp.If: "if", exp.Add: "add", exp.Sub: "sub", exp.Mul: "mul", exp.Neg: "neg"}
    t = type(p)
    if t in m:
        return m[t]
    if t.__name__ in CMP_NAMES:
        return "cmp"
    return "other:" + t.__name__


# ------------------------------------------------------------------------------------------ rule observer
def parent_context(node, with_paren, without_paren):
    """(parent with `(x)` in node's slot, parent with `x` in node's slot): the smallest text context of a dropped Paren"""
    exp, _, _ = sg()
    parent = node.parent
    slot = None
    for k, v in parent.args.items():
        if isinstance(v, list):
            for i, c in enumerate(v):
                if c is node:
                    slot = (k, i)
        elif v is node:
            slot = (k, None)
    if slot is None and node.arg_key in parent.args:
        slot = (node.arg_key, node.index)
    if slot is None:
        raise LookupError("slot")

    def build(child):
        pc = parent.copy()
        tgt = pc.args[slot[0]]
        if slot[1] is not None:
            tgt = tgt[slot[1]]
        tgt.replace(child.copy())
        return pc
    return build(with_paren), build(without_paren)


class Observer:
    """wraps every rule of the pipeline (methods of Simplifier and the module-level rule functions) — harness side only"""

    def __init__(self, pre, post):
        exp, S, N = sg()
        self.on = False
        self.log = []
        self.sdn = False
        self.cns = False
        self.unknown_rules = []
        names = list(dict.fromkeys(pre + post))
        for nm in names:
            if hasattr(S.Simplifier, nm):
                self._wrap_method(S.Simplifier, nm)
            elif hasattr(S, nm):
                self._wrap_global(S, nm)
            else:
                self.unknown_rules.append(nm)
        self._wrap_global(N, "flatten", "flatten")
        self._wrap_global(N, "distributive_law", "distributive_law")
        self._wrap_flat(S.Simplifier)

    def _ctx(self, e, args):
        exp, _, _ = sg()
        p = e.parent
        ctx = {"p": pk_of(p), "root": next((a for a in args if isinstance(a, bool)), True), "sdn": self.sdn, "cns": self.cns,
               "sp": type(p) is type(e), "nonnull": e.meta.get("nonnull") is True}
        if isinstance(e, exp.Not) and isinstance(e.this, exp.Not):
            ctx["ib"] = bool(e.this.this.is_type(exp.DType.BOOLEAN))
        return ctx

    def _wrap_method(self, cls, name):
        exp, _, _ = sg()
        orig = getattr(cls, name)
        obs = self

        @functools.wraps(orig)
        def w(self_, expression, *args, **kwargs):
            if not obs.on or not isinstance(expression, exp.Expr):
                return orig(self_, expression, *args, **kwargs)
            before = expression.copy(); ctx = obs._ctx(expression, args)
            out = orig(self_, expression, *args, **kwargs)
            obs.log.append((name, ctx, before, out.copy() if isinstance(out, exp.Expr) else out))
            obs._step_text(name, expression, before, out)
            return out
        setattr(cls, name, w)

    def _step_text(self, name, expression, before, out):
        """context for attributing a text-level (print + parse) difference to the rule that put a node under its parent"""
        exp, _, _ = sg()
        if out is expression or not isinstance(out, exp.Expr) or before == out:
            return
        if expression.parent is None:  # a root step: the result itself is the context
            self.log.append(("step_text", {"rule": name, "pk": "none", "ck": pk_of(out)}, before, out.copy()))
            return
        try:
            self.log.append(("step_text", {"rule": name, "pk": pk_of(expression.parent), "ck": pk_of(out)}) + parent_context(expression, before, out))
        except Exception:
            pass

    def _wrap_global(self, mod, name, label=None):
        exp, _, _ = sg()
        orig = getattr(mod, name)
        obs = self

        @functools.wraps(orig)
        def w(expression, *args, **kwargs):
            if not obs.on or not isinstance(expression, exp.Expr):
                return orig(expression, *args, **kwargs)
            before = expression.copy(); ctx = obs._ctx(expression, args)
            out = orig(expression, *args, **kwargs)
            if name == "distributive_law" and isinstance(out, exp.Expr):
                dup = shared_nodes(out)
                if dup:
                    ctx["aliased"] = dup[0].sql()
            obs.log.append((label or name, ctx, before, out.copy() if isinstance(out, exp.Expr) else out))
            if name != "simplify_parens":
                obs._step_text(label or name, expression, before, out)
            if name == "simplify_parens" and out is not expression and isinstance(out, exp.Expr) and expression.parent is not None:
                try:
                    obs.log.append(("parens_text", {"pk": pk_of(expression.parent), "ck": pk_of(out)}) + parent_context(expression, before, out))
                except Exception:  # parent pointers can be stale inside the pipeline: the end-to-end text check still applies
                    pass
            return out
        setattr(mod, name, w)

    def _wrap_flat(self, cls):
        """observe every pair decision of _flat_simplify (the AND/OR tables, _simplify_comparison, _simplify_binary)"""
        exp, _, _ = sg()
        orig = cls._flat_simplify
        obs = self

        @functools.wraps(orig)
        def w(self_, expression, simplifier, root=True):
            if not obs.on:
                return orig(self_, expression, simplifier, root)
            pif = isinstance(expression.parent, exp.If)
            whole_before = expression.copy()
            gate = bool(root or not expression.same_parent)

            def cb(e, a, b):
                a0, b0 = a.copy(), b.copy()
                sp = a.parent is b.parent
                r = simplifier(e, a, b)
                kind = "none" if r is None else ("same" if r is e else "res")
                obs.log.append(("pair", {"cls": type(e).__name__, "pif": pif, "sp": sp, "kind": kind, "negate": bool(e.args.get("negate"))},
                                (a0, b0), r.copy() if kind == "res" else None))
                return r
            out = orig(self_, expression, cb, root)
            obs.log.append(("flat", {"cls": type(expression).__name__, "pif": pif, "gate": gate, "p": None}, whole_before,
                            out.copy() if isinstance(out, exp.Expr) else out))
            return out
        cls._flat_simplify = w

    def run(self, fn, *args, **kwargs):
        self.log = []
        self.on = True
        try:
            return fn(*args, **kwargs)
        finally:
            self.on = False


OBS = None


# ------------------------------------------------------------------------------------------ normal-form test (independent of sqlglot)
def in_normal_form(e, dnf):
    """no OR under an AND (DNF) / no AND under an OR (CNF), looking through parentheses only (clause structure)"""
    exp, _, _ = sg()
    outer, inner = (exp.Or, exp.And) if dnf else (exp.And, exp.Or)

    def clauses_ok(n, under_inner):
        n = n.unnest()
        if isinstance(n, outer):
            if under_inner:
                return False
            return clauses_ok(n.left, False) and clauses_ok(n.right, False)
        if isinstance(n, inner):
            return clauses_ok(n.left, True) and clauses_ok(n.right, True)
        return True
    return clauses_ok(e, False)


# ------------------------------------------------------------------------------------------ skeletons / classification
def between_rewritten(e):
    """`e` with every BETWEEN written as two comparisons (normalize does that in place before it may give up)"""
    exp, _, _ = sg()

    def rb(n):
        if isinstance(n, exp.Between):
            r = exp.And(this=exp.GTE(this=n.this.copy(), expression=n.args["low"].copy()),
                        expression=exp.LTE(this=n.this.copy(), expression=n.args["high"].copy()))
            return exp.Paren(this=r) if isinstance(n.parent, exp.Not) else r
        return n
    return e.copy().transform(rb)


def skeleton(e):
    s = e.sql()
    s = re.sub(r"\b[bcin]\d\b", "id", s)
    s = re.sub(r"\bt\.id\b", "id", s)
    s = re.sub(r"\b\d+\b", "n", s)
    return s


def classify(diffs):
    """kind of a semantic difference: which results are confused"""
    kinds = set()
    for env, u, v in diffs:
        if u is not None and v is not None and truth(u) == truth(v) and isinstance(u, bool) != isinstance(v, bool):
            kinds.add("same-truth")  # TRUE vs 5: the same 3-valued truth value, another value (a numeric left as a predicate)
        elif u is None and v is not None:
            kinds.add("null-to-" + ("true" if truth(v) else "false") if isinstance(v, bool) or v in (0, 1) else "null-to-value")
        elif v is None:
            kinds.add("value-to-null")
        else:
            kinds.add("value-change")
    return "+".join(sorted(kinds))


def has_non_conjunct_binding(root):
    """does `root` (an AND) contain `column = literal` somewhere that is not a conjunct of it (under NOT, COALESCE, ...)?"""
    exp, _, _ = sg()
    for eq in root.find_all(exp.EQ):
        if isinstance(eq.left, exp.Column) and isinstance(eq.right, exp.Literal):
            p = eq.parent
            while p is not None and p is not root:
                if not isinstance(p, (exp.And, exp.Paren)):
                    return True
                p = p.parent
    return False


def propagated_non_conjunct(before, after):
    """did the step substitute a binding `column = literal` that is NOT a conjunct of the AND (under NOT, COALESCE ...)?"""
    exp, _, _ = sg()
    if not has_non_conjunct_binding(before):
        return False
    conj = set()
    for eq in before.find_all(exp.EQ):
        if isinstance(eq.left, exp.Column) and isinstance(eq.right, exp.Literal):
            p = eq.parent
            ok = True
            while p is not None and p is not before:
                if not isinstance(p, (exp.And, exp.Paren)):
                    ok = False
                    break
                p = p.parent
            if ok:
                conj.add(eq.left.name)
    nb = {}
    for c in before.find_all(exp.Column):
        nb[c.name] = nb.get(c.name, 0) + 1
    na = {}
    for c in after.find_all(exp.Column):
        na[c.name] = na.get(c.name, 0) + 1
    return any(na.get(k, 0) < v and k not in conj for k, v in nb.items())


def minimise_step(before, after, fn_after=None):
    """delta-debug a violating (before -> after) pair of a pure pair rule is not needed (pairs are minimal); for whole
    expressions shrink by replacing sub-connectors with one operand while the end-to-end result still differs."""
    return before, after


# ------------------------------------------------------------------------------------------ the oracle on one input
APIS = ["simplify", "simplify_cp", "simplify_co", "cnf", "dnf"]


def run_api(api, e, dialect):
    _, S, N = sg()
    if api == "simplify":
        return S.simplify(e, dialect=dialect)
    if api == "simplify_cp":
        return S.simplify(e, constant_propagation=True, dialect=dialect)
    if api == "simplify_co":
        return S.simplify(e, coalesce_simplification=True, dialect=dialect)
    if api == "connectors":  # the pair tables reached directly, operands in the order written (no uniq_sort / sort pass first)
        return S.Simplifier(dialect=dialect).simplify_connectors(e)
    if api == "cnf":
        return N.normalize(e, dnf=False, max_distance=24)
    if api == "dnf":
        return N.normalize(e, dnf=True, max_distance=24)
    raise HarnessError(api)


def step_pairs(log):
    """(rule, ctx, before_expr, after_expr) for every observed step that changed something"""
    exp, _, _ = sg()
    for rule, ctx, before, after in log:
        if rule == "pair":
            if ctx["kind"] != "res":
                continue
            a, b = before
            cls = getattr(exp, ctx["cls"])
            be = cls(this=a.copy(), expression=b.copy(), **({"negate": True} if ctx.get("negate") else {}))
            name = "_simplify_connectors" if cls in (exp.And, exp.Or) else "_simplify_binary"
            if name == "_simplify_binary" and cls is exp.Sub and not ctx["sp"]:
                continue
            yield name, ctx, be, after
        elif rule in ("flat", "parens_text", "step_text"):
            continue
        elif isinstance(after, exp.Expr) and before != after:
            yield rule, ctx, before, after


TEXT_DIALECTS = ["duckdb", "postgres", "mysql"]


def text_dialects_for(chk, sql):
    """base dialect always; one more (all inputs in thorough, every second input in quick)"""
    h = zlib.crc32(sql.encode())
    if chk.quick and (h >> 3) % 2:
        return (None,)
    return (None, TEXT_DIALECTS[h % len(TEXT_DIALECTS)])


def text_differs(ref, tree, dialect):
    """does `tree`, printed in `dialect` and parsed again, still mean `ref`?  None = yes; ('input-unstable',) when `ref`
    itself does not survive the round trip (a printer / parser matter, property C01, not simplify's)"""
    import sqlglot
    try:
        ref_rt = sqlglot.parse_one(ref.sql(dialect=dialect), read=dialect)
        st, res = differing_envs(ref, ref_rt)
        if st != "ok" or res:
            return ("input-unstable", "")
    except Exception:
        return ("input-unstable", "")
    text = tree.sql(dialect=dialect)
    try:
        rt = sqlglot.parse_one(text, read=dialect)
    except Exception as ex:
        return ("unparsable", f"does not parse ({type(ex).__name__})")
    if rt == tree:
        return None
    st, res = differing_envs(ref, rt)
    if st != "ok":
        return (st, "")
    if res:
        env, u, v = res[0]
        return ("differs", f"parses back as `{rt.sql(dialect=dialect)}` with another grouping: {u!r} vs {v!r} under {env}")
    return None


def step_differs(fa, fb, env):
    try:
        return not same(fa(env), fb(env))
    except KeyError:
        return False


def sub_env_of(small, big):
    return all(k in big and big[k] == v for k, v in small.items())


def is_negate_form(e):
    """`NOT x IS NULL` written as `Is(x, NULL, negate=True)`, the tree the postgres parser builds for `x IS NOT NULL`"""
    exp, _, _ = sg()

    def f(n):
        if isinstance(n, exp.Not) and isinstance(n.this, exp.Is) and not n.this.args.get("negate"):
            return exp.Is(this=n.this.this.copy(), expression=n.this.expression.copy(), negate=True)
        return n
    return e.copy().transform(f)


def shared_nodes(e):
    """node objects reachable twice (one subtree object sitting in two places): C08's no-aliasing invariant on a result"""
    seen, dup = set(), []
    stack = [e]
    while stack:
        n = stack.pop()
        if id(n) in seen:
            dup.append(n)
            continue
        seen.add(id(n))
        stack.extend(n.iter_expressions())
    return dup


def check_input(chk: Check, sql, variant, api, dialect, report=True):
    """run one API on one input with the observer on; evaluate end-to-end and every step. Returns (log, viol list)."""
    variant_in = variant
    exp, S, N = sg()
    import sqlglot
    try:
        e0 = sqlglot.parse_one(sql)
    except Exception:
        chk.count("gen:parse-fail")
        return [], []
    force_neg = variant.endswith("+isneg")
    variant = variant.split("+")[0]
    if force_neg or zlib.crc32(sql.encode()) % 3 == 0:
        e0 = is_negate_form(e0)
    e = typed(e0) if variant != "untyped" else e0
    from sqlglot.dialects.dialect import Dialect
    d = Dialect.get_or_raise(dialect)
    OBS.sdn, OBS.cns = bool(d.SAFE_TO_ELIMINATE_DOUBLE_NEGATION), bool(d.COALESCE_COMPARISON_NON_STANDARD)
    inp = e.copy()
    try:
        out = OBS.run(run_api, api, inp, dialect)
    except Exception as ex:  # the property is about values; a crash is reported as a violation too
        key = f"{api}:exception:{type(ex).__name__}"
        viol = [{"key": key, "what": f"{api} raised {type(ex).__name__}: {ex}", "kind": "exception", "rule": api,
                 "replay": {"sql": sql, "variant": variant_in, "api": api, "dialect": dialect}}]
        if report:
            chk.report_violation(key, viol[0]["what"], viol[0]["replay"], {"kind": "exception", "rule": api})
        return list(OBS.log), viol
    log = list(OBS.log)
    viols = []
    dup = shared_nodes(out)
    chk.count(f"alias:{api}:{'shared' if dup else 'ok'}")
    if dup:
        viols.append({"key": f"{api}:aliasing", "rule": api, "kind": "aliasing",
                      "what": f"{api}: the result of `{e.sql()}` contains the same node object twice (`{dup[0].sql()}`): a later in-place rewrite changes both places",
                      "replay": {"sql": sql, "variant": variant_in, "api": api, "dialect": dialect}, "size": 10 ** 6})
    for rule, ctx, be, af in log:
        if rule == "distributive_law" and ctx.get("aliased"):
            viols.append({"key": "distributive_law:aliasing", "rule": "distributive_law", "kind": "aliasing",
                          "what": f"step distributive_law on `{be.sql()}` returned a tree that contains the node `{ctx['aliased']}` twice (shared, not copied)",
                          "replay": {"sql": sql, "variant": variant_in, "api": api, "dialect": dialect, "rule": "distributive_law", "before": be.sql()},
                          "size": len(be.sql())})
            break
    step_diff_envs = []
    quiet_steps = []  # changed steps that do not differ on their own domain (a larger end-to-end domain may still reach them)
    for rule, ctx, be, af in step_pairs(log):
        # the pair tables of simplify_connectors, and the rule itself under a connector / parenthesis, work on operands of
        # AND / OR: what matters there is the 3-valued truth value (the rule re-wraps `x AND TRUE` where a value is needed)
        truth_only = rule == "_simplify_connectors" or (rule == "simplify_connectors" and ctx.get("p") in ("and", "or", "paren"))
        st, res = differing_envs(be, af, truth_only=truth_only)
        chk.count(f"step:{rule}:{'changed' if st == 'ok' else st}")
        if st == "ok" and not res and not truth_only:
            quiet_steps.append((rule, be, af))
        if st != "ok" or not res:
            continue
        kind = classify(res)
        if rule == "propagate_constants" and all(truth(u) is not True and truth(v) is not True for _, u, v in res):
            kind = "null-to-false"  # NULL and FALSE confused in either direction, TRUE preserved: the by-design WHERE-equivalence
        if rule == "propagate_constants" and propagated_non_conjunct(be, af):
            kind = "eq-not-conjunct"  # the defect repaired by 9e10c4d (kind=fixed: reported if it comes back)
        key = f"{rule}:{skeleton(be)}=>{skeleton(af)}"
        step_diff_envs.append((comp(be), comp(af)))
        viols.append({"key": key, "rule": rule, "kind": kind, "what": f"step {rule}: `{be.sql()}` -> `{af.sql()}` differs under {res[0][0]}: {res[0][1]!r} vs {res[0][2]!r} ({kind})",
                      "replay": {"sql": sql, "variant": variant_in, "api": api, "dialect": dialect, "rule": rule, "before": be.sql(), "after": af.sql(), "env": res[0][0]},
                      "size": len(be.sql())})
    # keep the innermost (smallest) violating steps: an outer step whose every differing env extends a smaller one's is explained
    viols.sort(key=lambda v: v["size"])
    # end-to-end
    st, res = differing_envs(e, out)
    chk.count(f"e2e:{api}:{st if st != 'ok' else ('differs' if res else 'equal')}")
    if st == "ok" and res:
        unexplained = [r for r in res if not any(step_differs(fa, fb, r[0]) for fa, fb in step_diff_envs)]
        if unexplained and quiet_steps:
            # the end-to-end domain has values (e.g. a folded constant) the step's own domain lacks: find the first changed
            # step that differs under such an assignment and report THAT step (rule + skeleton + kind), not the pipeline
            compiled = []
            for rule2, be2, af2 in quiet_steps:
                try:
                    compiled.append((rule2, be2, af2, comp(be2), comp(af2)))
                except Unsupported:
                    pass
            still = []
            blamed = set()
            for r in unexplained:
                hit = next((c for c in compiled if step_differs(c[3], c[4], r[0])), None)
                if hit is None:
                    still.append(r)
                    continue
                rule2, be2, af2, fa2, fb2 = hit
                if id(be2) in blamed:
                    continue
                blamed.add(id(be2))
                cols2 = {c.name for c in be2.find_all(exp.Column)} | {c.name for c in af2.find_all(exp.Column)}
                env2 = {k: v for k, v in r[0].items() if k in cols2}
                u2, v2 = fa2(env2), fb2(env2)
                kind2 = classify([(env2, u2, v2)])
                if rule2 == "propagate_constants" and truth(u2) is not True and truth(v2) is not True:
                    kind2 = "null-to-false"
                if rule2 == "propagate_constants" and propagated_non_conjunct(be2, af2):
                    kind2 = "eq-not-conjunct"
                viols.append({"key": f"{rule2}:{skeleton(be2)}=>{skeleton(af2)}", "rule": rule2, "kind": kind2,
                              "what": f"step {rule2}: `{be2.sql()}` -> `{af2.sql()}` differs under {env2}: {u2!r} vs {v2!r} ({kind2}); "
                                      f"found through the end-to-end assignment {r[0]}",
                              "replay": {"sql": sql, "variant": variant_in, "api": api, "dialect": dialect, "rule": rule2, "before": be2.sql(),
                                         "after": af2.sql(), "env": env2}, "size": len(be2.sql())})
            unexplained = still
        if unexplained:
            env, u, v = unexplained[0]
            viols.append({"key": f"{api}:e2e:{skeleton(e)}=>{skeleton(out)}", "rule": api, "kind": classify(unexplained),
                          "what": f"{api}: `{e.sql()}` -> `{out.sql()}` differs under {env}: {u!r} vs {v!r}, not explained by a violating step",
                          "replay": {"sql": sql, "variant": variant_in, "api": api, "dialect": dialect, "env": env}, "size": 10 ** 6})
    # text level: what simplify / normalize return is used AS SQL — grouping lives in Paren nodes, so the result must mean
    # the same after printing and parsing again (base dialect and one more)
    text_viols = []
    for rule, ctx, pb, pa in log:
        if rule != "parens_text":
            continue
        for td in text_dialects_for(chk, sql):
            r = text_differs(pb, pa, td)
            chk.count(f"text:step:{'ok' if r is None else r[0]}")
            if r is not None and r[0] in ("differs", "unparsable"):
                text_viols.append({"key": f"simplify_parens:text:{ctx['pk']}({ctx['ck']})", "rule": "simplify_parens", "kind": "text-" + r[0],
                                   "what": f"step simplify_parens drops the parentheses of `{pb.sql(dialect=td)}`: `{pa.sql(dialect=td)}` {r[1]} (dialect {td})",
                                   "replay": {"sql": sql, "variant": variant_in, "api": api, "dialect": dialect, "rule": "simplify_parens",
                                              "before": pb.sql(dialect=td), "after": pa.sql(dialect=td), "text_dialect": td}, "size": len(pb.sql())})
                break
    if st == "ok" and not res:
        for td in text_dialects_for(chk, sql):
            r = text_differs(e, out, td)
            chk.count(f"text:e2e:{'ok' if r is None else r[0]}")
            if r is not None and r[0] in ("differs", "unparsable") and not text_viols:
                culprit = None
                for rule2, ctx2, pb2, pa2 in log:  # the first rule step whose own parent context is not text-stable
                    if rule2 == "step_text":
                        r2 = text_differs(pb2, pa2, td)
                        if r2 is not None and r2[0] in ("differs", "unparsable"):
                            culprit = (ctx2, pb2, pa2, r2)
                            break
                if culprit is None:
                    # no step differs in value on its own small context (e.g. NOT NULL columns): fall back to the first step
                    # whose result does not even parse back to the same tree
                    import sqlglot
                    for rule2, ctx2, pb2, pa2 in log:
                        if rule2 == "step_text":
                            try:
                                if sqlglot.parse_one(pa2.sql(dialect=td), read=td) != pa2 and sqlglot.parse_one(pb2.sql(dialect=td), read=td) == pb2:
                                    culprit = (ctx2, pb2, pa2, ("differs", "parses back as another tree"))
                                    break
                            except Exception:
                                continue
                if culprit is not None:
                    ctx2, pb2, pa2, r2 = culprit
                    text_viols.append({"key": f"{ctx2['rule']}:text:{ctx2['pk']}({ctx2['ck']})", "rule": ctx2["rule"], "kind": "text-" + r2[0],
                                       "what": f"step {ctx2['rule']} puts `{pa2.sql(dialect=td)}` where `{pb2.sql(dialect=td)}` was: {r2[1]} (dialect {td}); "
                                               f"end to end {api}: `{e.sql()}` -> `{out.sql(dialect=td)}`",
                                       "replay": {"sql": sql, "variant": variant_in, "api": api, "dialect": dialect, "rule": ctx2["rule"],
                                                  "before": pb2.sql(dialect=td), "after": pa2.sql(dialect=td), "text_dialect": td}, "size": len(pb2.sql())})
                    break
                text_viols.append({"key": f"{api}:text:{skeleton(e)}=>{skeleton(out)}", "rule": api, "kind": "text-" + r[0],
                                   "what": f"{api}: `{e.sql()}` -> `{out.sql(dialect=td)}` {r[1]} (dialect {td}); the returned tree itself evaluates like the input",
                                   "replay": {"sql": sql, "variant": variant_in, "api": api, "dialect": dialect, "text_dialect": td}, "size": 10 ** 6})
                break
    seen_text = set()
    for v in text_viols:
        if v["key"] not in seen_text:
            seen_text.add(v["key"])
            viols.append(v)
    if api in ("cnf", "dnf"):
        dnf = api == "dnf"
        if not (in_normal_form(out, dnf) or out == e or between_rewritten(out) == between_rewritten(e)):
            viols.append({"key": f"{api}:not-normal-form:{skeleton(e)}", "rule": api, "kind": "not-normal-form",
                          "what": f"normalize(dnf={dnf}) returned `{out.sql()}` for `{e.sql()}`: neither in normal form nor the input",
                          "replay": {"sql": sql, "variant": variant_in, "api": api, "dialect": dialect}, "size": 10 ** 6})
        chk.count(f"nf:{api}:{'normal' if in_normal_form(out, dnf) else 'unchanged'}")
    if report:
        seen_rules = set()
        for v in viols:
            # nested steps: simplify_connectors ⊇ _simplify_connectors ⊇ _simplify_comparison — report the innermost only
            if v["rule"] in ("simplify_connectors", "_simplify_connectors") and ("_simplify_comparison" in seen_rules or "_simplify_connectors" in seen_rules):
                continue
            if v["rule"] == "simplify_literals" and "_simplify_binary" in seen_rules:
                continue
            seen_rules.add(v["rule"])
            chk.report_violation(v["key"], v["what"], v["replay"], {"kind": v["kind"], "rule": v["rule"]})
    return log, viols


# ------------------------------------------------------------------------------------------ correspondence
def model_request(rule, ctx, before, after):
    """driver request + expected answer for one observed step, or None when the step has no mirror/checker"""
    exp, _, _ = sg()
    if rule == "pair":
        if ctx.get("negate"):
            return None  # Is(negate=True) is outside the model's fragment (evaluated by the search oracle only)
        a, b = before
        cls = ctx["cls"]
        if cls in ("And", "Or"):
            req = {"op": "conn_pair", "and": cls == "And", "l": to_json(a), "r": to_json(b)}
        else:
            k = CMP_NAMES.get(cls) or {"Is": "is", "Add": "add", "Sub": "sub", "Mul": "mul"}.get(cls)
            if k is None:
                return None
            req = {"op": "bin_pair", "k": k, "pif": ctx["pif"], "sp": ctx["sp"], "a": to_json(a), "b": to_json(b)}
        exp_ans = [ctx["kind"]] if ctx["kind"] != "res" else ["res", to_json(after)]
        if req["op"] == "bin_pair" and ctx["kind"] == "same":
            exp_ans = ["none"]
        return req, exp_ans
    if not isinstance(after, exp.Expr):
        return None
    if rule == "flat":
        k = {"And": "and", "Or": "or", "Add": "add", "Mul": "mul"}.get(ctx["cls"])
        if k is None:
            return None
        return {"op": "flat_simplify", "k": k, "gate": ctx["gate"], "pif": ctx["pif"], "e": to_json(before)}, to_json(after)
    p = ctx["p"]
    if rule == "rewrite_between":
        if p.startswith("other"):
            return None
        return {"op": rule, "p": p, "e": to_json(before)}, to_json(after)
    if rule == "simplify_not":
        return {"op": rule, "p": p, "ib": ctx.get("ib", False), "sdn": ctx["sdn"], "e": to_json(before)}, to_json(after)
    if rule == "simplify_equality":
        return {"op": rule, "e": to_json(before)}, to_json(after)
    if rule == "simplify_conditionals":
        if p.startswith("other"):
            return None
        return {"op": rule, "p": p, "e": to_json(before)}, to_json(after)
    if rule == "simplify_coalesce":
        if p.startswith("other"):
            return None
        return {"op": rule, "cns": ctx["cns"], "p": p, "e": to_json(before)}, to_json(after)
    if rule == "simplify_parens":
        if p.startswith("other"):
            return None
        return {"op": rule, "p": p, "e": to_json(before)}, to_json(after)
    if rule == "flatten":
        return {"op": "flatten", "e": to_json(before)}, to_json(after)
    if rule == "simplify_literals" and isinstance(before, exp.Neg):
        return {"op": "neg_neg", "e": to_json(before)}, to_json(after)
    if rule == "distributive_law":
        # mirrored with uniq_sort = identity: compared modulo order / duplicates / parentheses of connector operands
        return {"op": "dist_law", "dnf": bool(ctx["root"]), "e": to_json(before)}, ("CANON", to_json(after))
    gate = bool(ctx["root"] or not ctx.get("sp"))
    if rule == "propagate_constants":
        return {"op": rule, "gate": gate, "e": to_json(before)}, ("PC", to_json(after))
    if rule == "remove_complements":
        return {"op": rule, "gate": gate, "nonnull": ctx["nonnull"], "e": to_json(before)}, ("RC", to_json(after), ctx["nonnull"])
    if rule == "uniq_sort" and isinstance(before, (exp.And, exp.Or)):
        ops_b = list(before.flatten())
        if before == after:
            order = ops_b
        elif len({o for o in ops_b}) == 1:
            order = [ops_b[0]]
        elif type(after) is type(before):
            order = list(after.flatten())
        else:
            order = None
        if order is not None:
            return {"op": rule, "gate": gate, "order": [to_json(o) for o in order], "e": to_json(before)}, to_json(after)
    if rule in ("uniq_sort", "absorb_and_eliminate", "remove_complements", "sort_comparison"):
        return {"op": "check", "rule": rule, "a": to_json(before), "b": to_json(after)}, True
    return None


def correspond(chk: Check, logs, e2e_norm):
    """logs: observed steps; e2e_norm: (api, before, after) of normalize runs"""
    lines, expect, what = [], [], []
    seen = set()
    for rule, ctx, before, after in logs:
        if rule in ("parens_text", "step_text"):
            continue
        try:
            r = model_request(rule, ctx, before, after)
        except NotInFragment:
            chk.count("corr:not-in-fragment")
            continue
        if r is None:
            chk.count("corr:no-mirror:" + rule)
            continue
        req, ans = r
        line = json.dumps(req, sort_keys=True)
        if line in seen:
            continue
        seen.add(line)
        lines.append(line); expect.append(ans)
        changed = rule == "pair" and ctx["kind"] == "res" or (rule != "pair" and before != after)
        what.append((rule, ctx, changed))
        chk.count(f"corr:{rule if rule != 'pair' else 'pair_' + ctx['cls']}:{'changed' if changed else 'same'}")
    for api, be, af in e2e_norm:
        try:
            jb, ja = to_json(be), to_json(af)
        except NotInFragment:
            continue
        _, _, Nmod = sg()
        for req, ans in (({"op": "check_normalize", "dnf": api == "dnf", "a": jb, "b": ja}, True),
                         ({"op": "check", "rule": "distributive_law", "a": jb, "b": ja}, True),
                         ({"op": "norm_distance", "dnf": api == "dnf", "e": jb}, ("EQ", int(Nmod.normalization_distance(be.copy(), dnf=api == "dnf")))),
                         ({"op": "normalized", "dnf": api == "dnf", "e": ja}, None)):
            line = json.dumps(req, sort_keys=True)
            if line in seen:
                continue
            seen.add(line)
            lines.append(line); expect.append(ans if ans is not None else ("NF", api, be, af)); what.append((api, {}, True))
    if not lines:
        return []
    got = chk.driver("C06", lines)
    chk.corr_cases += len(lines)
    hints = []
    rejected = 0
    for line, g, e, (rule, ctx, changed) in zip(lines, got, expect, what):
        gj = json.loads(g)
        chk.case(line, nontrivial=changed, sample={"request": json.loads(line), "model": gj} if changed and len(chk.samples) < 10 else None)
        if isinstance(e, tuple) and e[0] == "CANON":
            if canon(gj) != canon(e[1]):
                chk.correspondence_broken(f"rule {rule} (modulo uniq_sort)", {"request": json.loads(line), "model": gj, "impl": e[1]})
                hints.append((rule, json.loads(line)))
            continue
        if isinstance(e, tuple) and e[0] == "PC":
            if gj[0] == "conflict":
                chk.count("corr:propagate_constants:conflict-not-modelled")
            elif gj[1] != e[1]:
                chk.correspondence_broken("rule propagate_constants", {"request": json.loads(line), "model": gj[1], "impl": e[1]})
                hints.append((rule, json.loads(line)))
            continue
        if isinstance(e, tuple) and e[0] == "RC":
            if gj[0] != e[1]:
                chk.correspondence_broken("rule remove_complements", {"request": json.loads(line), "model": gj[0], "impl": e[1]})
                hints.append((rule, json.loads(line)))
            elif e[2] and not gj[1]:
                chk.correspondence_broken("remove_complements: `nonnull` meta on an expression the model cannot show non-NULL",
                                          {"request": json.loads(line)})
            continue
        if isinstance(e, tuple) and e[0] == "EQ":
            if gj != e[1]:
                chk.correspondence_broken("normalization_distance", {"request": json.loads(line), "model": gj, "impl": e[1]})
            continue
        if isinstance(e, tuple):  # normalized mirror vs the real normalized() and the independent normal-form test
            _, api, be, af = e
            _, _, N = sg()
            real = N.normalized(af.copy(), dnf=api == "dnf")
            if gj != real:
                chk.correspondence_broken("normalize.normalized", {"dnf": api == "dnf", "e": af.sql(), "model": gj, "impl": real})
            continue
        if json.loads(line)["op"] in ("check", "check_normalize"):
            if gj is not True:
                rejected += 1
                chk.count("corr:checker-rejected:" + rule)
                hints.append((rule, json.loads(line)))
            continue
        if gj != e:
            chk.correspondence_broken(f"rule {rule}", {"request": json.loads(line), "model": gj, "impl": e})
            hints.append((rule, json.loads(line)))
    chk.cov["checker_rejected_steps"] = rejected
    return hints


def canon(j):
    """a model term modulo associativity / commutativity / idempotence / parentheses / neutral elements of AND and OR
    (what uniq_sort may change): used to compare the distributive-law mirror (run with uniq_sort = identity)"""
    if not isinstance(j, list) or not j:
        return j
    if not isinstance(j[0], str):  # a list of terms (IN list, COALESCE arguments, CASE branches)
        return [canon(x) for x in j]
    t = j[0]
    if t == "paren":
        return canon(j[1])
    if t in ("and", "or"):
        ops = []

        def flat(x):
            while x[0] == "paren":
                x = x[1]
            if x[0] == t:
                flat(x[1]); flat(x[2])
            else:
                ops.append(canon(x))
        flat(j)
        neutral = ["bool", t == "and"]
        uniq = []
        for o in ops:
            if o != neutral and o not in uniq:
                uniq.append(o)
        if not uniq:
            return neutral
        if len(uniq) == 1:
            return uniq[0]
        return [t] + sorted(uniq, key=lambda x: json.dumps(x))
    return [t] + [canon(x) if isinstance(x, list) else x for x in j[1:]]


def validate_helpers(chk: Check, sqls):
    """the helper predicates the rules trust (_is_constant, is_number, is_null, is_zero, is_false, always_true,
    always_false, _is_nonnull_constant) on every sub-expression of the generated inputs: real code vs the model"""
    import sqlglot
    exp, S, _ = sg()
    seen, lines, expect = set(), [], []
    for sql in sqls:
        try:
            e = sqlglot.parse_one(sql)
        except Exception:
            continue
        for n in e.walk():
            if not isinstance(n, exp.Expr):
                continue
            try:
                j = to_json(n)
            except NotInFragment:
                continue
            key = json.dumps(j)
            if key in seen:
                continue
            seen.add(key)
            real = [bool(S._is_constant(n)), bool(n.is_number), bool(S.is_null(n)), bool(S.is_zero(n)), bool(S.is_false(n)),
                    bool(S.always_true(n)), bool(S.always_false(n)), bool(S._is_nonnull_constant(n))]
            if n.is_number:
                try:
                    real.append(int(n.to_py()))
                except Exception:
                    real.append(None)
            else:
                real.append(None)
            lines.append(json.dumps({"op": "helpers", "e": j}))
            expect.append((n.sql(), real))
    if not lines:
        return
    got = chk.driver("C06", lines)
    chk.corr_cases += len(lines)
    names = ["_is_constant", "is_number", "is_null", "is_zero", "is_false", "always_true", "always_false", "_is_nonnull_constant", "to_py"]
    for g, (text, real) in zip(got, expect):
        m = json.loads(g)
        if m != real:
            bad = [nm for nm, x, y in zip(names, m, real) if x != y]
            chk.correspondence_broken("helper predicate(s) " + ", ".join(bad), {"e": text, "model": dict(zip(names, m)), "impl": dict(zip(names, real))})
    chk.cov["helper_validation"] = {"distinct_subexpressions": len(lines)}


def pkind_of(n):
    exp, _, _ = sg()
    if n is None:
        return "none"
    m = {exp.Or: "or", exp.And: "and", exp.Not: "not", exp.EQ: "eq", exp.NEQ: "eq", exp.LT: "rel", exp.LTE: "rel", exp.GT: "rel",
         exp.GTE: "rel", exp.Is: "is", exp.Between: "between", exp.In: "inList", exp.Add: "add", exp.Sub: "sub", exp.Mul: "mul",
         exp.Neg: "neg", exp.Paren: "paren", exp.Column: "atom", exp.Literal: "atom", exp.Boolean: "atom", exp.Null: "atom",
         exp.Coalesce: "func", exp.Case: "func", exp.If: "func"}
    return m.get(type(n))


def validate_reparse_table(chk: Check):
    """the hand-written `reparseSafe` table (Model/Simplify.lean) against the real parser: for every parent slot x child
    kind of the Paren sweep, does the text WITHOUT the parentheses parse back with the same meaning?"""
    import sqlglot
    exp, _, _ = sg()
    lines, facts = [], []
    for tpl, kind in PAREN_PARENTS:
        marker = sqlglot.parse_one(tpl.replace("{X}", "zz"))
        par = next((p for p in marker.find_all(exp.Paren) if isinstance(p.this, exp.Column) and p.this.name == "zz"), None)
        if par is None:
            continue
        pk = pkind_of(par.parent)
        pos = {"this": 0, "expression": 1, "low": 1, "high": 2, "expressions": 1, "true": 1, "false": 1, "default": 1, "ifs": 1}.get(par.arg_key, 0)
        if isinstance(par.parent, (exp.Coalesce, exp.Case, exp.If)):
            pos = 1
        for child in (PAREN_CHILDREN_BOOL if kind == "b" else PAREN_CHILDREN_INT):
            ck = pkind_of(sqlglot.parse_one(child))
            if pk is None or ck is None:
                continue
            a1 = sqlglot.parse_one(tpl.replace("{X}", child))
            try:
                # print the tree with that one Paren node removed (the printer's own spacing, e.g. `- -x`), parse again
                a1c = a1.copy()
                cj = sqlglot.parse_one(child)
                tgt = next(p for p in a1c.find_all(exp.Paren) if p.this == cj and pkind_of(p.parent) == pk)
                tgt.replace(tgt.this)
                a2 = sqlglot.parse_one(a1c.sql())
                st, res = differing_envs(a1, a2)
                actual = st == "ok" and not res
            except Exception:
                actual = False
            lines.append(json.dumps({"op": "reparse_safe", "p": pk, "pos": pos, "c": ck}))
            facts.append((tpl, child, pk, pos, ck, actual))
    got = chk.driver("C06", lines)
    chk.corr_cases += len(lines)
    conservative = 0
    seen = set()
    for g, (tpl, child, pk, pos, ck, actual) in zip(got, facts):
        model = json.loads(g)
        seen.add((pk, pos, ck))
        if model is True and not actual:
            chk.correspondence_broken("reparseSafe table claims a slot safe that the real parser regroups",
                                      {"template": tpl, "child": child, "parent_kind": pk, "pos": pos, "child_kind": ck})
        elif model is False and actual:
            conservative += 1
    chk.cov["reparse_table_validation"] = {"cases": len(lines), "distinct_slots": len(seen), "model_conservative": conservative}


def evaluator_differential(chk: Check, sqls):
    """the Python evaluator against SQLite (sqlite3) and against the Lean `eval`, on generated inputs and assignments"""
    import sqlite3
    import sqlglot
    exp, _, _ = sg()
    rng = chk.rng
    con = sqlite3.connect(":memory:")
    lines, expect = [], []
    n_sqlite = n_bad = 0
    for sql in sqls:
        try:
            e = sqlglot.parse_one(sql)
            f = comp(e)
        except Exception:
            continue
        names, doms = domain([e])
        envs = [dict(zip(names, [rng.choice(d) for d in doms])) for _ in range(4)]
        je = None
        try:
            je = to_json(e)
        except NotInFragment:
            pass
        text = json_sql(je) if je is not None else None  # fully parenthesised: no dependence on any printer's precedence
        for env in envs:
            v = f(env)
            if text:
                try:
                    cols = ", ".join(f"{'NULL' if x is None else int(x)} AS {k}" for k, x in env.items()) or "1 AS z"
                    row = con.execute(f"SELECT ({text}) FROM (SELECT {cols})").fetchone()
                    n_sqlite += 1
                    if not same(row[0], v):
                        n_bad += 1
                        if n_bad <= 3:
                            chk.note(f"python evaluator differs from SQLite on `{text}` under {env}: {v!r} vs {row[0]!r}")
                except sqlite3.Error:
                    chk.count("eval:sqlite-rejects")
            if je is not None:
                b = [env.get(f"b{i}") for i in range(10)] + [env.get(f"c{i}") for i in range(10)]
                i_ = [env.get(f"i{i}") for i in range(10)] + [env.get(f"n{i}") for i in range(10)]
                lines.append(json.dumps({"op": "eval", "e": je, "b": b, "i": i_}))
                expect.append((sql, env, v))
    if n_bad:
        raise HarnessError(f"the Python 3VL evaluator disagrees with SQLite on {n_bad} of {n_sqlite} evaluations")
    bad_l = 0
    if lines:
        got = chk.driver("C06", lines)
        for g, (sql, env, v) in zip(got, expect):
            gv = json.loads(g)
            if not same(gv if not isinstance(gv, list) else "err", v) if not isinstance(gv, list) else True:
                bad_l += 1
                if bad_l <= 3:
                    chk.note(f"Lean eval differs from the Python evaluator on `{sql}` under {env}: {gv!r} vs {v!r}")
    chk.cov["evaluator_validation"] = {"sqlite_evaluations": n_sqlite, "sqlite_disagreements": n_bad, "lean_eval_cases": len(lines), "lean_disagreements": bad_l}
    if bad_l:
        chk.correspondence_broken("Lean eval vs Python evaluator", {"count": bad_l})


# ------------------------------------------------------------------------------------------ run
CORPUS = [
    ("i0 = 5 AND i0 < 3", "untyped", "simplify"), ("NOT (i0 = 5 AND i0 < 3)", "untyped", "simplify"),
    ("CASE WHEN b0 THEN 1 WHEN TRUE THEN 2 END", "untyped", "simplify"),
    ("NOT i0 < 0 AND NOT i0 = 3", "untyped", "simplify_cp"), ("i1 = 0 AND i1 = 2", "untyped", "simplify_cp"),
    ("2 < COALESCE(i0, 1)", "untyped", "simplify_co"), ("COALESCE(i0, NULL, i1) = 1", "untyped", "simplify_co"), ("COALESCE(i0, 1) = 1", "untyped", "simplify_co"),
    ("c0 AND NOT c0", "nonnull", "simplify"), ("b0 AND NOT b0", "typed", "simplify"), ("c0 AND (NOT c0 OR b0)", "nonnull", "simplify"),
    ("(c0 AND b0) OR (NOT c0 AND b0)", "nonnull", "simplify"), ("(b0 AND b1) OR (NOT b0 AND b1)", "typed", "simplify"),
    ("NOT NOT b0", "typed", "simplify"), ("NOT NOT i0", "typed", "simplify"), ("3 < i0 AND i0 < 5", "untyped", "simplify"),
    ("(b0 AND b1) OR (b2 AND i0 > 1)", "untyped", "cnf"), ("(b0 OR b1) AND (b2 OR i0 BETWEEN 1 AND 3)", "untyped", "dnf"),
    ("5 - 3 - 1 < i0 * i1 AND i0 * i1 < 7", "untyped", "simplify"), ("NOT (i0 + i1 + 1 <= 3) AND i0 + i1 < 9", "untyped", "simplify"),
    ("i0 = 2 + 3 AND i0 < i1 AND i1 < 7", "untyped", "simplify_cp"),
    ("IF(TRUE, b0 OR b1, b2) AND b2", "untyped", "simplify"), ("CASE WHEN FALSE THEN 1 ELSE i0 + i1 END * 2", "untyped", "simplify"),
    ("-CASE WHEN TRUE THEN i0 + i1 END", "untyped", "simplify"), ("COALESCE(i0 + i1) * 2", "untyped", "simplify_co"),
    ("COALESCE(i0, 1) IS NOT NULL", "untyped+isneg", "simplify_co"), ("COALESCE(i0, i1, 2) IS NOT NULL AND b0", "untyped+isneg", "simplify_co"),
    ("COALESCE(i0, 1) IS NOT NULL", "untyped", "simplify_co"), ("COALESCE(b0, TRUE) IS NOT TRUE", "untyped+isneg", "simplify_co"),
    ("i1 = 2 + 3 AND i1 <> i0 - i1 AND i0 - i1 <= 5", "untyped", "simplify_cp"),
    ("i0 BETWEEN 1 AND 2 IS NULL", "untyped", "simplify"), ("i0 BETWEEN 1 AND 2 = b0", "untyped", "simplify"), ("NOT i0 BETWEEN 1 AND 2 IS TRUE", "typed", "simplify"),
    ("i0 BETWEEN 1 AND 2 IS NULL", "untyped", "cnf"), ("i0 IN (1, 2) IS NULL", "untyped", "simplify"), ("i0 BETWEEN 1 AND 2 IN (b0, TRUE)", "untyped", "simplify"),
    ("(i0 AND TRUE) AND (1 = 1)", "typed", "simplify"), ("(i0 AND TRUE) AND TRUE", "untyped", "simplify"), ("(i0 OR FALSE) AND TRUE", "typed", "simplify"),
    ("COALESCE(i0, i1, 1) = 2", "untyped", "simplify_co"), ("2 < COALESCE(i0, i1, i2, 1)", "typed", "simplify_co"),
    ("CASE WHEN FALSE THEN 10 WHEN b0 THEN 20 WHEN TRUE THEN 30 END", "untyped", "simplify"),
    ("CASE WHEN 1 = 2 THEN 10 WHEN i0 > 0 THEN 20 WHEN 1 = 1 THEN 30 ELSE 40 END", "untyped", "simplify"),
    ("i1 - CASE WHEN TRUE THEN i0 - 1 END", "untyped", "simplify"), ("7 - 2 - IF(FALSE, 0, i0 - 1) > 0", "untyped", "simplify"),
    ("COALESCE(NOT b1, TRUE) = TRUE", "untyped", "simplify_co"), ("COALESCE(NOT b0, b1, FALSE) <> TRUE", "typed", "simplify_co"),
    ("-NULL IS NULL", "untyped", "simplify"), ("i0 > 1 AND -NULL IS NULL", "untyped", "simplify"),
    ("i0 - 5 - 3 > 1", "untyped", "simplify"), ("5 - i0 < 2", "untyped", "simplify"), ("b0 AND TRUE", "untyped", "simplify"),
]


def pick_dialects():
    from sqlglot.dialects.dialect import Dialect, Dialects
    out = {}
    for d in Dialects:
        inst = Dialect.get_or_raise(d.value or None)
        k = (bool(inst.SAFE_TO_ELIMINATE_DOUBLE_NEGATION), bool(inst.COALESCE_COMPARISON_NON_STANDARD))
        out.setdefault(k, d.value or None)
    return out


def run(chk: Check) -> None:
    global OBS
    chk.trusted.append("C06: hand-written model Model/Simplify.lean (expression language, 3-valued eval, mirrors of rewrite_between, simplify_not, "
                       "_simplify_connectors, _simplify_comparison, _simplify_binary, simplify_equality, simplify_conditionals, simplify_coalesce, "
                       "simplify_parens, flatten, normalized) and the verified step checker for uniq_sort / absorb_and_eliminate / remove_complements / "
                       "sort_comparison / distributive_law / normalize")
    chk.trusted.append("C06: the Python 3VL evaluator in vf/props/c06.py (validated every run against SQLite and the Lean eval) and the "
                       "sqlglot-tree -> model-term serialiser to_json")
    chk.assumptions += [
        "integers are unbounded (no overflow), no division; strings, dates/intervals, casts, XOR, subqueries are outside the fragment",
        "_simplify_comparison's theorems are about the shape `col op lit` on both sides (column on the left), which sort_comparison establishes first; "
        "every observed pair is evaluated exhaustively regardless",
        "the queue algorithm of _flat_simplify, uniq_sort's ordering, propagate_constants and the date/string rules are not mirrored: "
        "their observed steps are checked by the verified checker where it applies and by exhaustive evaluation always",
    ]
    chk.write_generated(translate(chk))
    proved = chk.prove(MODULES, "Properties.C06", THEOREMS)
    pre, post = chk.cov["pipeline"]["pre"], chk.cov["pipeline"]["post"]
    OBS = Observer(pre, post)
    if OBS.unknown_rules:
        chk.broken.append({"kind": "translator", "what": f"C06 translator: structure changed: pipeline rule(s) not found: {OBS.unknown_rules}"})
    dialects = pick_dialects()
    chk.cov["dialect_flag_settings"] = {str(k): v for k, v in dialects.items()}
    dlist = list(dialects.values())
    rng = chk.rng
    t0 = time.time()
    budget = chk.pick(28, 480)
    if chk.broken:
        budget *= 2
    all_logs, e2e_norm, sqls = [], [], []
    n_inputs = 0

    def one(sql, variant, api, dialect):
        nonlocal n_inputs
        n_inputs += 1
        log, viols = check_input(chk, sql, variant, api, dialect)
        chk.case((sql, variant, api, dialect), nontrivial=any(True for _ in step_pairs(log)),
                 sample={"sql": sql, "variant": variant, "api": api, "dialect": dialect} if n_inputs % 400 == 1 else None)
        if len(all_logs) < chk.pick(200000, 800000):
            all_logs.extend(log)
        return log

    for sql, variant, api in CORPUS:
        for d in dlist[:2]:
            one(sql, variant, api, d)
    marks = {"corpus": round(time.time() - t0, 1)}
    # complete sweep of the comparison-pair table: 6 x 6 operators x {equal, smaller, larger literal} x {AND, OR}
    for o1 in CMPS:
        for o2 in CMPS:
            for l1, l2 in ((2, 2), (1, 3), (3, 1)):
                for conn in ("AND", "OR"):
                    # quick tier: the direct call (cheap, both operand orders) always; the pipeline routes sampled,
                    # except the tie points (equal constants) which always run; thorough: everything
                    if chk.quick and l1 != l2 and rng.random() > 0.2:
                        one(f"i0 {o1} {l1} {conn} i0 {o2} {l2}", "untyped", "connectors", dlist[0])
                        continue
                    one(f"i0 {o1} {l1} {conn} i0 {o2} {l2}", "untyped", "simplify", dlist[0])
                    # both operand orders reach _simplify_connectors / _simplify_comparison unsorted: directly ...
                    one(f"i0 {o1} {l1} {conn} i0 {o2} {l2}", "untyped", "connectors", dlist[0])
                    # ... and through the pipeline, where a NOT-complement is rewritten in the same pass and not re-sorted
                    one(f"NOT i0 {COMPL[o1]} {l1} {conn} i0 {o2} {l2}", "untyped", "simplify", dlist[0])
                    one(f"i0 {o1} {l1} {conn} NOT i0 {COMPL[o2]} {l2}", "untyped", "simplify", dlist[0])
    marks["pair"] = round(time.time() - t0, 1)
    # multi-pass sweep: compound shared term x late-folding constant on either side x range operators x AND/OR
    RANGE = ["<", "<=", ">", ">="]
    for T, K in (("i0 * i1", "5 - 3 - 1"), ("i0 + i1", "2 * (3 - 1) - 1")):
        if True:
            for o1 in RANGE:
                for o2 in RANGE:
                    for conn in ("AND", "OR"):
                        if chk.quick and rng.random() > 0.2:
                            continue
                        one(f"{K} {o1} {T} {conn} {T} {o2} 7", "untyped", "simplify", dlist[0])
                        one(f"{T} {o2} 7 {conn} NOT ({T} + 1 {o1} 3)", "untyped", "simplify", dlist[0])
    for o1 in RANGE:
        for o2 in RANGE:
            one(f"i0 = 2 + 3 AND i0 {o1} i1 AND i1 {o2} 7", "untyped", "simplify_cp", dlist[0])
            one(f"i0 = 5 - 3 - 1 AND i0 {o1} i0 * i1 AND i0 * i1 {o2} 7", "untyped", "simplify_cp", dlist[0])
    marks["multipass"] = round(time.time() - t0, 1)
    # connector shapes: parenthesised / right-nested operands, >= 6 variables, for normalize (both forms) and the pipeline
    for q in CONN_CORPUS:
        for api in ("cnf", "dnf"):
            one(q, "untyped", api, dlist[0])
    for _ in range(chk.pick(4, 120)):
        q = conn_template(rng)
        for api in (("cnf", "dnf") if rng.random() < 0.7 else ("simplify",)):
            one(q, rng.choice(["untyped", "typed"]), api, dlist[0])
    # branch-substitution sweep (simplify_conditionals / simplify_coalesce put an argument under the function's parent)
    for always, fi, q in branch_cases(with_index=True):
        if chk.quick and not always and rng.random() > 0.07:
            continue
        one(q, "untyped", "simplify_co" if fi == 2 else "simplify", dlist[0])
    marks["branch"] = round(time.time() - t0, 1)
    # CASE sweep: every order of constant-false / NULL / undecided / constant-true WHENs (3 branches: all; 4: sampled in quick)
    for n_, flavour, q in case_cases(with_index=True):
        if chk.quick and n_ == 4 and rng.random() > 0.15:
            continue
        one(q, "untyped", "simplify", dlist[0])
        if flavour == 0 and n_ == 3:
            one(f"({q}) + i1 > 15 AND b2", "untyped", rng.choice(["simplify", "simplify_cp", "cnf"]), dlist[0])
    marks["case"] = round(time.time() - t0, 1)
    # COALESCE sweep under coalesce_simplification=True with every dialect-flag combination
    for ai, ci, q in coalesce_cases(with_index=True):
        if chk.quick and not (ai in (1, 101) and ci < 4) and (ai in (3, 6, 10) or rng.random() > 0.08):
            continue
        d = dlist[(ai + ci) % len(dlist)]
        one(q, rng.choice(["untyped", "typed", "untyped+isneg"]), "simplify_co", d)
    marks["coalesce"] = round(time.time() - t0, 1)
    marks["conn"] = round(time.time() - t0, 1)
    # constant sweep: every constant shape (NULL under unary minus / inside arithmetic ...) in every folding context
    for ci, ki, q in const_cases(with_index=True):
        # quick: the NULL-under-unary-minus shapes in the IS [NOT] NULL contexts always, the rest sampled; thorough: all
        if chk.quick and not (ci < 4 and ki < 5) and rng.random() > 0.14:
            continue
        one(q, "untyped", rng.choice(["simplify", "simplify", "simplify_co"]), dlist[0])
    marks["const"] = round(time.time() - t0, 1)
    # Paren-removal sweep: every parent kind x child kind (sampled in quick; the IN / BETWEEN / arithmetic parents always)
    for q in paren_cases():
        if chk.quick and rng.random() > 0.2:
            continue
        one(q, "untyped", "simplify", dlist[0])
    marks["paren"] = round(time.time() - t0, 1)
    chk.cov["sweep_marks"] = marks
    chk.cov["sweep_s"] = round(time.time() - t0, 1)
    t_rand = time.time()
    while time.time() - t_rand < budget * 0.25 and len(chk.violations) < 6:
        variant = rng.choice(["untyped", "typed", "nonnull"])
        sql = gen_sql(rng, nonnull=variant == "nonnull")
        sqls.append(sql)
        d = rng.choice(dlist)
        for api in (["simplify", rng.choice(["simplify_cp", "simplify_co"]), rng.choice(["cnf", "dnf"])] if rng.random() < 0.7 else APIS):
            log = one(sql, variant, api, d)
    # normalize end-to-end pairs for the checker / `normalized` mirror
    import sqlglot
    _, _, N = sg()
    for sql in sqls[: chk.pick(250, 3000)]:
        try:
            e = sqlglot.parse_one(sql)
        except Exception:
            continue
        for api in ("cnf", "dnf"):
            try:
                out = N.normalize(e.copy(), dnf=api == "dnf", max_distance=24)
            except Exception:
                continue
            e2e_norm.append((api, e, out))
    hints = []
    try:
        evaluator_differential(chk, sqls[: chk.pick(300, 3000)])
        validate_reparse_table(chk)
        validate_helpers(chk, list(const_cases()) + sqls[: chk.pick(400, 4000)])
        hints = correspond(chk, all_logs, e2e_norm)
    except HarnessError as ex:
        if proved and "driver" not in str(ex):
            raise
        if proved:
            raise
        chk.note(f"model driver unavailable ({ex}); continuing with the search on the real code")
    # more search when something broke (the oracle is independent of the model)
    extra = (budget - (time.time() - t0)) if not chk.broken else budget
    t1 = time.time()
    while time.time() - t1 < max(2.0, extra) and len(chk.violations) < 6:
        variant = rng.choice(["untyped", "typed", "nonnull"])
        sql = gen_sql(rng, nonnull=variant == "nonnull")
        d = rng.choice(dlist)
        for api in APIS:
            check_input(chk, sql, variant, api, d)
            n_inputs += 1
    chk.cov["phase_s"] = {"after_search_loop": round(t1 - t0, 1), "total": round(time.time() - t0, 1)}
    chk.search_info = {"ran": True, "budget_s": round(time.time() - t0, 1), "inputs": n_inputs, "violating": len(chk.violations),
                       "known_hits": len(chk.known_hits),
                       "oracle": "before/after of simplify, normalize(dnf=False/True) and of every observed rule step evaluated under all "
                                 "assignments from {NULL,TRUE,FALSE} / {NULL} ∪ integers around every literal; normalize's result is CNF/DNF or unchanged"}


def replay(path: str) -> int:
    import sys
    sys.path.insert(0, REPO)
    rec = json.load(open(path))
    r = rec.get("replay")
    if not r or "sql" not in r:
        print(json.dumps(rec, indent=1)[:3000])
        return 1
    global OBS
    chk = Check("C06", "quick", 0)
    pre, post = pipeline_from_ast(chk)
    OBS = Observer(pre, post)
    chk._known = []
    _, viols = check_input(chk, r["sql"], r["variant"], r["api"], r["dialect"], report=False)
    for v in viols:
        print("replay: VIOLATES:", v["what"])
    if not viols:
        print("replay: holds")
    return 1 if viols else 0
