"""C11 — The Python executor returns what a reference SQL engine returns (DESIGN.md §4 C11).

translate : ENV wrapper kinds / constants (live objects + ast of sqlglot/executor/env.py) and the structural
            constants of aggregate() / _append_unmatched_join_rows / _execute (ast of sqlglot/executor/python.py)
            -> Generated/C11.lean
prove     : Properties/C11.lean (Kleene logic, IN, null_if_any comparisons, expression evaluation, aggregates,
            ordered() keys, nested-loop join = reference join, hash join ~ nested-loop join, aggregate()'s run loop,
            set-operation multiplicities) for ALL row lists
correspond: the real functions (env.sql_*, ENV[...], PythonExecutor.{generate,join,aggregate,set_operation,sort})
            called in-process on generated rows vs the Lean model (line protocol), exact sequences
assumption: the Lean reference semantics (Sem/Rel.lean) vs SQLite and DuckDB on generated tables
search    : the property's own oracle: sqlglot.executor.execute(sql, schema, tables) vs SQLite AND DuckDB on generated
            queries x small tables with NULLs / duplicates / empty tables (vf/props/c11_oracle.py)
"""

from __future__ import annotations

import ast
import json
import math
import os
import time

from vf.core import Check, REPO, HarnessError

MODULES = ["Sem.Rel", "Model.Exec", "Model.ExecPlan", "Proofs.Exec", "Proofs.ExecPlan", "Generated.C11", "Properties.C11"]
P = "SqlglotModel.Properties.C11."
THEOREMS = [P + n for n in (
    "generated_cfg_ok",
    "generated_env_identity_ok",
    "and_or_not_kleene_table",
    "and_or_not_in_kleene",
    "sql_in_empty_list_witness",
    "null_if_any_cmp_spec",
    "eval_kleene",
    "agg_functions_spec",
    "ordered_key_spec",
    "nested_loop_join_spec",
    "hash_join_perm_nested",
    "hash_join_spec",
    "aggregate_runs_spec",
    "aggregate_empty_spec",
    "aggregate_groups_spec",
    "unsorted_not_clustered_witness",
    "set_operation_spec",
    "sort_step_spec",
    "sort_by_group_key_clusters",
    "aggregate_spec",
    "env_aggs_perm_invariant",
    "aggregate_limit_spec",
    "subquery_comparison_spec",
    "scan_spec",
    "single_table_query_spec",
    "order_by_all_outputs_total",
    "distinct_order_counterexample",
    "duplicate_output_names_counterexample",
    "alias_shadow_counterexample",
    "generated_widen_form_ok",
    "aggregate_views_consistent",
    "rebind_breaks_views_witness",
    "quantified_empty",
    "quantified_null_probe",
    "in_subquery_3vl",
    "not_in_subquery_is_all_ne",
    "generated_subquery_env_ok",
    "subquery_env_spec",
    "wrapped_subquery_comparison_witness",
    "generated_subquery_args_ok",
    "memo_transparent",
    "subquery_memo_spec",
    "deduped_memo_key_witness",
)]

CMP_PY = {ast.Eq: "eq", ast.NotEq: "ne", ast.Lt: "lt", ast.LtE: "le", ast.Gt: "gt", ast.GtE: "ge"}
CMP_SWAP = {"eq": "eq", "ne": "ne", "lt": "gt", "gt": "lt", "le": "ge", "ge": "le"}
ARITH_PY = {ast.Add: "add", ast.Sub: "sub", ast.Mult: "mul"}
CMP_KEYS = ["EQ", "GT", "GTE", "LT", "LTE", "NEQ"]
ARITH_KEYS = ["ADD", "MUL", "SUB"]


# ------------------------------------------------------------------------------------------ translate
def _lean_strs(xs):
    return "[" + ", ".join('"%s"' % x for x in xs) + "]"


def _env_dict_ast():
    src = open(os.path.join(REPO, "sqlglot", "executor", "env.py"), encoding="utf-8").read()
    tree = ast.parse(src)
    for node in tree.body:
        if isinstance(node, ast.Assign) and any(isinstance(t, ast.Name) and t.id == "ENV" for t in node.targets):
            if isinstance(node.value, ast.Dict):
                return {k.value: v for k, v in zip(node.value.keys, node.value.values) if isinstance(k, ast.Constant)}
    return None


def _binary_lambda(node):
    """null_if_any(lambda p, q: p OP q) -> ('cmp'|'arith', opname) with positional orientation, else None"""
    if not (isinstance(node, ast.Call) and isinstance(node.func, ast.Name) and node.func.id == "null_if_any"
            and len(node.args) == 1 and not node.keywords and isinstance(node.args[0], ast.Lambda)):
        return None
    lam = node.args[0]
    a = lam.args
    if a.vararg or a.kwarg or a.kwonlyargs or a.defaults or len(a.args) != 2:
        return None
    p, q = a.args[0].arg, a.args[1].arg
    b = lam.body
    if isinstance(b, ast.Compare) and len(b.ops) == 1 and isinstance(b.left, ast.Name) and isinstance(b.comparators[0], ast.Name):
        op = CMP_PY.get(type(b.ops[0]))
        l, r = b.left.id, b.comparators[0].id
        if op and (l, r) == (p, q):
            return "cmp", op
        if op and (l, r) == (q, p):
            return "cmp", CMP_SWAP[op]
    if isinstance(b, ast.BinOp) and isinstance(b.left, ast.Name) and isinstance(b.right, ast.Name):
        op = ARITH_PY.get(type(b.op))
        l, r = b.left.id, b.right.id
        if op and ((l, r) == (p, q) or (op in ("add", "mul") and (l, r) == (q, p))):
            return "arith", op
    return None


def _int_const(node):
    if isinstance(node, ast.Constant) and isinstance(node.value, int) and not isinstance(node.value, bool):
        return node.value
    return None


def _end_minus(node):
    """`end - k` -> k"""
    if isinstance(node, ast.BinOp) and isinstance(node.op, ast.Sub) and isinstance(node.left, ast.Name) and node.left.id == "end":
        return _int_const(node.right)
    return None


def _executor_facts(problems):
    src = open(os.path.join(REPO, "sqlglot", "executor", "python.py"), encoding="utf-8").read()
    tree = ast.parse(src)
    cls = next((n for n in tree.body if isinstance(n, ast.ClassDef) and n.name == "PythonExecutor"), None)
    fns = {n.name: n for n in (cls.body if cls else []) if isinstance(n, ast.FunctionDef)}
    facts = {}
    # ---- aggregate(): start = 0; end = 1; end += 1; set_range(start, end - 2); start = end - 2; set_range(start, end - 1)
    agg = fns.get("aggregate")
    if agg is None:
        problems.append("PythonExecutor.aggregate not found")
    else:
        start0 = end0 = None
        for st in agg.body:
            if isinstance(st, ast.Assign) and len(st.targets) == 1 and isinstance(st.targets[0], ast.Name):
                if st.targets[0].id == "start":
                    start0 = _int_const(st.value)
                if st.targets[0].id == "end":
                    end0 = _int_const(st.value)
        loops = [n for n in ast.walk(agg) if isinstance(n, ast.For) and isinstance(n.target, ast.Name) and n.target.id == "i"]
        loop = loops[0] if len(loops) == 1 else None
        inc = emit = startoff = last = None
        ok_shape = loop is not None
        if loop is not None:
            incs = [n for n in loop.body if isinstance(n, ast.AugAssign) and isinstance(n.target, ast.Name) and n.target.id == "end"]
            if len(incs) == 1 and isinstance(incs[0].op, ast.Add):
                inc = _int_const(incs[0].value)
            ifs = [n for n in loop.body if isinstance(n, ast.If)]
            change = [n for n in ifs if isinstance(n.test, ast.Compare) and isinstance(n.test.left, ast.Name) and n.test.left.id == "key"
                      and len(n.test.ops) == 1 and isinstance(n.test.ops[0], ast.NotEq)]
            lastif = [n for n in ifs if isinstance(n.test, ast.Compare) and isinstance(n.test.left, ast.Name) and n.test.left.id == "i"
                      and len(n.test.ops) == 1 and isinstance(n.test.ops[0], ast.Eq)]
            if len(change) == 1:
                for st in change[0].body:
                    if isinstance(st, ast.Expr) and isinstance(st.value, ast.Call) and getattr(st.value.func, "attr", None) == "set_range":
                        a0, a1 = st.value.args
                        if isinstance(a0, ast.Name) and a0.id == "start":
                            emit = _end_minus(a1)
                    if isinstance(st, ast.Assign) and isinstance(st.targets[0], ast.Name) and st.targets[0].id == "start":
                        startoff = _end_minus(st.value)
                names = [ast.dump(s) for s in change[0].body]
                # order inside the branch: set_range, add_row, group = key, start = …
                kinds = []
                for st in change[0].body:
                    if isinstance(st, ast.Expr) and isinstance(st.value, ast.Call):
                        kinds.append(getattr(st.value.func, "attr", None) or getattr(st.value.func, "id", None))
                    elif isinstance(st, ast.Assign) and isinstance(st.targets[0], ast.Name):
                        kinds.append("=" + st.targets[0].id)
                if kinds != ["set_range", "add_row", "=group", "=start"]:
                    ok_shape = False
            else:
                ok_shape = False
            if len(lastif) == 1:
                t = lastif[0].test.comparators[0]
                if not (isinstance(t, ast.BinOp) and isinstance(t.op, ast.Sub) and isinstance(t.left, ast.Name) and t.left.id == "length"
                        and _int_const(t.right) == 1):
                    ok_shape = False
                for st in lastif[0].body:
                    if isinstance(st, ast.Expr) and isinstance(st.value, ast.Call) and getattr(st.value.func, "attr", None) == "set_range":
                        a0, a1 = st.value.args
                        if isinstance(a0, ast.Name) and a0.id == "start":
                            last = _end_minus(a1)
            else:
                ok_shape = False
            # statement order of the loop body: …, end += 1, if key != group, if limit-break, if i == length - 1
            order = []
            for st in loop.body:
                if st in incs:
                    order.append("inc")
                elif st in change:
                    order.append("change")
                elif st in lastif:
                    order.append("last")
                elif isinstance(st, ast.If) and any(isinstance(x, ast.Break) for x in ast.walk(st)):
                    order.append("break")
            if order != ["inc", "change", "break", "last"]:
                ok_shape = False
        vals = (start0, end0, inc, emit, startoff, last)
        if not ok_shape or any(v is None or v < 0 for v in vals) or inc != 1:
            problems.append(f"aggregate(): unrecognised loop shape {vals}")
            facts["agg"] = (0, 1, 2, 2, 1)
        else:
            facts["agg"] = (start0, end0, emit, startoff, last)
    # ---- aggregate(): how the operand columns are attached to the rows: subscript store into context.table.rows (in place)
    #      vs rebinding the attribute context.table.rows
    def is_ctx_rows(n):
        return (isinstance(n, ast.Attribute) and n.attr == "rows" and isinstance(n.value, ast.Attribute) and n.value.attr == "table"
                and isinstance(n.value.value, ast.Name) and n.value.value.id == "context")

    form = None
    if agg is not None:
        stores = rebinds = 0
        for n in ast.walk(agg):
            if isinstance(n, (ast.Assign, ast.AugAssign)):
                for tg in (n.targets if isinstance(n, ast.Assign) else [n.target]):
                    if isinstance(tg, ast.Subscript) and is_ctx_rows(tg.value):
                        stores += 1
                    if is_ctx_rows(tg):
                        rebinds += 1
        if stores == 1 and rebinds == 0:
            form = "subscriptStore"
        elif stores == 0 and rebinds == 1:
            form = "attributeRebind"
    if form is None:
        problems.append("aggregate(): cannot tell how operand columns are attached to context.table.rows")
        form = "subscriptStore"
    facts["widen"] = form
    # ---- _compile_subquery: `outer_columns = list(scope.external_columns if scope else [])` (the SUBQUERY_* arguments = memo key)
    cs = fns.get("_compile_subquery")
    args_form = None
    if cs is not None:
        assigns = [n for n in ast.walk(cs) if isinstance(n, ast.Assign) and any(isinstance(t, ast.Name) and t.id == "outer_columns" for t in n.targets)]
        if len(assigns) == 1:
            v = assigns[0].value
            ok = (isinstance(v, ast.Call) and isinstance(v.func, ast.Name) and v.func.id == "list" and len(v.args) == 1 and not v.keywords)
            if ok:
                a0 = v.args[0]
                src = a0.body if isinstance(a0, ast.IfExp) else a0
                ok = isinstance(src, ast.Attribute) and src.attr == "external_columns" and isinstance(src.value, ast.Name) and src.value.id == "scope"
                if ok and isinstance(a0, ast.IfExp):
                    ok = isinstance(a0.orelse, (ast.List, ast.Tuple)) and not a0.orelse.elts
            args_form = "allExternal" if ok else "other"
            # the list must reach the SUBQUERY_* calls unchanged: no other store to the name, no mutation
            stores = [n for n in ast.walk(cs) if isinstance(n, ast.Name) and n.id == "outer_columns" and isinstance(n.ctx, ast.Store)]
            muts = [n for n in ast.walk(cs) if isinstance(n, ast.Attribute) and isinstance(n.value, ast.Name) and n.value.id == "outer_columns"]
            if len(stores) != 1 or muts:
                args_form = "other"
    if args_form is None:
        problems.append("_compile_subquery: cannot find how outer_columns is built")
        args_form = "allExternal"
    facts["subq_args"] = args_form
    # ---- _append_unmatched_join_rows: `if side in (…)` twice
    fn = fns.get("_append_unmatched_join_rows")
    sides = []
    if fn is not None:
        for st in fn.body:
            if isinstance(st, ast.If) and isinstance(st.test, ast.Compare) and isinstance(st.test.left, ast.Name) and st.test.left.id == "side" \
                    and len(st.test.ops) == 1 and isinstance(st.test.ops[0], ast.In) and isinstance(st.test.comparators[0], (ast.Tuple, ast.List, ast.Set)):
                elts = [e.value for e in st.test.comparators[0].elts if isinstance(e, ast.Constant) and isinstance(e.value, str)]
                which = None
                for n in ast.walk(st):
                    if isinstance(n, ast.For) and isinstance(n.iter, ast.Call) and getattr(n.iter.func, "id", None) == "enumerate" and n.iter.args \
                            and isinstance(n.iter.args[0], ast.Name):
                        which = n.iter.args[0].id
                sides.append((which, elts))
    if [w for w, _ in sides] != ["source_rows", "join_rows"]:
        problems.append(f"_append_unmatched_join_rows: unrecognised shape {sides}")
        facts["left"], facts["right"] = ["LEFT", "FULL"], ["RIGHT", "FULL"]
    else:
        facts["left"], facts["right"] = sides[0][1], sides[1][1]
    # ---- _execute: table.rows = table.rows[node.offset :]
    exe = fns.get("_execute")
    found = False
    if exe is not None:
        for n in ast.walk(exe):
            if isinstance(n, ast.Assign) and isinstance(n.value, ast.Subscript) and isinstance(n.value.slice, ast.Slice):
                sl = n.value.slice
                if sl.upper is None and sl.step is None and isinstance(sl.lower, ast.Attribute) and sl.lower.attr == "offset":
                    found = True
    if not found:
        problems.append("_execute: `table.rows = table.rows[node.offset:]` not found")
    return facts


def translate(chk: Check) -> str:
    from sqlglot.executor import env as E
    import builtins

    problems: list[str] = []
    d = _env_dict_ast()
    cmp_ops, arith_ops = [], []
    if d is None:
        problems.append("env.ENV dict literal not found")
        d = {}
    for k in CMP_KEYS:
        r = _binary_lambda(d.get(k)) if k in d else None
        if r and r[0] == "cmp":
            cmp_ops.append((k, r[1]))
        else:
            problems.append(f"ENV[{k!r}] is not null_if_any(lambda a, b: a <cmp> b)")
    for k in ARITH_KEYS:
        r = _binary_lambda(d.get(k)) if k in d else None
        if r and r[0] == "arith":
            arith_ops.append((k, r[1]))
        else:
            problems.append(f"ENV[{k!r}] is not null_if_any(lambda a, b: a <op> b)")
    # live objects: the null_if_any wrapper must be the all-arguments form
    for k in CMP_KEYS + ARITH_KEYS:
        f = E.ENV.get(k)
        try:
            fv = dict(zip(f.__code__.co_freevars, [c.cell_contents for c in f.__closure__]))
            pred = fv["predicate"]
            if pred.__code__.co_freevars:
                problems.append(f"ENV[{k!r}]: null_if_any with named required arguments")
        except Exception as e:  # noqa
            problems.append(f"ENV[{k!r}]: not a null_if_any wrapper ({type(e).__name__})")
    empty_null = {}
    ident = {}
    for k, want in (("COUNT", None), ("SUM", builtins.sum), ("MIN", builtins.min), ("MAX", builtins.max)):
        f = E.ENV.get(k)
        try:
            fv = dict(zip(f.__code__.co_freevars, [c.cell_contents for c in f.__closure__]))
            empty_null[k] = bool(fv["empty_null"])
            inner = fv["func"]
            if want is None:
                ident[k] = "count_lambda" if getattr(inner, "__name__", "") == "<lambda>" else getattr(inner, "__name__", "?")
            else:
                ident[k] = want.__name__ if inner is want else "other:" + getattr(inner, "__name__", "?")
        except Exception as e:  # noqa
            problems.append(f"ENV[{k!r}]: not a filter_nulls wrapper ({type(e).__name__})")
            empty_null[k] = k != "COUNT"
            ident[k] = "?"
    for k, fn in (("AND", "sql_and"), ("OR", "sql_or"), ("NOT", "sql_not"), ("IN", "sql_in"), ("ORDERED", "ordered")):
        f = E.ENV.get(k)
        ident[k] = fn if f is getattr(E, fn, None) else "other:" + getattr(f, "__name__", "?")
    consts = {}
    for nm in ("FIRST", "LAST", "NULL_PLACEHOLDER"):
        v = getattr(E, nm, None)
        if not isinstance(v, int) or isinstance(v, bool) or v < 0:
            problems.append(f"env.{nm} is not a small natural number: {v!r}")
            v = {"FIRST": 0, "LAST": 1, "NULL_PLACEHOLDER": 0}[nm]
        consts[nm] = v
    # how PythonExecutor.__init__ registers the subquery entries: the bound method itself, or something wrapping it
    from sqlglot.executor.python import PythonExecutor

    sub_env = {}
    try:
        ex_ = PythonExecutor(tables={})
        for key, meth in (("SUBQUERY_COMPARISON", "_subquery_comparison"), ("SUBQUERY_EXISTS", "_subquery_exists"),
                          ("SUBQUERY_SCALAR", "_subquery_scalar")):
            f = ex_.env.get(key)
            if getattr(f, "__self__", None) is ex_ and getattr(f, "__func__", None) is getattr(PythonExecutor, meth):
                sub_env[key] = "bare"
            elif hasattr(f, "__wrapped__") and getattr(getattr(f, "__code__", None), "co_freevars", ()) == ("func", "predicate"):
                sub_env[key] = "null_if_any"
            else:
                sub_env[key] = "other"
    except Exception as e:  # noqa
        problems.append(f"PythonExecutor().env subquery entries: {type(e).__name__}")
    for key in ("SUBQUERY_COMPARISON", "SUBQUERY_EXISTS", "SUBQUERY_SCALAR"):
        sub_env.setdefault(key, "other")
    chk.cov["subquery_env"] = sub_env
    facts = _executor_facts(problems)
    for p in problems:
        chk.broken.append({"kind": "translator", "what": "C11 translator: structure changed: " + p})
    a = facts["agg"]
    chk.cov["aggregate_widen_form"] = facts["widen"]
    chk.cov["translated"] = {"cmp": cmp_ops, "arith": arith_ops, "empty_null": empty_null, "agg_consts": list(a),
                             "sides": [facts["left"], facts["right"]], "consts": consts}
    lb = lambda b: "true" if b else "false"
    return (
        "-- GENERATED by vf/props/c11.py from sqlglot/executor/env.py and sqlglot/executor/python.py. Do not edit.\n"
        "import SqlglotModel.Model.Exec\n"
        "namespace SqlglotModel.Generated.C11\n"
        "open SqlglotModel.Exec SqlglotModel.Sem\n"
        "def cfg : Cfg where\n"
        f"  first := {consts['FIRST']}\n  last := {consts['LAST']}\n  placeholder := {consts['NULL_PLACEHOLDER']}\n"
        f"  aggStart := {a[0]}\n  aggEnd := {a[1]}\n  aggEmitOff := {a[2]}\n  aggStartOff := {a[3]}\n  aggLastOff := {a[4]}\n"
        f"  leftSides := {_lean_strs(facts['left'])}\n  rightSides := {_lean_strs(facts['right'])}\n"
        f"  countEmptyNull := {lb(empty_null['COUNT'])}\n  sumEmptyNull := {lb(empty_null['SUM'])}\n"
        f"  minEmptyNull := {lb(empty_null['MIN'])}\n  maxEmptyNull := {lb(empty_null['MAX'])}\n"
        "  cmpOps := [" + ", ".join(f'("{k}", .{o})' for k, o in cmp_ops) + "]\n"
        "  arithOps := [" + ", ".join(f'("{k}", .{o})' for k, o in arith_ops) + "]\n"
        "def envIdentity : List (String × String) := ["
        + ", ".join(f'("{k}", "{v}")' for k, v in sorted(ident.items())) + "]\n"
        f"def widenForm : WidenForm := .{facts['widen']}\n"
        "def subqueryEnv : List (String × String) := ["
        + ", ".join(f'("{k}", "{sub_env[k]}")' for k in ("SUBQUERY_COMPARISON", "SUBQUERY_EXISTS", "SUBQUERY_SCALAR")) + "]\n"
        f"def subqCmpWrapped : Bool := {lb(sub_env['SUBQUERY_COMPARISON'] != 'bare')}\n"
        f"def subqueryArgs : SubqueryArgs := .{facts['subq_args']}\n"
        "end SqlglotModel.Generated.C11\n"
    )


# ------------------------------------------------------------------------------------------ the real side
COLS = ("a", "b", "c")  # a INT, b INT, c TEXT
INTS = [-1, 0, 1, 2, 3]
STRS = ["", "a", "b"]


def canon(v):
    return json.dumps(v, separators=(",", ":"), sort_keys=True)


def rows_json(rows):
    return [list(r) for r in rows]


def rand_val(rng, col, p_null=0.25):
    if rng.random() < p_null:
        return None
    return rng.choice(STRS) if col == 2 else rng.choice(INTS[:4] if rng.random() < 0.8 else INTS)


def rand_rows(rng, max_rows=4, p_empty=0.15):
    if rng.random() < p_empty:
        return []
    n = rng.randint(1, max_rows)
    dom = rng.choice([2, 3, 5])
    rows = []
    for _ in range(n):
        if rows and rng.random() < 0.3:
            rows.append(rng.choice(rows))  # duplicates
        else:
            rows.append(tuple(None if rng.random() < 0.25 else (rng.choice(STRS) if c == 2 else rng.choice(INTS[:dom])) for c in range(3)))
    if rng.random() < 0.1:
        k = rng.randrange(3)
        rows = [tuple(None if i == k else v for i, v in enumerate(r)) for r in rows]  # all-NULL column
    return rows


def rand_expr(rng, ncols, depth=2):
    """predicate IR over a row of `ncols` columns laid out a,b,c[,a,b,c]: typed (ints with ints, text with text)"""
    def col_of(kind):
        cands = [i for i in range(ncols) if (i % 3 == 2) == (kind == "s")]
        return ["col", rng.choice(cands)]

    def atom():
        kind = "s" if rng.random() < 0.25 else "i"
        left = col_of(kind)
        r = rng.random()
        if r < 0.55:
            right = col_of(kind) if rng.random() < 0.5 else ["lit", (rng.choice(STRS) if kind == "s" else rng.choice(INTS)) if rng.random() < 0.9 else None]
            return ["cmp", rng.choice(["eq", "ne", "lt", "le", "gt", "ge"]), left, right]
        if r < 0.75:
            return ["isnull", left, rng.random() < 0.5]
        vals = [None if rng.random() < 0.25 else (rng.choice(STRS) if kind == "s" else rng.choice(INTS)) for _ in range(rng.randint(1, 3))]
        return ["in", left, vals]

    def go(d):
        if d == 0 or rng.random() < 0.4:
            return atom()
        r = rng.random()
        if r < 0.4:
            return ["and", go(d - 1), go(d - 1)]
        if r < 0.8:
            return ["or", go(d - 1), go(d - 1)]
        return ["not", go(d - 1)]

    return go(depth)


def to_sqlglot(e, names):
    """IR -> sqlglot expression; names[i] = (table, column)"""
    from sqlglot import exp

    t = e[0]
    if t == "col":
        tb, c = names[e[1]]
        return exp.column(c, tb)
    if t == "lit":
        v = e[1]
        if v is None:
            return exp.Null()
        if isinstance(v, str):
            return exp.Literal.string(v)
        return exp.Neg(this=exp.Literal.number(-v)) if v < 0 else exp.Literal.number(v)
    if t == "cmp":
        cls = {"eq": exp.EQ, "ne": exp.NEQ, "lt": exp.LT, "le": exp.LTE, "gt": exp.GT, "ge": exp.GTE}[e[1]]
        return cls(this=to_sqlglot(e[2], names), expression=to_sqlglot(e[3], names))
    if t == "and":
        return exp.And(this=exp.Paren(this=to_sqlglot(e[1], names)), expression=exp.Paren(this=to_sqlglot(e[2], names)))
    if t == "or":
        return exp.Or(this=exp.Paren(this=to_sqlglot(e[1], names)), expression=exp.Paren(this=to_sqlglot(e[2], names)))
    if t == "not":
        return exp.Not(this=exp.Paren(this=to_sqlglot(e[1], names)))
    if t == "isnull":
        is_ = exp.Is(this=to_sqlglot(e[1], names), expression=exp.Null())
        return exp.Not(this=is_) if e[2] else is_
    if t == "in":
        return exp.In(this=to_sqlglot(e[1], names), expressions=[to_sqlglot(["lit", v], names) for v in e[2]])
    raise HarnessError(f"bad expr {e}")


def sql_of(e, names):
    return to_sqlglot(e, names).sql()


def executor():
    from sqlglot.executor.python import PythonExecutor

    return PythonExecutor(tables={})


def real_join(algo, side, cond, ks, kj, L, R):
    from sqlglot import exp, planner
    from sqlglot.executor.table import Table

    ex = executor()
    names = [("x", c) for c in COLS] + [("y", c) for c in COLS]
    step = planner.Join()
    step.name = "x"
    step.source_name = "x"
    j = {"side": side, "condition": to_sqlglot(cond, names) if cond is not None else None}
    if algo == "hash":
        j["source_key"] = [exp.column(COLS[i], "x") for i in ks]
        j["join_key"] = [exp.column(COLS[i], "y") for i in kj]
    else:
        j["source_key"] = None
        j["join_key"] = None
    step.joins = {"y": j}
    ctx = ex.context({"x": Table(COLS, [tuple(r) for r in L]), "y": Table(COLS, [tuple(r) for r in R])})
    out = ex.join(step, ctx)
    return rows_json(out.table.rows)


AGG_CLS = {"SUM": "Sum", "COUNT": "Count", "MIN": "Min", "MAX": "Max"}


def real_aggregate(keys, aggs, limit, offset, rows):
    from sqlglot import exp, planner
    from sqlglot.executor.table import Table

    ex = executor()
    st = planner.Aggregate()
    st.name = "x"
    st.source = "x"
    st.group = {f"_g{i}": exp.column(COLS[k], "x") for i, k in enumerate(keys)}
    st.aggregations = [exp.alias_(getattr(exp, AGG_CLS[f])(this=exp.column(COLS[c], "x")), f"v{i}") for i, (f, c) in enumerate(aggs)]
    st.limit = math.inf if limit is None else limit
    st.offset = offset
    ctx = ex.context({"x": Table(COLS, [tuple(r) for r in rows])})
    out = ex.aggregate(st, ctx)
    return rows_json(out.tables["x"].rows)


def real_setop(kind, distinct, limit, L, R):
    from sqlglot import exp, planner
    from sqlglot.executor.table import Table

    ex = executor()
    op = {"union": exp.Union, "intersect": exp.Intersect, "except": exp.Except}[kind]
    so = planner.SetOperation(op=op, left="l", right="r", distinct=distinct)
    so.name = "s"
    so.limit = math.inf if limit is None else limit
    ctx = ex.context({"l": Table(COLS, [tuple(r) for r in L]), "r": Table(COLS, [tuple(r) for r in R])})
    return rows_json(ex.set_operation(so, ctx).tables["s"].rows)


def real_sort(items, limit, offset, rows):
    from sqlglot import exp, planner
    from sqlglot.executor.table import Table

    ex = executor()
    ss = planner.Sort()
    ss.name = "x"
    ss.key = [exp.Ordered(this=exp.column(COLS[c], "x"), desc=d, nulls_first=nf) for c, d, nf in items]
    ss.limit = math.inf if limit is None else limit
    ss.offset = offset
    ctx = ex.context({"x": Table(COLS, [tuple(r) for r in rows])})
    out = ex.sort(ss, ctx).tables["x"].rows
    if offset:  # PythonExecutor._execute: table.rows = table.rows[node.offset:]  (shape checked by the translator)
        out = out[offset:]
    return rows_json(out)


def real_eval(e, row):
    from sqlglot.executor.table import Table

    ex = executor()
    names = [("x", c) for c in COLS]
    code = ex.generate(to_sqlglot(e, names))
    ctx = ex.context({"x": Table(COLS, [tuple(row)])})
    ctx.set_row(tuple(row))
    return ctx.eval(code)


COLS_Y = ("d", "e", "f")


def real_join_agg(side, ks, kj, operands, keys, aggs, L, R):
    """join x(a,b,c) with y(d,e,f) (disjoint names), then aggregate() with computed operands over the join context"""
    from sqlglot import exp, planner
    from sqlglot.executor.table import Table

    ex = executor()
    names = [("x", c) for c in COLS] + [("y", c) for c in COLS_Y]
    jst = planner.Join()
    jst.name = "x"
    jst.source_name = "x"
    jst.joins = {"y": {"side": side, "condition": None,
                       "source_key": [exp.column(COLS[i], "x") for i in ks] or None,
                       "join_key": [exp.column(COLS_Y[i], "y") for i in kj] or None}}
    ctx = ex.join(jst, ex.context({"x": Table(COLS, [tuple(r) for r in L]), "y": Table(COLS_Y, [tuple(r) for r in R])}))
    st = planner.Aggregate()
    st.name = "x"
    st.source = "x"
    st.group = {f"_g{i}": exp.column(names[k][1], names[k][0]) for i, k in enumerate(keys)}
    st.operands = tuple(exp.alias_(to_sqlglot(e, names), f"_a_{i}", quoted=True) for i, e in enumerate(operands))
    st.aggregations = [exp.alias_(getattr(exp, AGG_CLS[f])(this=exp.column(f"_a_{c - 6}", quoted=True)), f"v{i}")
                       for i, (f, c) in enumerate(aggs)]
    out = ex.aggregate(st, ctx)
    return rows_json(out.tables["x"].rows)


def real_scan(static, cond, projs, limit, offset, rows):
    from sqlglot import exp, planner
    from sqlglot.executor.python import PythonExecutor
    from sqlglot.executor.table import Table, ensure_tables

    names = [("x", c) for c in COLS]
    ex = PythonExecutor(tables=ensure_tables({"x": Table(COLS, [tuple(r) for r in rows])}))
    st = planner.Scan()
    st.name = "x"
    st.source = None if static else exp.to_table("x").as_("x")
    st.condition = to_sqlglot(cond, names) if cond is not None else None
    st.projections = [exp.alias_(to_sqlglot(e, names), f"c{i}") for i, e in enumerate(projs)] if projs is not None else []
    st.limit = math.inf if limit is None else limit
    st.offset = offset
    out = ex.scan(st, ex.context({})).tables["x"].rows
    if offset:  # _execute
        out = out[offset:]
    return rows_json(out)


def real_subq_cmp(fn, quantifier, v, xs):
    from sqlglot.executor.table import Table

    ex = executor()
    ex._subquery_table = lambda plan_name, scope, args: Table(("v",), [(x,) for x in xs])
    # through the ENV entry (as generated code calls it), not the method: a wrapper around it is part of the behaviour
    return ex.env["SUBQUERY_COMPARISON"](v, "_sq_0", None, fn, quantifier)


def guarded(fn, *a):
    try:
        return fn(*a)
    except Exception as e:  # noqa
        return "raised:" + type(e).__name__


# ------------------------------------------------------------------------------------------ correspondence
def build_cases(chk: Check):
    """-> list of (category, request dict for the driver, expected (python value), sorted_compare, hint)"""
    from sqlglot.executor import env as E

    rng = chk.rng
    cases = []
    # 1. logic — exhaustive over a set of values covering None / bools / falsy and truthy ints and strings
    V = [None, True, False, 0, 1, 2, "", "a"]
    for a in V:
        cases.append(("logic", {"op": "logic", "fn": "not", "args": [a]}, guarded(E.sql_not, a), False, None))
        for b in V:
            cases.append(("logic", {"op": "logic", "fn": "and", "args": [a, b]}, guarded(lambda: E.sql_and(lambda: a, lambda: b)), False, None))
            cases.append(("logic", {"op": "logic", "fn": "or", "args": [a, b]}, guarded(lambda: E.sql_or(lambda: a, lambda: b)), False, None))
    for _ in range(chk.pick(300, 3000)):
        kind = rng.choice("is")
        dom = STRS if kind == "s" else INTS
        v = None if rng.random() < 0.2 else rng.choice(dom)
        cs = [None if rng.random() < 0.25 else rng.choice(dom) for _ in range(rng.randint(0, 4))]
        cases.append(("in", {"op": "logic", "fn": "in", "args": [v] + cs}, guarded(E.sql_in, v, *cs), False, None))
    # 2. binary ENV entries — exhaustive over small typed domains
    for k in CMP_KEYS + ARITH_KEYS:
        doms = [INTS + [None]] + ([STRS + [None]] if k in CMP_KEYS else [])
        for dom in doms:
            for a in dom:
                for b in dom:
                    cases.append(("bin", {"op": "bin", "fn": k, "a": a, "b": b}, guarded(E.ENV[k], a, b), False, None))
    # 3. aggregates
    for _ in range(chk.pick(400, 4000)):
        fn = rng.choice(["SUM", "COUNT", "MIN", "MAX"])
        dom = STRS if fn != "SUM" and rng.random() < 0.3 else INTS
        n = rng.choice([0, 1, 1, 2, 3, 5])
        vals = [None if rng.random() < rng.choice([0.2, 0.6, 1.0]) else rng.choice(dom) for _ in range(n)]
        cases.append(("agg", {"op": "agg", "fn": fn, "vals": vals}, guarded(E.ENV[fn], tuple(vals)), False, None))
    # 4. ordered() tuples, three-way — exhaustive
    def three(a, b, d, nf):
        ta, tb = E.ordered(a, d, nf), E.ordered(b, d, nf)
        return "lt" if ta < tb else ("eq" if ta == tb else "gt")

    for dom in (INTS + [None], STRS + [None]):
        for a in dom:
            for b in dom:
                for d in (False, True):
                    for nf in (False, True):
                        req = {"a": a, "b": b, "desc": d, "nf": nf}
                        exp_ = guarded(three, a, b, d, nf)
                        cases.append(("ordered", {"op": "ordered_cmp", **req}, exp_, False, None))
    # 5. generated Python for predicates (PythonGenerator + ENV) on a row
    for _ in range(chk.pick(500, 5000)):
        row = [rand_val(rng, c) for c in range(3)]
        e = rand_expr(rng, 3, depth=rng.choice([1, 2, 3]))
        cases.append(("eval", {"op": "eval", "row": row, "e": e}, guarded(real_eval, e, row), False, None))
    # 6. joins
    for _ in range(chk.pick(700, 7000)):
        L, R = rand_rows(rng), rand_rows(rng)
        side = rng.choice(["", "LEFT", "RIGHT", "FULL", "FULL", "LEFT"])
        algo = rng.choice(["hash", "nested"])
        cond = rand_expr(rng, 6, depth=rng.choice([0, 1, 2])) if rng.random() < (0.45 if algo == "hash" else 0.85) else None
        req = {"op": "join", "algo": algo, "side": side, "width": 6, "cond": cond, "L": rows_json(L), "R": rows_json(R)}
        ks = kj = None
        if algo == "hash":
            nk = rng.choice([1, 1, 2])
            ks = [rng.choice([0, 1]) for _ in range(nk)] if rng.random() < 0.8 else [2] * nk
            kj = [rng.choice([0, 1]) if k != 2 else 2 for k in ks]
            req["ks"], req["kj"] = ks, kj
        real_side = None if side == "" and rng.random() < 0.5 else side
        cases.append(("join:" + algo, req, guarded(real_join, algo, real_side, cond, ks, kj, L, R), False,
                      {"kind": "join", "side": side, "cond": cond, "ks": ks, "kj": kj, "L": L, "R": R}))
    # 7. aggregate()
    for _ in range(chk.pick(600, 6000)):
        rows = rand_rows(rng, max_rows=rng.choice([3, 5, 7]))
        keys = rng.choice([[], [0], [0], [1], [2], [0, 2], [0, 1]])
        aggs = []
        for _i in range(rng.randint(1, 3)):
            fn = rng.choice(["SUM", "COUNT", "MIN", "MAX"])
            aggs.append([fn, rng.choice([0, 1]) if fn == "SUM" else rng.choice([0, 1, 2])])
        limit = None if rng.random() < 0.6 else rng.choice([0, 1, 2, 3])
        offset = 0 if rng.random() < 0.7 else rng.choice([1, 2])
        cap = None if limit is None else limit + offset
        req = {"op": "aggregate", "keys": keys, "aggs": aggs, "cap": cap, "limit": limit, "rows": rows_json(rows)}
        cases.append(("aggregate", req, guarded(real_aggregate, keys, aggs, limit, offset, rows), False,
                      {"kind": "aggregate", "keys": keys, "aggs": aggs, "rows": rows} if limit is None else None))
    # 8. set_operation()
    for _ in range(chk.pick(500, 5000)):
        L, R = rand_rows(rng, 5), rand_rows(rng, 5)
        if L and rng.random() < 0.5:
            R = R + [rng.choice(L) for _ in range(rng.randint(1, 2))]
            rng.shuffle(R)
        kind = rng.choice(["union", "intersect", "except"])
        distinct = rng.random() < 0.5
        unordered = kind == "union" and distinct
        limit = None if unordered or rng.random() < 0.7 else rng.choice([0, 1, 2])
        req = {"op": "setop", "kind": kind, "distinct": distinct, "limit": limit, "L": rows_json(L), "R": rows_json(R)}
        cases.append(("setop:" + kind, req, guarded(real_setop, kind, distinct, limit, L, R), unordered,
                      {"kind": "setop", "op": kind, "distinct": distinct, "L": L, "R": R} if limit is None else None))
    # 9. sort()
    for _ in range(chk.pick(500, 5000)):
        rows = rand_rows(rng, 6)
        items = [[rng.choice([0, 1, 2]), rng.random() < 0.5, rng.random() < 0.5] for _ in range(rng.randint(1, 3))]
        limit = None if rng.random() < 0.5 else rng.choice([0, 1, 2, 3])
        offset = 0 if rng.random() < 0.6 else rng.choice([1, 2])
        req = {"op": "sort", "items": items, "limit": limit, "offset": offset, "rows": rows_json(rows)}
        cases.append(("sort", req, guarded(real_sort, items, limit, offset, rows), False,
                      {"kind": "sort", "items": items, "limit": limit, "offset": offset, "rows": rows}))
    # 10. scan() / static() / _project_and_filter
    for _ in range(chk.pick(300, 3000)):
        static = rng.random() < 0.1
        rows = [] if static else rand_rows(rng, 6)
        cond = None if static or rng.random() < 0.4 else rand_expr(rng, 3, depth=rng.choice([0, 1, 2]))
        if static:
            projs = [["lit", rng.choice([None, 1, "a"])] for _ in range(rng.randint(0, 2))] or None
        else:
            projs = None if rng.random() < 0.3 else [(["col", rng.randrange(3)] if rng.random() < 0.7 else rand_expr(rng, 3, depth=1))
                                                    for _ in range(rng.randint(1, 3))]
        limit = None if rng.random() < 0.5 else rng.choice([0, 1, 2, 3])
        offset = 0 if rng.random() < 0.6 else rng.choice([1, 2])
        cap = None if limit is None else limit + offset
        req = {"op": "scan", "static": static, "cond": cond, "projs": projs, "cap": cap, "offset": offset, "rows": rows_json(rows)}
        cases.append(("scan", req, guarded(real_scan, static, cond, projs, limit, offset, rows), False,
                      {"kind": "scan", "cond": cond, "projs": projs, "limit": limit, "offset": offset, "rows": rows}
                      if not static and limit is not None and projs and all(e[0] == "col" for e in projs) else None))
    # 11. _subquery_comparison (ANY / ALL)
    for _ in range(chk.pick(300, 3000)):
        dom = STRS if rng.random() < 0.25 else INTS
        fn = rng.choice(CMP_KEYS)
        v = None if rng.random() < 0.3 else rng.choice(dom)
        xs = [None if rng.random() < rng.choice([0.25, 0.25, 1.0]) else rng.choice(dom) for _ in range(rng.choice([0, 0, 1, 2, 3, 4]))]
        quant = rng.choice(["ANY", "ALL"])
        cases.append(("subq_cmp", {"op": "subq_cmp", "fn": fn, "quantifier": quant, "v": v, "xs": xs},
                      guarded(real_subq_cmp, fn, quant, v, xs), False, None))
    # 12. join() then aggregate() with COMPUTED operands; group keys from either table (the joined one mostly)
    for _ in range(chk.pick(250, 2500)):
        L, R = rand_rows(rng, 5, p_empty=0.05), rand_rows(rng, 5, p_empty=0.05)
        side = rng.choice(["", "LEFT", "RIGHT", "FULL"])
        if rng.random() < 0.8:
            k = rng.choice([0, 1])
            ks, kj = [k], [rng.choice([0, 1])]
        else:
            ks, kj = [], []
        operands = [rand_expr(rng, 6, depth=rng.choice([0, 1])) for _ in range(rng.randint(1, 2))]
        keys = rng.choice([[3], [4], [5], [4, 5], [0], [1, 4], [5, 3]])
        aggs = [[rng.choice(["SUM", "COUNT", "MIN", "MAX"]), 6 + rng.randrange(len(operands))] for _ in range(rng.randint(1, 2))]
        req = {"op": "join_agg", "side": side, "width": 6, "ks": ks, "kj": kj, "operands": operands, "keys": keys, "aggs": aggs,
               "L": rows_json(L), "R": rows_json(R)}
        cases.append(("join_agg", req, guarded(real_join_agg, side, ks, kj, operands, keys, aggs, L, R), False, None))
    return cases


def sort_rows_key(r):
    return [(v is None, type(v).__name__, v if v is not None else 0) for v in r]


def correspond(chk: Check) -> list:
    cases = build_cases(chk)
    got = chk.driver("C11", [json.dumps(req) for _, req, _, _, _ in cases])
    hints = []
    for (cat, req, want, unordered, hint), line in zip(cases, got):
        chk.count("corr:" + cat)
        try:
            g = json.loads(line)
        except Exception:
            raise HarnessError(f"model driver C11 printed non-JSON: {line[:200]}")
        if isinstance(g, str) and g.startswith("bad-op"):
            raise HarnessError(f"model driver C11 rejected {json.dumps(req)[:200]}: {g}")
        w = want
        if unordered and isinstance(g, list) and isinstance(w, list):
            g, w = sorted(g, key=sort_rows_key), sorted(w, key=sort_rows_key)
        nontrivial = not (isinstance(want, list) and not want)
        chk.case((cat, req), nontrivial=nontrivial, sample={"category": cat, "request": req, "answer": want} if chk.evaluations % 1499 == 0 else None)
        if isinstance(want, str) and want.startswith("raised:"):
            chk.count("corr-outcome:" + want)
        if canon(g) != canon(w):
            chk.correspondence_broken(f"{cat}: model and implementation differ", {"request": req, "model": g, "impl": want})
            if hint is not None:
                hints.append(hint)
    chk.corr_cases += len(cases)
    return hints


# ------------------------------------------------------------------------------------------ engines (assumption check + oracle)
def ucols(t, uniq):
    """column names of table t: a, b, c  -- or, in the unique-names universe, <t>_a, <t>_b, <t>_c"""
    return tuple(f"{t}_{c}" for c in COLS) if uniq else COLS


class Engines:
    def __init__(self, uniq=False):
        import sqlite3
        import duckdb

        self.lite = sqlite3.connect(":memory:")
        self.duck = duckdb.connect(":memory:")
        for t in ("x", "y", "z"):
            a, b, c = ucols(t, uniq)
            self.lite.execute(f"CREATE TABLE {t} ({a} INTEGER, {b} INTEGER, {c} TEXT)")
            self.duck.execute(f"CREATE TABLE {t} ({a} BIGINT, {b} BIGINT, {c} VARCHAR)")
        self.loaded = None

    def load(self, db):
        key = canon({k: rows_json(v) for k, v in db.items()})
        if key == self.loaded:
            return
        for t in ("x", "y", "z"):
            rows = [tuple(r) for r in db.get(t, [])]
            self.lite.execute(f"DELETE FROM {t}")
            self.duck.execute(f"DELETE FROM {t}")
            if rows:
                self.lite.executemany(f"INSERT INTO {t} VALUES (?, ?, ?)", rows)
                self.duck.executemany(f"INSERT INTO {t} VALUES (?, ?, ?)", rows)
        self.loaded = key

    @staticmethod
    def _norm(rows):
        return [[int(v) if isinstance(v, bool) else v for v in r] for r in rows]

    def run(self, db, sql, which=("sqlite", "duckdb")):
        """-> {engine: (cols, rows) | ('error', msg)}"""
        self.load(db)
        out = {}
        if "sqlite" in which:
            try:
                cur = self.lite.execute(sql)
                out["sqlite"] = ([d[0] for d in cur.description], self._norm(cur.fetchall()))
            except Exception as e:  # noqa
                out["sqlite"] = ("error", str(e)[:120])
        if "duckdb" in which:
            try:
                cur = self.duck.execute(sql)
                cols = [d[0] for d in cur.description]
                out["duckdb"] = (cols, self._norm(cur.fetchall()))
            except Exception as e:  # noqa
                out["duckdb"] = ("error", str(e)[:120])
        return out


_ENG = {}


def engines(uniq=False) -> Engines:
    if uniq not in _ENG:
        _ENG[uniq] = Engines(uniq)
    return _ENG[uniq]


def run_sqlglot(db, sql, uniq=False):
    """-> (cols, rows) | ('execute_error'|'sqlglot_error'|'leak', text)"""
    from sqlglot.errors import ExecuteError, SqlglotError
    from sqlglot.executor import execute
    from sqlglot.executor.table import Table

    schema = {t: dict(zip(ucols(t, uniq), ("INT", "INT", "TEXT"))) for t in ("x", "y", "z")}
    tables = {t: Table(columns=ucols(t, uniq), rows=[tuple(r) for r in db.get(t, [])]) for t in ("x", "y", "z")}
    try:
        res = execute(sql, schema=schema, tables=tables)
        return list(res.columns), Engines._norm(res.rows)
    except ExecuteError as e:
        return "execute_error", str(e)[:160]
    except SqlglotError as e:
        return "sqlglot_error", type(e).__name__ + ": " + str(e)[:120]
    except Exception as e:  # noqa
        return "leak", type(e).__name__ + ": " + str(e)[:120]


def compare_sql(db, sql, ordered, which=("sqlite", "duckdb"), uniq=False):
    """The property's statement on one (db, query). -> (status, detail).  uniq: the universe in which every table
    has its own column names (x_a, y_a, …), where the executor's known column-NAME-collision defects cannot fire."""
    eng = engines(uniq).run(db, sql, which)
    answers = {k: v for k, v in eng.items() if v[0] != "error"}
    if not answers:
        return "engine_error", str(eng)

    def norm(ans):
        cols, rows = ans
        return [c.lower() for c in cols], (rows if ordered else sorted(rows, key=sort_rows_key))

    normed = {k: norm(v) for k, v in answers.items()}
    vals = list(normed.values())
    if len(vals) == 2 and canon(vals[0]) != canon(vals[1]):
        return "engines_disagree", str(normed)
    want = vals[0]
    got = run_sqlglot(db, sql, uniq)
    if got[0] in ("execute_error", "sqlglot_error", "leak"):
        return got[0], got[1]
    g = norm(got)
    if canon(g) != canon(want):
        what = "column names" if canon(g[0]) != canon(want[0]) else "rows"
        return "violation", f"{what} differ: execute() -> {g[0]} {g[1]}; {'/'.join(sorted(answers))} -> {want[0]} {want[1]}"
    return "agree", ""



# ------------------------------------------------------------------------------------------ single-table queries (plan model)
QCOLS = ["a", "b", "c"]
AGGS_INT = ["SUM", "COUNT", "MIN", "MAX"]
AGGS_TEXT = ["COUNT", "MIN", "MAX"]


def rand_squery(rng, wf=False):
    """Query IR of Sem.Query (Lean): one table x(a INT, b INT, c TEXT).  wf=True stays inside the preconditions of
    single_table_query_spec; otherwise duplicate / shadowing names and DISTINCT+ORDER BY may occur (the model mirrors
    the executor there too)."""
    q = {"cols": QCOLS, "where": rand_expr(rng, 3, depth=rng.choice([0, 1, 2])) if rng.random() < 0.5 else None}
    grouped = rng.random() < 0.55
    names_pool = ["p", "q", "r", "s", "m", "n"] + ([] if wf else ["a", "b", "c", "p"])
    used = []

    def alias(default=None):
        if default is not None and rng.random() < 0.6 and (not wf or default not in used):
            n = default
        else:
            cands = [n for n in names_pool if not wf or n not in used]
            n = rng.choice(cands)
        used.append(n)
        return n

    outs = []
    if not grouped:
        q["group"] = None
        for _ in range(rng.randint(1, 3)):
            c = rng.randrange(3)
            outs.append(["col", c, alias(QCOLS[c])])
        q["having"] = None
    else:
        keys = rng.choice([[], [0], [2], [0, 2], [1, 0], [0]])
        q["group"] = keys
        for k in keys:
            if rng.random() < 0.8:
                outs.append(["col", k, alias(QCOLS[k])])
        for _ in range(rng.randint(0 if outs else 1, 2)):
            c = rng.randrange(3)
            outs.append(["agg", rng.choice(AGGS_TEXT if c == 2 else AGGS_INT), c, alias()])
        rng.shuffle(outs)
        if rng.random() < 0.3:
            c = rng.randrange(3)
            q["having"] = [rng.choice(AGGS_TEXT if c == 2 else AGGS_INT), c, rng.choice(["eq", "ne", "lt", "le", "gt", "ge"]),
                           rng.choice(STRS) if c == 2 and True else rng.choice(INTS)]
            if c == 2 and q["having"][0] == "COUNT":
                q["having"][3] = rng.choice([0, 1, 2])
        else:
            q["having"] = None
    q["outs"] = outs
    q["distinct"] = rng.random() < 0.25
    order = []
    if rng.random() < (0.5 if not (wf and q["distinct"]) else 0.0):
        pos = list(range(len(outs)))
        rng.shuffle(pos)
        total = wf or rng.random() < 0.7
        for p_ in (pos if total else pos[: rng.randint(1, len(pos))]):
            order.append([p_, rng.random() < 0.5, rng.random() < 0.5])
    q["order"] = order
    q["limit"], q["offset"] = None, 0
    if order and rng.random() < 0.5:
        q["limit"] = rng.choice([0, 1, 2, 3])
        q["offset"] = rng.choice([0, 0, 1, 2])
    elif not wf and not order and rng.random() < 0.1:
        q["limit"] = rng.choice([1, 2])
    return q


def squery_sql(q):
    names3 = [("x", c) for c in QCOLS]
    sel = []
    for o in q["outs"]:
        if o[0] == "col":
            sel.append(f"x.{QCOLS[o[1]]} AS {o[2]}")
        else:
            sel.append(f"{o[1]}(x.{QCOLS[o[2]]}) AS {o[3]}")
    sql = "SELECT " + ("DISTINCT " if q["distinct"] else "") + ", ".join(sel) + " FROM x"
    if q["where"] is not None:
        sql += " WHERE " + sql_of(q["where"], names3)
    if q["group"]:
        sql += " GROUP BY " + ", ".join(f"x.{QCOLS[k]}" for k in q["group"])
    if q["having"] is not None:
        f, c, op, lit = q["having"]
        sym = {"eq": "=", "ne": "<>", "lt": "<", "le": "<=", "gt": ">", "ge": ">="}[op]
        sql += f" HAVING {f}(x.{QCOLS[c]}) {sym} " + (("'%s'" % lit) if isinstance(lit, str) else str(lit))
    if q["order"]:
        keys = []
        for p_, d, nf in q["order"]:
            o = q["outs"][p_]
            ref = f"x.{QCOLS[o[1]]}" if q["group"] is None else o[-1]
            keys.append(f"{ref} {'DESC' if d else 'ASC'} NULLS {'FIRST' if nf else 'LAST'}")
        sql += " ORDER BY " + ", ".join(keys)
    if q["limit"] is not None:
        sql += f" LIMIT {q['limit']} OFFSET {q['offset']}"
    return sql


def real_dag(sql):
    """the real Step DAG of the optimized query, in the shape the Lean `plan` prints"""
    from sqlglot import exp, planner
    from sqlglot.optimizer import optimize

    schema = {"x": {"a": "INT", "b": "INT", "c": "TEXT"}}
    e = optimize(sql, schema, leave_tables_isolated=True)
    root = planner.Plan(e).root

    def projs(st):
        out = []
        for p_ in st.projections:
            inner = p_.this if isinstance(p_, exp.Alias) else p_
            if not isinstance(inner, exp.Column):
                return "unsupported:" + p_.sql()
            out.append([inner.name, p_.alias_or_name])
        return out

    def lim(st):
        return None if math.isinf(st.limit) else int(st.limit)

    def rec(st):
        deps = list(st.dependencies)
        if isinstance(st, planner.Scan):
            if deps or st.projections or st.condition or lim(st) is not None or st.offset:
                return {"kind": "Scan", "extra": True}
            return {"kind": "Scan"}
        if len(deps) != 1:
            return {"kind": type(st).__name__, "deps": len(deps)}
        base = {"projs": projs(st), "limit": lim(st), "offset": st.offset, "dep": rec(deps[0])}
        if isinstance(st, planner.Join):
            if st.joins:
                return {"kind": "Join", "joins": len(st.joins)}
            return {"kind": "Join", "cond": st.condition is not None, **base}
        if isinstance(st, planner.Aggregate):
            aggs, hav = [], None
            for a in st.aggregations:
                if a.alias == "_h":
                    h = a.this
                    op = {"EQ": "eq", "NEQ": "ne", "LT": "lt", "LTE": "le", "GT": "gt", "GTE": "ge"}.get(type(h).__name__, type(h).__name__)
                    lit = h.expression
                    v = None if isinstance(lit, exp.Null) else (lit.this if lit.is_string else int(lit.sql()))
                    hav = [type(h.this).__name__.upper(), h.this.this.name, op, v]
                else:
                    aggs.append([type(a.this).__name__.upper(), a.this.this.name if isinstance(a.this.this, exp.Column) else a.this.sql(), a.alias])
            d = {"kind": "Aggregate", "group": [[k, v.name] for k, v in st.group.items()], "aggs": aggs, "hav": hav, **base}
            if st.operands:
                d["operands"] = [o.sql() for o in st.operands]
            if (st.condition is not None) != (hav is not None):
                d["cond"] = st.condition.sql() if st.condition is not None else None
            return d
        if isinstance(st, planner.Sort):
            key = []
            for k in st.key:
                if not isinstance(k.this, exp.Column):
                    return {"kind": "Sort", "key": "unsupported:" + k.sql()}
                key.append([k.this.name, bool(k.args.get("desc")), bool(k.args.get("nulls_first"))])
            return {"kind": "Sort", "key": key, **base}
        return {"kind": type(st).__name__}

    return rec(root)


def squery_wf(q):
    """the preconditions of single_table_query_spec (Query.WF in Lean)"""
    names = [o[-1] for o in q["outs"]]
    if len(set(names)) != len(names):
        return False
    if q["distinct"] and q["order"]:
        return False
    if (q["limit"] is not None or q["offset"]) and not q["order"]:
        return False
    if q["group"] is None:
        # an alias equal to a table column's name must project that column (else it shadows it in the Sort sink)
        if q["order"] and any(o[2] in QCOLS and QCOLS[o[1]] != o[2] for o in q["outs"]):
            return False
    else:
        if any(n.startswith("_") for n in names):
            return False
    if q["order"] and sorted(p_ for p_, _, _ in q["order"]) != list(range(len(q["outs"]))):
        return False  # sequence claims need a total ORDER BY
    return True


def optimizer_attribution(db, sql, model, impl):
    """-> {"key", "opt_sql"} when the engines say: original text == model answer, optimized text == execute()'s answer
    (as bags), and the two differ; else None"""
    import sqlglot
    from sqlglot import exp
    from sqlglot.optimizer import optimize

    if not (isinstance(model, dict) and isinstance(impl, dict)):
        return None
    try:
        opt = optimize(sql, {"x": {"a": "INT", "b": "INT", "c": "TEXT"}}, leave_tables_isolated=True)
        opt_sql = opt.sql()
        e_orig, e_opt = engines().run(db, sql), engines().run(db, opt_sql)
    except Exception:  # noqa
        return None
    bag = lambda rows: canon(sorted(Engines._norm([tuple(x) for x in rows]), key=sort_rows_key))
    for name in ("sqlite", "duckdb"):
        if e_orig[name][0] == "error" or e_opt[name][0] == "error":
            return None
        if bag(e_orig[name][1]) != bag(model["rows"]) or bag(e_opt[name][1]) != bag(impl["rows"]):
            return None
    if bag(model["rows"]) == bag(impl["rows"]):
        return None

    def where_skel(tree):
        w = tree.find(exp.Where)
        return sql_skeleton("SELECT 1 FROM t WHERE " + w.this.sql()) .split(" WHERE ", 1)[1] if w is not None else "none"

    return {"key": "opt-where:" + where_skel(sqlglot.parse_one(sql)) + "=>" + where_skel(opt), "opt_sql": opt_sql}


def correspond_plan(chk: Check) -> None:
    """plan model vs real Step.from_expression (DAG shape), exec model vs real execute() (exact sequence), and the
    reference Query.eval vs SQLite / DuckDB on well-formed queries"""
    rng = chk.rng
    n = chk.pick(200, 2600)
    qs, dbs, lines = [], [], []
    for i in range(n):
        q = rand_squery(rng, wf=rng.random() < 0.6)
        rows = rand_rows(rng, 5)
        qs.append(q)
        dbs.append(rows)
        lines.append(json.dumps({"op": "plan", "q": q}))
        lines.append(json.dumps({"op": "exec_plan", "q": q, "rows": rows_json(rows)}))
        lines.append(json.dumps({"op": "sem_query", "q": q, "rows": rows_json(rows)}))
    got = chk.driver("C11", lines)
    shape_bad = exec_bad = sem_checked = 0
    for i, (q, rows) in enumerate(zip(qs, dbs)):
        sql = squery_sql(q)
        mplan, mexec, msem = (json.loads(x) for x in got[3 * i: 3 * i + 3])
        for m in (mplan, mexec, msem):
            if isinstance(m, str) and m.startswith("bad-op"):
                raise HarnessError(f"model driver C11 rejected query {q}: {m}")
        chk.count("corr:plan")
        try:
            rplan = real_dag(sql)
        except Exception as e:  # noqa
            rplan = "raised:" + type(e).__name__
        # optimize() may simplify a tautological WHERE away before the planner sees it: not a planner difference
        def join_of(d):
            while isinstance(d, dict) and d.get("kind") != "Join" and "dep" in d:
                d = d["dep"]
            return d if isinstance(d, dict) and d.get("kind") == "Join" else None

        jm, jr = join_of(mplan), join_of(rplan) if isinstance(rplan, dict) else None
        if jm and jr and jm.get("cond") is True and jr.get("cond") is False:
            jm["cond"] = False
            chk.count("plan:where-simplified-away-by-optimize")
        if canon(rplan) != canon(mplan):
            shape_bad += 1
            chk.correspondence_broken("plan: Step DAG of Step.from_expression differs from the model", {"sql": sql, "model": mplan, "impl": rplan})
        db = {"x": rows, "y": [], "z": []}
        real = run_sqlglot(db, sql)
        if real[0] in ("execute_error", "sqlglot_error", "leak"):
            r = "key-error" if real[0] == "execute_error" else "raised:" + real[0]
        else:
            r = {"cols": real[0], "rows": real[1]}
        m = mexec
        if isinstance(m, dict):
            m = {"cols": m["cols"], "rows": Engines._norm([tuple(x) for x in m["rows"]])}
        chk.case(("plan", sql, rows), nontrivial=bool(rows), sample={"sql": sql, "rows": rows, "answer": r} if i % 211 == 0 else None)
        if canon(m) != canon(r):
            # execute() = optimize() then plan + run.  If the reference engines, given the OPTIMIZED text, answer like
            # execute() while on the original text they answer like the model, the optimizer changed the meaning: that is
            # a C11 violation of the end-to-end statement (reported through the oracle path, matched against known
            # findings), not a broken executor tie.  The executor comparison itself is unchanged.
            att = optimizer_attribution(db, sql, m, r)
            if att is not None:
                chk.count("plan:optimizer-changed-semantics")
                chk.report_violation(att["key"], f"{sql} over {db}: optimize() rewrites it to {att['opt_sql']} which SQLite/DuckDB answer "
                                     f"like execute() ({r}); the original text gives {m}",
                                     {"kind": "sql", "db": {k: rows_json(v) for k, v in db.items()}, "sql": sql,
                                      "ordered": bool(q["order"]) and squery_wf(q), "which": ["sqlite", "duckdb"]})
                continue
            exec_bad += 1
            chk.correspondence_broken("exec(plan q): model and execute() differ", {"sql": sql, "rows": rows, "model": m, "impl": r})
        if squery_wf(q):
            ordered = bool(q["order"])
            eng = engines().run(db, sql)
            for name, ans in eng.items():
                if ans[0] == "error":
                    raise HarnessError(f"assumption check: {name} rejected {sql!r}: {ans[1]}")
                want = ans[1] if ordered else sorted(ans[1], key=sort_rows_key)
                have = Engines._norm([tuple(x) for x in msem])
                have = have if ordered else sorted(have, key=sort_rows_key)
                sem_checked += 1
                if canon(want) != canon(have):
                    raise HarnessError(f"assumption A-engine fails: Sem.Query.eval and {name} differ on {sql!r} over {rows}: Sem -> {have}, {name} -> {want}")
    chk.corr_cases += n
    chk.cov["plan_model"] = {"queries": n, "dag_shape_disagreements": shape_bad, "exec_disagreements": exec_bad, "sem_vs_engine_comparisons": sem_checked}

# ---- the Lean reference semantics against the engines (assumption A-engine / A-duck)
def validate_sem(chk: Check) -> None:
    rng = chk.rng
    n = chk.pick(150, 1500)
    reqs, sqls = [], []
    names6 = [("x", c) for c in COLS] + [("y", c) for c in COLS]
    for _ in range(n):
        db = {"x": rand_rows(rng), "y": rand_rows(rng), "z": []}
        r = rng.random()
        if r < 0.35:
            side = rng.choice(["", "LEFT", "RIGHT", "FULL"])
            on = rand_expr(rng, 6, depth=rng.choice([0, 1, 2]))
            if rng.random() < 0.6:
                on = ["and", ["cmp", "eq", ["col", rng.choice([0, 1])], ["col", rng.choice([3, 4])]], on] if rng.random() < 0.5 else \
                     ["cmp", "eq", ["col", rng.choice([0, 1])], ["col", rng.choice([3, 4])]]
            reqs.append({"op": "sem_join", "side": side, "on": on, "wS": 3, "wJ": 3, "L": rows_json(db["x"]), "R": rows_json(db["y"])})
            sqls.append((db, f"SELECT x.a, x.b, x.c, y.a, y.b, y.c FROM x {side or 'INNER'} JOIN y ON {sql_of(on, names6)}", False, ("sqlite", "duckdb")))
        elif r < 0.6:
            keys = rng.choice([[], [0], [2], [0, 2], [1]])
            aggs = [[rng.choice(["SUM", "COUNT", "MIN", "MAX"]), rng.choice([0, 1])] for _ in range(rng.randint(1, 3))]
            reqs.append({"op": "sem_group", "keys": keys, "aggs": aggs, "rows": rows_json(db["x"])})
            sel = [f"x.{COLS[k]}" for k in keys] + [f"{f}(x.{COLS[c]}) AS v{i}" for i, (f, c) in enumerate(aggs)]
            sqls.append((db, "SELECT " + ", ".join(sel) + " FROM x" + (" GROUP BY " + ", ".join(f"x.{COLS[k]}" for k in keys) if keys else ""), False, ("sqlite", "duckdb")))
        elif r < 0.8:
            kind = rng.choice(["union", "intersect", "except"])
            distinct = rng.random() < 0.5
            if db["x"] and rng.random() < 0.6:
                db["y"] = db["y"] + [rng.choice(db["x"])]
            reqs.append({"op": "sem_setop", "kind": kind, "distinct": distinct, "L": rows_json(db["x"]), "R": rows_json(db["y"])})
            which = ("sqlite", "duckdb") if distinct or kind == "union" else ("duckdb",)
            sqls.append((db, f"SELECT x.a, x.b, x.c FROM x {kind.upper()}{'' if distinct else ' ALL'} SELECT y.a, y.b, y.c FROM y", False, which))
        else:
            first = [[rng.choice([0, 1, 2]), rng.random() < 0.5, rng.random() < 0.5] for _ in range(rng.randint(1, 2))]
            items = first + [[c, False, False] for c in range(3)]  # total order
            limit = None if rng.random() < 0.5 else rng.choice([0, 1, 2])
            offset = 0 if rng.random() < 0.5 else 1
            reqs.append({"op": "sem_sort", "items": items, "limit": limit, "offset": offset, "rows": rows_json(db["x"])})
            ob = ", ".join(f"x.{COLS[c]} {'DESC' if d else 'ASC'} NULLS {'FIRST' if nf else 'LAST'}" for c, d, nf in items)
            lim = f" LIMIT {limit if limit is not None else 1000} OFFSET {offset}"
            sqls.append((db, f"SELECT x.a, x.b, x.c FROM x ORDER BY {ob}{lim}", True, ("sqlite", "duckdb")))
    got = chk.driver("C11", [json.dumps(r) for r in reqs])
    checked = disagree = 0
    for req, line, (db, sql, ordered, which) in zip(reqs, got, sqls):
        model = json.loads(line)
        if isinstance(model, str):
            raise HarnessError(f"model driver C11 rejected {json.dumps(req)[:200]}: {model}")
        m = model if ordered else sorted(model, key=sort_rows_key)
        eng = engines().run(db, sql, which)
        for name, ans in eng.items():
            if ans[0] == "error":
                raise HarnessError(f"assumption check: {name} rejected {sql!r}: {ans[1]}")
            rows = ans[1] if ordered else sorted(ans[1], key=sort_rows_key)
            checked += 1
            if canon(rows) != canon(m):
                disagree += 1
                raise HarnessError(f"assumption A-engine fails: Lean reference semantics and {name} differ on {sql!r} over {db}: "
                                   f"Sem -> {m}, {name} -> {rows}")
        chk.count("sem-vs-engines:" + req["op"])
    chk.cov["sem_vs_engines"] = {"comparisons": checked, "disagreements": disagree}


# ------------------------------------------------------------------------------------------ search
def hint_to_sql(h):
    """a disagreeing correspondence input as an end-to-end query over tables x, y"""
    names6 = [("x", c) for c in COLS] + [("y", c) for c in COLS]
    k = h["kind"]
    if k == "join":
        on = []
        if h["ks"]:
            on += [f"x.{COLS[a]} = y.{COLS[b]}" for a, b in zip(h["ks"], h["kj"])]
        if h["cond"] is not None:
            on.append("(" + sql_of(h["cond"], names6) + ")")
        sel = "SELECT x.a AS a, x.b AS b, x.c AS c, y.a AS d, y.b AS e, y.c AS f FROM x "
        if not on:
            if h["side"]:
                on = ["1 = 1"]
            else:
                return {"x": h["L"], "y": h["R"]}, sel + "CROSS JOIN y", False
        return {"x": h["L"], "y": h["R"]}, sel + f"{h['side'] or 'INNER'} JOIN y ON " + " AND ".join(on), False
    if k == "aggregate":
        sel = [f"x.{COLS[c]} AS k{i}" for i, c in enumerate(h["keys"])] + [f"{f}(x.{COLS[c]}) AS v{i}" for i, (f, c) in enumerate(h["aggs"])]
        g = (" GROUP BY " + ", ".join(f"x.{COLS[c]}" for c in h["keys"])) if h["keys"] else ""
        return {"x": h["rows"]}, "SELECT " + ", ".join(sel) + " FROM x" + g, False
    if k == "setop":
        return {"x": h["L"], "y": h["R"]}, (f"SELECT x.a AS a, x.b AS b, x.c AS c FROM x {h['op'].upper()}{'' if h['distinct'] else ' ALL'} "
                                           "SELECT y.a AS a, y.b AS b, y.c AS c FROM y"), False
    if k == "sort":
        items = h["items"] + [[c, False, False] for c in range(3)]
        ob = ", ".join(f"x.{COLS[c]} {'DESC' if d else 'ASC'} NULLS {'FIRST' if nf else 'LAST'}" for c, d, nf in items)
        lim = "" if h["limit"] is None and not h["offset"] else f" LIMIT {h['limit'] if h['limit'] is not None else 1000} OFFSET {h['offset']}"
        return {"x": h["rows"]}, f"SELECT x.a AS a, x.b AS b, x.c AS c FROM x ORDER BY {ob}{lim}", True
    return None


def sql_skeleton(sql):
    """structural key of a raw SQL text: identifiers -> id, literals -> lit"""
    import sqlglot
    from sqlglot import exp

    try:
        t = sqlglot.parse_one(sql)
    except Exception:  # noqa
        return "unparsable"
    for n in list(t.walk()):
        if isinstance(n, exp.Literal):
            n.replace(exp.Literal.string("lit") if n.is_string else exp.Literal.number(0))
    for n in list(t.find_all(exp.Identifier)):
        n.replace(exp.to_identifier("id"))
    return t.sql()


def shrink_rows(db, pred):
    db = {k: [tuple(r) for r in v] for k, v in db.items()}
    changed = True
    while changed:
        changed = False
        for t in list(db):
            i = 0
            while i < len(db[t]):
                cand = dict(db)
                cand[t] = db[t][:i] + db[t][i + 1:]
                if pred(cand):
                    db = cand
                    changed = True
                else:
                    i += 1
    for t in list(db):
        for i in range(len(db[t])):
            for c in range(3):
                if db[t][i][c] is not None:
                    cand = dict(db)
                    row = list(db[t][i])
                    row[c] = None
                    cand[t] = db[t][:i] + [tuple(row)] + db[t][i + 1:]
                    if pred(cand):
                        db = cand
    return db


def root_causes(ir, res=None) -> list:
    """Structural tags of a (minimised) IR naming the executor mechanisms a known defect lives in.
    They only make the violation key recognisable; they never suppress anything by themselves.
    `res` (the oracle's result record) gates the tags of order-only / column-only defects on the observed symptom,
    so that e.g. a DISTINCT query returning *duplicates* is never keyed as the known "DISTINCT loses ORDER BY"."""
    from vf.props import c11_oracle as O

    tags = set()
    same_cols = same_bag = None
    if res is not None and isinstance(res.get("got"), dict) and isinstance(res.get("want"), dict) and "rows" in res["got"] and "rows" in res["want"]:
        same_cols = res["got"].get("columns") == res["want"].get("columns")
        same_bag = sorted(map(canon, res["got"]["rows"])) == sorted(map(canon, res["want"]["rows"]))
    order_only = res is None or (same_cols and same_bag)
    columns_only = res is None or (same_cols is False)

    def is_plain_col(e):
        return e is not None and e[0] == "col"

    def fq(q):
        if q["k"] == "setop":
            def root_alias(a):
                return root_alias(a["l"]) if a["k"] == "setop" else a["from"]["as"]
            if root_alias(q["l"]) == root_alias(q["r"]):
                tags.add("rc:setop-arms-share-root-alias")
            for arm in (q["l"], q["r"]):
                if arm["k"] == "select" and (O._has_agg_proj(arm) or arm["group"]):
                    tags.add("rc:setop-arm-aggregate")
            return
        names = [p["as"] or (p["e"][2] if p["e"][0] == "col" else None) for p in q["proj"]]
        if len(set(names)) != len(names) and columns_only:
            tags.add("rc:duplicate-output-names")
        if q["distinct"] and q.get("order") and order_only:
            tags.add("rc:distinct-order")
        # ORDER BY <table column> where an output alias re-uses that column's name for a different expression
        if not q["joins"] and not q["group"] and not q["distinct"] and order_only:
            for k in q.get("order") or []:
                e = k["e"]
                if e[0] == "col" and any(p["as"] == e[2] and p["e"] != e for p in q["proj"]):
                    tags.add("rc:alias-shadows-order-column")
        sub_preds = []
        if q["where"] is not None:
            O._walk_expr(q["where"], lambda e: sub_preds.append(e) if e[0] in ("insub", "exists") else None, lambda _q: None)
        # an IN / EXISTS subquery in WHERE is unnested by optimize() into a LEFT JOIN: a join as far as the executor is concerned
        if q["joins"] or sub_preds:
            operands = []

            def fe(e):
                if e[0] == "agg" and not is_plain_col(e[2]):
                    operands.append(e)

            for e in O._sel_exprs(q):
                O._walk_expr(e, fe, lambda _q: None)
            for k in q.get("order") or []:
                if k["e"][0] != "out":
                    O._walk_expr(k["e"], fe, lambda _q: None)
            if operands:
                tags.add("rc:agg-operand-over-join")
            if q["group"] or O._has_agg_proj(q):
                tags.add("rc:aggregate-over-join")
            order_cols = []
            for k in q.get("order") or []:
                if k["e"][0] != "out":
                    O._walk_expr(k["e"], lambda e: order_cols.append(e) if e[0] == "col" else None, lambda _q: None)
            if order_cols and order_only:
                tags.add("rc:order-by-column-over-join")
            if q["distinct"]:
                tags.add("rc:distinct-over-join")

        # a projection / ORDER BY key that mixes a bare group-key column with an aggregate (same planner mechanism as HAVING)
        def mixes(e):
            bare = []

            def rec(x, inside_agg):
                if x[0] == "col" and not inside_agg:
                    bare.append(x)
                for c in O._subexprs(x):
                    rec(c, inside_agg or x[0] == "agg")

            rec(e, False)
            return bool(bare) and O._has_agg(e)

        if any(mixes(p["e"]) for p in q["proj"]) or any(k["e"][0] != "out" and mixes(k["e"]) for k in (q.get("order") or [])):
            tags.add("rc:projection-mixes-key-and-aggregate")
        # key-only HAVING containing a literal whose text is the NAME of a GROUP BY column (planner rebinds it)
        if q["having"] is not None and q["group"] and not O._has_agg(q["having"]):
            gnames = {k[2] for k in q["group"] if k[0] == "col"}
            lits = []
            O._walk_expr(q["having"], lambda e: lits.append(e[1]) if e[0] == "str" else None, lambda _q: None)
            if gnames & set(lits):
                tags.add("rc:having-literal-named-like-group-key")
        # HAVING that mixes a bare group-key column with aggregates (planner turns the whole HAVING into one aggregation)
        if q["having"] is not None:
            bare = []

            def rec(e, inside_agg):
                if e[0] == "col" and not inside_agg:
                    bare.append(e)
                for c in O._subexprs(e):
                    rec(c, inside_agg or e[0] == "agg")

            rec(q["having"], False)
            if bare and O._has_agg(q["having"]):
                tags.add("rc:having-mixes-key-and-aggregate")
        # optimizer rules reached through execute()'s call to optimize (C03 territory)
        if q["where"] is not None:
            def under_not(e, neg):
                if e[0] == "insub" and neg:
                    tags.add("rc:in-subquery-under-not")
                for c in O._subexprs(e):
                    under_not(c, neg or e[0] == "not")

            under_not(q["where"], False)
            ors = []
            O._walk_expr(q["where"], lambda e: ors.append(e) if e[0] == "or" else None, lambda _q: None)
            if ors and q["joins"]:
                tags.add("rc:or-in-where-over-join")
            if len(q["joins"]) >= 2 and any(j["side"] == "RIGHT" for j in q["joins"]):
                tags.add("rc:where-over-chained-right-join")
        # the same rule (pushdown_predicates.pushdown_dnf) also pushes one branch of an OR that sits in a JOIN's ON
        for j in q["joins"]:
            if j["on"] is not None:
                on_ors = []
                O._walk_expr(j["on"], lambda e: on_ors.append(e) if e[0] == "or" else None, lambda _q: None)
                if on_ors:
                    tags.add("rc:or-in-where-over-join")
        for j in q["joins"]:
            if j["side"] == "RIGHT" and j["on"] is not None:
                cols = []
                O._walk_expr(j["on"], lambda e: cols.append(e) if e[0] == "col" else None, lambda _q: None)
                if not cols:
                    tags.add("rc:right-join-constant-on")

    O._walk_query(ir, lambda e: None, fq)
    return sorted(tags)


NAME_COLLISION_TAGS = {"rc:agg-operand-over-join", "rc:order-by-column-over-join"}


def uniq_ir(ir):
    """the same query over tables whose columns are named <table>_<col>: every column reference is renamed, every
    output keeps its name through an explicit alias.  -> IR, or None when the probe would be inconclusive (an alias
    mapping to two tables, or a self-join)"""
    import copy
    from vf.props import c11_oracle as O

    ir = copy.deepcopy(ir)
    amap = {}
    ok = [True]

    def fq(q):
        if q["k"] != "select":
            return
        srcs = [q["from"]] + q["joins"]
        if len({src["t"] for src in srcs}) != len(srcs):
            ok[0] = False  # a self-join still shares column names in the renamed universe: the probe says nothing
        for src in srcs:
            if amap.setdefault(src["as"], src["t"]) != src["t"]:
                ok[0] = False
        for p_ in q["proj"]:
            if p_["as"] is None and p_["e"][0] == "col":
                p_["as"] = p_["e"][2]

    O._walk_query(ir, lambda e: None, fq)
    if not ok[0]:
        return None

    def fe(e):
        if e[0] == "col" and e[1] in amap and not e[2].startswith(amap[e[1]] + "_"):
            e[2] = amap[e[1]] + "_" + e[2]

    O._walk_query(ir, fe, lambda q: None)
    return ir


def persists_with_unique_names(db, ir) -> bool:
    """does the violation survive when no two tables share a column name?  (then it is NOT one of the executor's
    known column-name-collision defects)"""
    from vf.props import c11_oracle as O

    u = uniq_ir(ir)
    if u is None:
        return False
    try:
        sql = O.render(u)
    except Exception:  # noqa
        return False
    which = ("duckdb",) if O._needs_duckdb_only(ir) else ("sqlite", "duckdb")
    for _ in range(3):
        if compare_sql(db, sql, O.is_ordered(ir), which, uniq=True)[0] == "violation":
            return True
    return False


def violation_key(ir, res=None, db=None) -> str:
    from vf.props import c11_oracle as O

    tags = root_causes(ir, res)
    if db is not None and NAME_COLLISION_TAGS & set(tags) and persists_with_unique_names(db, ir):
        # wrong answer although no column name is shared: a different defect than the recorded name collisions
        tags = [t for t in tags if t not in NAME_COLLISION_TAGS] + ["uniq-names-still-wrong"]
    return ",".join(tags) + "|" + O.skeleton(ir)


def gen_interaction(rng):
    """Targeted family: DISTINCT / HAVING / ORDER BY / LIMIT over a GROUP BY whose projections are the keys or
    NON-INJECTIVE expressions of the keys, on one table whose rows make different groups collide under those
    expressions (NULL vs a COALESCE default, values a CASE threshold / product / sum does not separate)."""
    from vf.props import c11_oracle as O

    g = O._Gen(rng)
    t = rng.choice(O.TABLES)
    q = O._empty_select(t, t)
    cols = rng.sample(["a", "b", "c"], rng.choice([1, 1, 2, 2, 3]))
    keys = [["col", t, c] for c in cols]
    q["group"] = keys
    proj = []
    shown = keys if rng.random() < 0.75 else rng.sample(keys, max(1, len(keys) - 1))
    for kx in shown:
        typ = O.COLTYPE[kx[2]]
        if rng.random() < 0.7:
            e = g.keyexpr([kx] if rng.random() < 0.7 else keys, typ if rng.random() < 0.8 else "int")
        else:
            e = kx
        proj.append({"e": e, "as": None})
    if rng.random() < 0.3:
        proj.append({"e": g.agg([t], "int"), "as": None})
    names = set()
    for i, p in enumerate(proj):
        if p["e"][0] != "col" or p["e"][2] in names:
            p["as"] = "c%d" % i
        names.add(p["as"] or p["e"][2])
    q["proj"] = proj
    q["distinct"] = rng.random() < 0.75
    if rng.random() < 0.3:
        q["having"] = ["cmp", rng.choice(O.CMP_OPS), g.keyexpr(keys, "int"), ["int", rng.choice([0, 1])]] if rng.random() < 0.6 \
            else g.having([t], keys)
    if rng.random() < 0.25:
        q["where"] = g.pred([t], 1, None)
    if rng.random() < 0.5:
        g.order(q, False)
    if not O._valid(q):
        return None
    ints, texts = [None, None, 0, 0, 1, 2, -1], [None, None, "", "a", "b"]
    rows = []
    for _ in range(rng.randint(2, 6)):
        if rows and rng.random() < 0.25:
            rows.append(rng.choice(rows))
        else:
            rows.append((rng.choice(ints), rng.choice(ints), rng.choice(texts)))
    db = {x: [] for x in O.TABLES}
    db[t] = rows
    return db, q


def gen_alias_shadow(rng):
    """Targeted family: a plain single-table SELECT whose output alias re-uses the name of ANOTHER table column,
    ordered by that (qualified) table column first and then by every output (total order)."""
    from vf.props import c11_oracle as O

    t = rng.choice(O.TABLES)
    q = O._empty_select(t, t)
    cols = rng.sample(["a", "b", "c"], rng.choice([1, 2, 2, 3]))
    proj = []
    names = set()
    for c in cols:
        others = [x for x in ("a", "b", "c") if x != c and x not in names]
        al = rng.choice(others) if others and rng.random() < 0.6 else rng.choice(["p", "q", "r", c])
        if al in names:
            al = "c%d" % len(proj)
        names.add(al)
        proj.append({"e": ["col", t, c], "as": al})
    q["proj"] = proj
    if rng.random() < 0.3:
        q["where"] = O._Gen(rng).pred([t], 1, None)
    first = [{"e": ["col", t, c], "desc": rng.random() < 0.5, "nf": rng.random() < 0.5}
             for c in rng.sample(["a", "b", "c"], rng.choice([1, 2]))]
    rest = [{"e": ["out", p["as"]], "desc": rng.random() < 0.5, "nf": rng.random() < 0.5} for p in proj]
    q["order"] = first + rest
    if rng.random() < 0.3:
        q["limit"] = rng.randint(0, 3)
        q["offset"] = rng.choice([None, 1])
    if not O._valid(q):
        return None
    db = {x: [] for x in O.TABLES}
    db[t] = [(rng.choice([None, 0, 1, 2]), rng.choice([None, 0, 1, 2]), rng.choice([None, "", "a", "b"])) for _ in range(rng.randint(2, 5))]
    return db, q


def gen_join_agg(rng):
    """Targeted family, in the unique-column-names universe (so the recorded name-collision defects stay out of the
    way): GROUP BY over a join of 2-3 tables with COMPUTED aggregate operands (SUM(x_b + 1), MAX(x_b - y_a), COUNT(*)),
    group keys taken from joined (non-FROM) tables, >= 3 groups, join output not sorted by the key.
    -> (db, sql, ordered)"""
    tabs = rng.sample(["x", "y", "z"], rng.choice([2, 2, 3]))
    col = lambda t, c: f"{t}.{t}_{c}"
    sql_from = tabs[0]
    for i, t in enumerate(tabs[1:], 1):
        prev = rng.choice(tabs[:i])
        side = rng.choice(["INNER", "INNER", "LEFT", "LEFT", "RIGHT", "FULL"])
        on = f"{col(prev, 'a')} = {col(t, 'a')}"
        if rng.random() < 0.2:
            on += f" AND {col(t, 'b')} >= {rng.choice([0, 1, 10])}"
        sql_from += f" {side} JOIN {t} ON {on}"
    key_pool = [col(t, c) for t in tabs[1:] for c in ("b", "c", "a")]
    if rng.random() < 0.2:
        key_pool += [col(tabs[0], c) for c in ("b", "c")]
    keys = rng.sample(key_pool, rng.choice([1, 1, 2]))
    ints = [col(t, c) for t in tabs for c in ("a", "b")]
    aggs = []
    for _ in range(rng.randint(1, 2)):
        u = rng.random()
        if u < 0.15:
            aggs.append("COUNT(*)")
        elif u < 0.3:
            aggs.append(f"{rng.choice(['SUM', 'MIN', 'MAX', 'COUNT'])}({rng.choice(ints)})")
        else:
            a, b = rng.choice(ints), rng.choice(ints)
            operand = rng.choice([f"{a} + 1", f"{a} - {b}", f"{a} * 2", f"{a} + {b}", f"COALESCE({a}, 0) + 1"])
            aggs.append(f"{rng.choice(['SUM', 'SUM', 'MIN', 'MAX'])}({operand})")
    outs = [f"{k} AS k{i}" for i, k in enumerate(keys)] + [f"{a} AS v{i}" for i, a in enumerate(aggs)]
    names = [f"k{i}" for i in range(len(keys))] + [f"v{i}" for i in range(len(aggs))]
    sql = f"SELECT {', '.join(outs)} FROM {sql_from}"
    if rng.random() < 0.2:
        sql += f" WHERE {rng.choice(ints)} IS NOT NULL"
    sql += " GROUP BY " + ", ".join(keys)
    if rng.random() < 0.2:
        sql += f" HAVING {rng.choice(['SUM', 'MAX', 'COUNT'])}({rng.choice(ints)}) >= {rng.choice([0, 1, 2])}"
    ordered = rng.random() < 0.4
    if ordered:
        sql += " ORDER BY " + ", ".join(f"{n} {rng.choice(['ASC', 'DESC'])} NULLS {rng.choice(['FIRST', 'LAST'])}" for n in names)
        if rng.random() < 0.5:
            sql += f" LIMIT {rng.randint(1, 4)}"
    db = {t: [] for t in ("x", "y", "z")}
    ids = [1, 2, 3, 4, 5]
    for t in tabs:
        rows = []
        for _ in range(rng.randint(3, 6)):
            a = rng.choice(ids) if rng.random() < 0.92 else None
            b = rng.choice([10, 20, 30, 40, 11]) if rng.random() < 0.9 else None
            c = rng.choice(["p", "q", "r", "s"]) if rng.random() < 0.9 else None
            rows.append((a, b, c))
        rng.shuffle(rows)
        db[t] = rows
    return db, sql, ordered


def subq_class(sql):
    """family key of a gen_subq_pred query: predicate form, where it is used, correlated or not"""
    import re

    form = ("exists" if "EXISTS" in sql else "notin" if " NOT IN (" in sql else "in" if " IN (SELECT" in sql
            else "all" if " ALL (" in sql else "any")
    place = "case" if "CASE WHEN" in sql else "where"
    corr = "corr" if re.search(r"s\.[ab] (=|>=) [xyz]\.", sql) else "uncorr"
    if " AS ta, " in sql:
        form = "scalar" if re.search(r"\(SELECT (COUNT|MAX|SUM)", sql) else form
        return f"subq2:{form}:{place}"
    return f"subq:{form}:{place}:{corr}"


def gen_subq_pred(rng):
    """Targeted family: subquery predicates the executor evaluates itself -- [NOT] IN (SELECT …), op ANY / op ALL
    (SELECT …), [NOT] EXISTS -- correlated or not, x NULL probes x subquery results that are empty / all-NULL /
    NULL-containing.  The predicate is used in WHERE and/or shown through a CASE (TRUE -> 1, FALSE -> 0, UNKNOWN ->
    NULL), so the whole three-valued truth table is observable.  -> (db, sql, ordered, which)"""
    t, u = rng.choice([("x", "y"), ("y", "z"), ("x", "x"), ("z", "y")])
    kind = rng.choice(["int", "int", "text"])
    pc = rng.choice(["a", "b"]) if kind == "int" else "c"
    sc = rng.choice(["a", "b"]) if kind == "int" else "c"
    conds = []
    r = rng.random()
    if r < 0.3:
        conds.append(f"s.{sc} > 100" if kind == "int" else f"s.{sc} > 'zzz'")          # empty result
    elif r < 0.45:
        conds.append(f"s.{sc} IS NULL")                                                  # all-NULL result
    elif r < 0.6:
        conds.append(f"s.{sc} IS NOT NULL")
    if rng.random() < 0.4:
        conds.append(f"s.b = {t}.b" if rng.random() < 0.7 else f"s.a >= {t}.a")         # correlated
    where_s = (" WHERE " + " AND ".join(conds)) if conds else ""
    sub = f"(SELECT s.{sc} FROM {u} AS s{where_s})"
    which = ("sqlite", "duckdb")
    form = rng.random()
    if form < 0.35:
        pred = f"{t}.{pc} {'NOT IN' if rng.random() < 0.6 else 'IN'} {sub}"
    elif form < 0.75:
        op = rng.choice(["=", "<>", "<", "<=", ">", ">="])
        pred = f"{t}.{pc} {op} {rng.choice(['ALL', 'ALL', 'ANY'])} {sub}"
        which = ("duckdb",)  # SQLite has no quantified comparison
    else:
        sube = f"(SELECT 1 AS one FROM {u} AS s{where_s})"
        pred = f"{'NOT ' if rng.random() < 0.5 else ''}EXISTS {sube}"
    place = rng.random()
    show = f"CASE WHEN {pred} THEN 1 WHEN NOT ({pred}) THEN 0 END AS p"
    if place < 0.45:
        sql = f"SELECT {t}.a AS a, {t}.b AS b, {t}.c AS c FROM {t} WHERE {pred}"
    elif place < 0.8:
        sql = f"SELECT {t}.a AS a, {t}.b AS b, {t}.c AS c, {show} FROM {t}"
    else:
        sql = f"SELECT {t}.a AS a, {t}.b AS b, {t}.c AS c FROM {t} WHERE {t}.b IS NOT NULL AND {pred}"
    db = {k: [] for k in ("x", "y", "z")}

    def rows(n):
        return [(None if rng.random() < 0.35 else rng.choice([0, 1, 2]), None if rng.random() < 0.3 else rng.choice([0, 1, 2]),
                 None if rng.random() < 0.35 else rng.choice(["", "a", "b"])) for _ in range(n)]

    db[t] = rows(rng.randint(2, 4))
    if u != t:
        db[u] = [] if rng.random() < 0.2 else rows(rng.randint(1, 4))
    return db, sql, False, which


def gen_subq_two_outer(rng):
    """Targeted family: a correlated subquery the optimizer cannot unnest (non-equality / OR correlation) that reads
    columns of TWO outer tables with the SAME bare name (t.a and u.a), over outer rows that agree on one of them and
    differ on the other -- so a subquery-result memo keyed on fewer values than the subquery reads shows.
    -> (db, sql, ordered, which)"""
    t, u, v = rng.sample(["x", "y", "z"], 3)
    c1, c2 = rng.choice([("a", "a"), ("a", "a"), ("b", "b"), ("a", "b")])
    first, second = (f"{t}.{c1}", f"{u}.{c2}") if rng.random() < 0.5 else (f"{u}.{c2}", f"{t}.{c1}")
    corr = rng.choice([f"s.a >= {first} AND s.b <= {second}", f"s.a > {first} OR s.b < {second}",
                       f"s.a <> {first} AND s.a <> {second}", f"s.b >= {first} AND s.a < {second}"])
    which = ("sqlite", "duckdb")
    form = rng.random()
    if form < 0.4:
        pred = f"{'NOT ' if rng.random() < 0.4 else ''}EXISTS (SELECT 1 AS one FROM {v} AS s WHERE {corr})"
        out = f"CASE WHEN {pred} THEN 1 ELSE 0 END AS p"
    elif form < 0.7:
        out = f"(SELECT {rng.choice(['COUNT(*)', 'MAX(s.a)', 'SUM(s.b)'])} FROM {v} AS s WHERE {corr}) AS p"
        pred = None
    else:
        op = rng.choice(["<", "<=", ">", ">=", "<>"])
        pred = f"{t}.b {op} {rng.choice(['ALL', 'ANY'])} (SELECT s.a FROM {v} AS s WHERE {corr})" if rng.random() < 0.5 \
            else f"{t}.b {'NOT IN' if rng.random() < 0.5 else 'IN'} (SELECT s.a FROM {v} AS s WHERE {corr})"
        if " ALL " in pred or " ANY " in pred:
            which = ("duckdb",)
        out = f"CASE WHEN {pred} THEN 1 WHEN NOT ({pred}) THEN 0 END AS p"
    join = rng.choice([f"{t} CROSS JOIN {u}", f"{t} LEFT JOIN {u} ON {t}.c = {u}.c", f"{t} INNER JOIN {u} ON {t}.b <> {u}.b"])
    sql = f"SELECT {t}.a AS ta, {t}.b AS tb, {u}.a AS ua, {u}.b AS ub, {out} FROM {join}"
    if pred is not None and rng.random() < 0.3:
        sql = f"SELECT {t}.a AS ta, {t}.b AS tb, {u}.a AS ua, {u}.b AS ub FROM {join} WHERE {pred}"
    db = {k: [] for k in ("x", "y", "z")}
    small = [0, 1, 2, 3]
    db[t] = [(rng.choice(small), rng.choice(small), rng.choice(["a", "b"])) for _ in range(rng.randint(2, 3))]
    db[u] = [(rng.choice(small), rng.choice(small), rng.choice(["a", "b"])) for _ in range(rng.randint(1, 3))]
    db[v] = [(rng.choice(small + [None]), rng.choice(small + [None]), None) for _ in range(rng.randint(2, 4))]
    return db, sql, False, which


def search(chk: Check, hints: list, budget_s: float) -> None:
    from vf.props import c11_oracle as O

    t0 = time.time()
    rng = chk.rng
    stats: dict[str, int] = {}
    examples: dict[str, list] = {}

    def bump(k, ex=None):
        stats[k] = stats.get(k, 0) + 1
        if ex is not None and len(examples.setdefault(k, [])) < 2:
            examples[k].append(ex)

    # 1. disagreeing correspondence inputs, as end-to-end queries
    for h in [h for h in hints if h["kind"] != "scan"][:200]:
        r = hint_to_sql(h)
        if r is None:
            continue
        db, sql, ordered = r
        which = ("duckdb",) if (" INTERSECT ALL " in sql or " EXCEPT ALL " in sql) else ("sqlite", "duckdb")
        st, detail = compare_sql(db, sql, ordered, which)
        bump("hint:" + st)
        chk.case(("hint", sql, db), nontrivial=True)
        if st == "violation":
            db2 = shrink_rows(db, lambda d: compare_sql(d, sql, ordered, which)[0] == "violation")
            detail = compare_sql(db2, sql, ordered, which)[1]
            chk.report_violation("sql:" + sql_skeleton(sql), f"{sql} over {db2}: {detail}",
                                 {"kind": "sql", "db": {k: rows_json(v) for k, v in db2.items()}, "sql": sql, "ordered": ordered, "which": list(which)})
        if len(chk.violations) >= 3:
            break
    # 1b. LIMIT / OFFSET without ORDER BY (scan hints): any answer is allowed that is a sub-bag of the unlimited answer
    #     with exactly min(limit, max(0, total - offset)) rows
    for h in [h for h in hints if h["kind"] == "scan"][:60]:
        names3 = [("x", c) for c in COLS]
        sel = ", ".join(f"x.{COLS[e[1]]} AS c{i}" for i, e in enumerate(h["projs"]))
        base = f"SELECT {sel} FROM x" + (f" WHERE {sql_of(h['cond'], names3)}" if h["cond"] is not None else "")
        db = {"x": h["rows"], "y": [], "z": []}
        full = engines().run(db, base)
        if any(v[0] == "error" for v in full.values()) or canon(sorted(full["sqlite"][1], key=sort_rows_key)) != canon(sorted(full["duckdb"][1], key=sort_rows_key)):
            continue
        total = full["sqlite"][1]
        sql = base + f" LIMIT {h['limit']} OFFSET {h['offset']}"
        got = run_sqlglot(db, sql)
        bump("hint:scan")
        if got[0] in ("execute_error", "sqlglot_error", "leak"):
            continue
        want_n = min(h["limit"], max(0, len(total) - h["offset"]))
        pool = [canon(r) for r in total]
        ok = len(got[1]) == want_n
        for r in got[1]:
            if canon(r) in pool:
                pool.remove(canon(r))
            else:
                ok = False
        if not ok:
            chk.report_violation("sql:" + sql_skeleton(sql), f"{sql} over {db}: execute() -> {got[1]}; every engine answer has {want_n} rows out of {total}",
                                 {"kind": "limit", "db": {k: rows_json(v) for k, v in db.items()}, "sql": sql, "base": base,
                                  "limit": h["limit"], "offset": h["offset"]})
            break
    # 2. corpus + random queries of the fragment
    tried = 0
    while time.time() - t0 < budget_s and len(chk.violations) < 3:
        if rng.random() < 0.13:
            if rng.random() < 0.4:
                db, sql, ordered, which = gen_subq_two_outer(rng)
                chk.count("family:subquery-two-outer-tables")
            else:
                db, sql, ordered, which = gen_subq_pred(rng)
                chk.count("family:subquery-predicates")
            tried += 1
            st, detail = compare_sql(db, sql, ordered, which)
            bump("subq:" + st, {"sql": sql, "detail": detail[:200]} if st != "agree" else None)
            chk.case(("subq", sql, db), nontrivial=True, sample={"sql": sql, "db": db, "status": st} if tried % 97 == 1 else None)
            if st == "violation":
                db2 = shrink_rows(db, lambda d: compare_sql(d, sql, ordered, which)[0] == "violation")
                detail = compare_sql(db2, sql, ordered, which)[1]
                chk.report_violation(subq_class(sql), f"{sql} over {db2}: {detail}",
                                     {"kind": "sql", "db": {k: rows_json(v) for k, v in db2.items()}, "sql": sql,
                                      "ordered": ordered, "which": list(which)})
            continue
        if rng.random() < 0.12:
            db, sql, ordered = gen_join_agg(rng)
            tried += 1
            chk.count("family:join-aggregate-unique-names")
            st, detail = compare_sql(db, sql, ordered, uniq=True)
            bump("uniq:" + st, {"sql": sql, "detail": detail[:200]} if st != "agree" else None)
            chk.case(("uniq", sql, db), nontrivial=True, sample={"sql": sql, "db": db, "status": st} if tried % 97 == 1 else None)
            if st == "violation":
                db2 = shrink_rows(db, lambda d: compare_sql(d, sql, ordered, uniq=True)[0] == "violation")
                detail = compare_sql(db2, sql, ordered, uniq=True)[1]
                chk.report_violation("uniq-sql:" + sql_skeleton(sql), f"{sql} over {db2} (columns named <table>_<col>): {detail}",
                                     {"kind": "sql", "uniq": True, "db": {k: rows_json(v) for k, v in db2.items()}, "sql": sql,
                                      "ordered": ordered, "which": ["sqlite", "duckdb"]})
            continue
        fam = None
        u = rng.random()
        if u < 0.15:
            fam = gen_interaction(rng)
            if fam is not None:
                chk.count("family:distinct-group-keyexpr")
        elif u < 0.19:
            fam = gen_alias_shadow(rng)
            if fam is not None:
                chk.count("family:alias-shadows-column")
        if fam is not None:
            db, ir = fam
        else:
            db = O.gen_db(rng)
            ir = O.gen_query(rng)
        tried += 1
        res = O.run_case(db, ir, repeat=O._repeat_for(ir))
        st = res["status"]
        feats = O.features(ir)
        bump(st if st in ("agree", "violation", "execute_error", "engines_disagree") else st + ":" + res.get("detail", "")[:40],
             {"sql": res.get("sql"), "detail": res.get("detail", "")[:200]} if st not in ("agree",) else None)
        for f in feats:
            chk.count("feature:" + f)
        chk.count("search:" + st)
        chk.case(("search", res.get("sql"), db), nontrivial=any(db.values()),
                 sample={"sql": res.get("sql"), "db": db, "status": st} if tried % 397 == 1 else None)
        if st == "violation":
            db2, ir2 = O.shrink(db, ir, lambda d, q: O.run_case(d, q, repeat=O._repeat_for(q))["status"] == "violation", max_calls=600)
            res2 = O.run_case(db2, ir2, repeat=4)
            if res2["status"] != "violation":  # nondeterministic defect that did not show again: keep the unshrunk case
                db2, ir2, res2 = db, ir, res
            chk.report_violation(violation_key(ir2, res2, db2), f"{res2['sql']} over {db2}: {res2.get('detail', '')} differ: execute() -> "
                                 f"{res2.get('got')}; engines -> {res2.get('want')}",
                                 {"kind": "ir", "db": db2, "ir": ir2, "sql": res2["sql"]})
    chk.search_info = {"ran": True, "budget_s": budget_s, "queries": tried, "hints": len(hints), "statuses": stats,
                       "examples": {k: v for k, v in examples.items() if k != "agree"},
                       "oracle": "execute(sql, schema, tables) returns the column names and rows (multiset; sequence under a total ORDER BY) that "
                                 "SQLite and DuckDB return, or raises ExecuteError; cases where the two engines disagree are skipped and counted"}


def run(chk: Check) -> None:
    chk.trusted.append("C11: hand-written models Model/Exec.lean (env.sql_and/sql_or/sql_not/sql_in, null_if_any, filter_nulls + aggregates, ordered/"
                       "reverse_key, _join_matches, nested_loop_join, hash_join, _append_unmatched_join_rows, aggregate()'s loop, set_operation, "
                       "sort slices) and the reference semantics Sem/Rel.lean; tied by exact correspondence on generated rows")
    chk.assumptions += [
        "values are None/bool/int/str in type-homogeneous columns; Python == is structural equality on them (True == 1 is outside the fragment)",
        "SQLite 3.40 / DuckDB 1.5 implement the reference semantics Sem/Rel.lean on the fragment (re-validated on generated tables on every run)",
        "list.sort is a stable sort (modelled by Lean's stable List.mergeSort); dict preserves insertion order; Counter is a total map to counts",
        "planner.Step.from_expression, PythonGenerator (beyond the predicate fragment of `eval`), Context and optimize() are NOT modelled: "
        "their composition is covered only by the end-to-end search oracle (partial)",
    ]
    chk.write_generated(translate(chk))
    proved = chk.prove(MODULES, "Properties.C11", THEOREMS)
    hints = []
    try:
        validate_sem(chk)
        hints = correspond(chk)
        correspond_plan(chk)
    except HarnessError as e:
        if proved:
            raise
        chk.note(f"model driver unavailable ({e}); continuing with the search on the real code")
    budget = chk.pick(25, 420)
    if chk.broken:
        budget *= 2
    search(chk, hints, budget)


def replay(path: str) -> int:
    import sys

    sys.path.insert(0, REPO)
    rec = json.load(open(path))
    r = rec.get("replay")
    if not r:
        print(json.dumps(rec, indent=1)[:4000])
        return 1
    if r.get("kind") == "limit":
        db = {k: [tuple(x) for x in v] for k, v in r["db"].items()}
        total = engines().run(db, r["base"])["sqlite"][1]
        got = run_sqlglot(db, r["sql"])
        want_n = min(r["limit"], max(0, len(total) - r["offset"]))
        bad = got[0] not in ("execute_error", "sqlglot_error", "leak") and len(got[1]) != want_n
        print("replay:", f"VIOLATES: {r['sql']} returned {got[1]}; expected {want_n} rows" if bad else "holds")
        return 1 if bad else 0
    if r.get("kind") == "sql":
        st, detail = compare_sql({k: [tuple(x) for x in v] for k, v in r["db"].items()}, r["sql"], r["ordered"],
                                 tuple(r.get("which", ("sqlite", "duckdb"))), uniq=bool(r.get("uniq")))
    else:
        from vf.props import c11_oracle as O

        res = O.replay({"db": r["db"], "ir": r["ir"]})
        st, detail = res["status"], res.get("detail", "")
    print("replay:", ("VIOLATES: " + detail) if st == "violation" else f"holds ({st})")
    return 1 if st == "violation" else 0
