"""C08 — Syntax trees stay structurally consistent under any sequence of edits (DESIGN.md §4 C08).

translate : (LEAN-STAGES, filled by the integrator)
prove     : (LEAN-STAGES)
correspond: (LEAN-STAGES)
search    : the property's own oracle on the REAL code
            * `inv_violations(root)`: a re-implementation of the invariant that walks `node.args` itself
              (links / shared / stale-hash / closure), with `fresh_hash` recomputing hashes ignoring every cache
            * `eq_oracle(a, b)`: `a == b` iff same class and same normalised `structure`
            * random replayable histories of public operations (set/append/replace/pop/hash/==/copy/transform/
              replace_children/builders/unnest/flatten) over parsed and hand-built trees, checked after EVERY op
            * sweeps: parse_one over dialects, every optimizer rule (cumulative, the way optimize() does, and isolated)

Replay format of a history (all JSON, deterministic):
  {"start": [{"kind": "sql", "sql": ..., "dialect": null} | {"kind": "build", "spec": SPEC}, ...],
   "ops":   [{"id": n, "op": kind, "t": NODE, ...}, ...]}
NODE names are "<origin>.<j>": the j-th node (pre-order over live roots) first seen after the op with id <origin>
("s<i>" = start tree i).  SPEC is a small constructor language, see `build`.
Normalised structure note: `Expression.__hash__` folds a list argument into a sequence of (key, element) items, so
`Foo(this=x)` and `Foo(this=[x])` and a missing / None / False / [] argument are by construction the same structure;
`structure()` mirrors exactly that documented normalisation (lower-cased strings, raw args for Literal/Identifier).
"""

from __future__ import annotations

import inspect
import json
import sys
import time

from vf.core import Check, REPO, HarnessError

if REPO not in sys.path:
    sys.path.insert(0, REPO)

import sqlglot  # noqa: E402
from sqlglot import exp  # noqa: E402
from sqlglot.errors import SqlglotError  # noqa: E402

MODULES: list = []   # LEAN-STAGES: filled by the integrator
THEOREMS: list = []  # LEAN-STAGES: filled by the integrator

Expr = exp.Expr


# ------------------------------------------------------------------------------------------ independent arg walk
def children(node):
    """(arg_key, expected index, child) for every Expression stored in node.args — own walk, no iter_expressions."""
    out = []
    for k, v in node.args.items():
        if isinstance(v, Expr):
            out.append((k, None, v))
        elif isinstance(v, list):
            for i, x in enumerate(v):
                if isinstance(x, Expr):
                    out.append((k, i, x))
    return out


def nodes(root):
    """pre-order list of the nodes reachable from root (each object once)."""
    out, seen, stack = [], set(), [root]
    while stack:
        n = stack.pop()
        if id(n) in seen:
            continue
        seen.add(id(n))
        out.append(n)
        for _, _, c in reversed(children(n)):
            stack.append(c)
    return out


class _H:
    """stands for a child expression inside a hashed tuple: hash(_H(h)) goes through the same int reduction"""
    __slots__ = ("h",)

    def __init__(self, h):
        self.h = h

    def __hash__(self):
        return self.h

    def __eq__(self, other):
        return isinstance(other, _H) and other.h == self.h


def _node_hash(node, memo):
    def w(v):
        return _H(memo[id(v)]) if isinstance(v, Expr) else v

    h = hash(node.key)
    if node._hash_raw_args:
        for k in sorted(node.args):
            v = node.args[k]
            if v:
                h = hash((h, k, w(v)))
    else:
        for k in sorted(node.args):
            v = node.args[k]
            vt = type(v)
            if vt is list:
                for x in v:
                    if x is not None and x is not False:
                        h = hash((h, k, x.lower() if type(x) is str else w(x)))
                    else:
                        h = hash((h, k))
            elif v is not None and v is not False:
                h = hash((h, k, v.lower() if vt is str else w(v)))
    return h


def fresh_hashes(root):
    """id -> hash recomputed from scratch (every `_hash` cache ignored); None if the graph is not a tree / unhashable"""
    order = nodes(root)
    memo: dict = {}
    try:
        for n in reversed(order):
            memo[id(n)] = _node_hash(n, memo)
    except (KeyError, TypeError):
        return None
    return memo


def fresh_hash(root):
    m = fresh_hashes(root)
    return None if m is None else m[id(root)]


def inv_violations(root) -> list:
    """The C08 invariant relative to `root` (the root's own link fields are not examined). Entries: '<class>: text'."""
    out = []
    seen = {id(root)}
    stack = [root]
    order = []
    tree = True
    while stack:
        p = stack.pop()
        order.append(p)
        for k, i, c in reversed(children(p)):
            where = f"{type(p).__name__}.{k}" + ("" if i is None else f"[{i}]")
            if id(c) in seen:
                out.append(f"shared: {type(c).__name__} reached a second time at {where}")
                tree = False
                continue
            seen.add(id(c))
            if c.parent is not p:
                out.append(f"links: {type(c).__name__} stored at {where} records parent "
                           f"{type(c.parent).__name__ if c.parent is not None else None}"
                           f"{'' if c.parent is None or type(c.parent) is not type(p) else ' (another object)'}")
            if c.arg_key != k:
                out.append(f"links: {type(c).__name__} stored at {where} records arg_key {c.arg_key!r}")
            if c.index != i or (type(c.index) is bool):
                out.append(f"links: {type(c).__name__} stored at {where} records index {c.index!r}")
            if c._hash is None and p._hash is not None:
                out.append(f"closure: {type(c).__name__} at {where} has no cached hash but its parent has one")
            stack.append(c)
    if tree:
        memo: dict = {}
        try:
            for n in reversed(order):
                memo[id(n)] = _node_hash(n, memo)
        except (KeyError, TypeError):
            memo = {}
        if memo:
            for n in order:
                if n._hash is not None and n._hash != memo[id(n)]:
                    out.append(f"stale-hash: {type(n).__name__} caches {n._hash} but a from-scratch recomputation gives {memo[id(n)]}")
    return out


def vclass(v: str) -> str:
    return v.split(":", 1)[0]


_PRIO = {"shared": 0, "links": 1, "stale-hash": 2, "closure": 3}


def first_violation(vs):
    """(class, text) of the most fundamental entry (a shared node also shows up as a links entry), None if empty"""
    if not vs:
        return None
    v = min(vs, key=lambda x: _PRIO.get(vclass(x), 9))
    return vclass(v), v.split(": ", 1)[1]


_HOLE = ("<none>",)


def structure(root):
    """canonical cache- and pointer-independent key of the normalised structure `==` is meant to compare"""
    memo: dict = {}

    def w(v):
        if isinstance(v, Expr):
            return memo.get(id(v), ("<cycle>",))
        return v

    for n in reversed(nodes(root)):
        items = []
        if n._hash_raw_args:
            for k in sorted(n.args):
                v = n.args[k]
                if v:
                    items.append((k, (w(v),)))
        else:
            for k in sorted(n.args):
                v = n.args[k]
                if type(v) is list:
                    seq = tuple(_HOLE if (x is None or x is False) else (x.lower() if type(x) is str else w(x)) for x in v)
                    if seq:
                        items.append((k, seq))
                elif v is not None and v is not False:
                    items.append((k, (v.lower() if type(v) is str else w(v),)))
        memo[id(n)] = (type(n).__module__ + "." + type(n).__qualname__, tuple(items))
    return memo[id(root)]


def eq_oracle(a, b):
    """None if `a == b` agrees with structural equality, else a description"""
    real = a == b
    want = type(a) is type(b) and structure(a) == structure(b)
    if (a != b) == real:
        return f"eq: {type(a).__name__}: == gives {real} but != gives {a != b}"
    if real != want:
        return f"eq: {type(a).__name__} == {type(b).__name__} gives {real}; same normalised structure: {want}"
    return None


def dump(roots, with_hash=True):
    """pointer-level snapshot used to assert that read-only calls change nothing"""
    out = []
    for r in roots:
        for n in nodes(r):
            args = tuple((k, id(v) if isinstance(v, Expr) else
                          tuple(id(x) if isinstance(x, Expr) else repr(x) for x in v) if isinstance(v, list) else repr(v))
                         for k, v in n.args.items())
            out.append((id(n), type(n).__name__, id(n.parent) if n.parent is not None else None, n.arg_key, n.index,
                        n._hash if with_hash else None, args))
    return out


# ------------------------------------------------------------------------------------------ SQL generator
TABLES = {"x": ["a", "b", "c"], "y": ["a", "b", "c"], "z": ["a", "b", "c"]}
SCHEMA = {t: {c: "INT" for c in cols} for t, cols in TABLES.items()}
SCHEMA_MIXED = {"x": {"a": "INT", "b": "TEXT", "c": "DOUBLE"}, "y": {"a": "INT", "b": "TEXT", "c": "DATE"},
                "z": {"a": "BIGINT", "b": "BOOLEAN", "c": "DECIMAL(10, 2)"}}


class SqlGen:
    """compact random generator of base-dialect queries over TABLES (mostly resolvable, so that optimize() runs)"""

    def __init__(self, rng, comments=False, quoting=True):
        self.rng, self.comments, self.quoting = rng, comments, quoting
        self.n = 0

    def ident(self, name):
        r = self.rng.random()
        if self.quoting and r < 0.08:
            return f'"{name}"'
        if self.quoting and r < 0.18:
            return name.upper()
        return name

    def col(self, sc):
        alias, c = self.rng.choice(sc)
        if len({a for a, _ in sc}) == 1 and self.rng.random() < 0.3:
            return self.ident(c)
        return f"{self.ident(alias)}.{self.ident(c)}"

    def lit(self):
        r = self.rng.random()
        if r < 0.5:
            return str(self.rng.choice([0, 1, 2, 3, 10, 42, 100]))
        if r < 0.65:
            return self.rng.choice(["1.5", "0.25", "2e3"])
        if r < 0.9:
            return "'" + self.rng.choice(["a", "b", "Foo", "x y", "it''s", "", "2020-01-01"]) + "'"
        return self.rng.choice(["NULL", "TRUE", "FALSE"])

    def atom(self, sc):
        s = self.col(sc) if self.rng.random() < 0.65 else self.lit()
        if self.comments and self.rng.random() < 0.1:
            s += f" /* c{self.rng.randrange(9)} */"
        return s

    def expr(self, sc, d=2):
        rng = self.rng
        if d <= 0 or rng.random() < 0.35:
            return self.atom(sc)
        k = rng.randrange(10)
        e = lambda: self.expr(sc, d - 1)  # noqa: E731
        if k == 0 or k == 1:
            return f"{e()} {rng.choice(['+', '-', '*', '/', '%'])} {e()}"
        if k == 2:
            return f"({e()})"
        if k == 3:
            f = rng.choice(["ABS", "LOWER", "UPPER", "ROUND", "GREATEST", "LEAST", "SUBSTRING", "IF", "CONCAT", "LENGTH", "MY_UDF"])
            n = {"ABS": 1, "LOWER": 1, "UPPER": 1, "LENGTH": 1, "ROUND": 2, "SUBSTRING": 3, "IF": 3}.get(f, rng.randint(2, 4))
            args = [self.cond(sc, d - 1)] + [e() for _ in range(2)] if f == "IF" else [e() for _ in range(n)]
            return f"{f}({', '.join(args)})"
        if k == 4:
            whens = " ".join(f"WHEN {self.cond(sc, d - 1)} THEN {e()}" for _ in range(rng.randint(1, 2)))
            return f"CASE {whens}{' ELSE ' + e() if rng.random() < 0.7 else ''} END"
        if k == 5:
            return f"CAST({e()} AS {rng.choice(['INT', 'TEXT', 'DOUBLE', 'DECIMAL(10, 2)', 'DATE', 'BIGINT'])})"
        if k == 6:
            return f"-{self.atom(sc)}"
        if k == 7:
            return f"COALESCE({', '.join(e() for _ in range(rng.randint(2, 4)))})"
        if k == 8 and d >= 2:
            t = rng.choice(list(TABLES))
            return f"(SELECT {rng.choice(['MAX', 'MIN', 'SUM', 'COUNT'])}({self.ident(rng.choice(TABLES[t]))}) FROM {self.ident(t)})"
        return f"{e()} || {e()}"

    def cond(self, sc, d=2):
        rng = self.rng
        e = lambda: self.expr(sc, min(d, 1))  # noqa: E731
        if d > 0 and rng.random() < 0.4:
            k = rng.randrange(4)
            if k == 0:
                return f"{self.cond(sc, d - 1)} AND {self.cond(sc, d - 1)}"
            if k == 1:
                return f"{self.cond(sc, d - 1)} OR {self.cond(sc, d - 1)}"
            if k == 2:
                return f"NOT {self.cond(sc, d - 1)}"
            return f"({self.cond(sc, d - 1)})"
        k = rng.randrange(9)
        if k <= 2:
            return f"{e()} {rng.choice(['=', '<>', '<', '<=', '>', '>='])} {e()}"
        if k == 3:
            return f"{e()} {'NOT ' if rng.random() < 0.3 else ''}IN ({', '.join(self.lit() for _ in range(rng.randint(1, 4)))})"
        if k == 4:
            return f"{e()} BETWEEN {e()} AND {e()}"
        if k == 5:
            return f"{self.col(sc)} IS {'NOT ' if rng.random() < 0.5 else ''}NULL"
        if k == 6:
            return f"{self.col(sc)} LIKE '{rng.choice(['a%', '%b', '_'])}'"
        if k == 7 and d >= 1:
            t = rng.choice(list(TABLES))
            return f"{self.col(sc)} IN (SELECT {self.ident(rng.choice(TABLES[t]))} FROM {self.ident(t)})"
        if k == 8 and d >= 1:
            t = rng.choice(list(TABLES))
            c = rng.choice(TABLES[t])
            return f"EXISTS (SELECT 1 FROM {t} WHERE {t}.{c} = {self.col(sc)})"
        return f"{e()} = {e()}"

    def select(self, d=2, nproj=None, ctes=(), top=True):
        rng = self.rng
        sc, srcs = [], []
        for _ in range(rng.choice([1, 1, 1, 2, 2, 3])):
            self.n += 1
            r = rng.random()
            if ctes and r < 0.4:
                name, cols = rng.choice(ctes)
                alias = f"t{self.n}" if rng.random() < 0.5 else name
                if any(a == alias for a, _ in srcs):
                    alias = f"t{self.n}"
                srcs.append((alias, self.ident(name) + (f" AS {alias}" if alias != name else "")))
            elif d > 0 and r < 0.6:
                alias = f"s{self.n}"
                sub, cols = self.select(d - 1, top=False)
                srcs.append((alias, f"({sub}) AS {alias}"))
            else:
                name = rng.choice(list(TABLES))
                cols = TABLES[name]
                alias = name if (rng.random() < 0.5 and not any(a == name for a, _ in srcs)) else f"t{self.n}"
                srcs.append((alias, self.ident(name) + (f" AS {alias}" if alias != name else "")))
            sc += [(alias, c) for c in cols]
        frm = srcs[0][1]
        seen = [srcs[0][0]]
        for alias, s in srcs[1:]:
            seen.append(alias)
            jsc = [p for p in sc if p[0] in seen]
            r = rng.random()
            if r < 0.15:
                frm += f" CROSS JOIN {s}"
            elif r < 0.25:
                frm += f", {s}"
            else:
                frm += f" {rng.choice(['JOIN', 'LEFT JOIN', 'INNER JOIN', 'RIGHT JOIN', 'FULL JOIN'])} {s} ON {self.cond(jsc, 1)}"
        agg = rng.random() < 0.25
        n = nproj or rng.randint(1, 4)
        projs, names, group = [], [], []
        if agg:
            group = [self.col(sc) for _ in range(rng.randint(1, 2))]
        for i in range(n):
            if agg:
                e = group[i] if i < len(group) else f"{rng.choice(['SUM', 'COUNT', 'MAX', 'MIN', 'AVG'])}({self.expr(sc, 1)})"
            elif top and rng.random() < 0.06:
                e = f"SUM({self.col(sc)}) OVER (PARTITION BY {self.col(sc)} ORDER BY {self.col(sc)})"
            else:
                e = self.expr(sc, d)
            if not top or rng.random() < 0.6:
                nm = f"c{i}"
                e += f" AS {self.ident(nm)}" if top else f" AS {nm}"
            else:
                nm = None
            projs.append(e)
            names.append(nm or f"_c{i}")
        if top and nproj is None and not agg and rng.random() < 0.08:
            projs = [rng.choice(["*", srcs[0][0] + ".*"])]
        sql = f"SELECT {'DISTINCT ' if rng.random() < 0.08 else ''}{', '.join(projs)} FROM {frm}"
        if rng.random() < 0.6:
            sql += f" WHERE {self.cond(sc, d)}"
        if agg:
            sql += f" GROUP BY {', '.join(group)}"
            if rng.random() < 0.4:
                sql += f" HAVING {rng.choice(['SUM', 'COUNT', 'MAX'])}({self.col(sc)}) {rng.choice(['>', '<', '='])} {self.lit()}"
        if rng.random() < 0.3:
            keys = group if agg else [self.expr(sc, 1) for _ in range(rng.randint(1, 2))]
            sql += " ORDER BY " + ", ".join(k + rng.choice(["", "", " DESC", " ASC", " DESC NULLS LAST", " NULLS FIRST"]) for k in keys)
        if rng.random() < 0.2:
            sql += f" LIMIT {rng.choice([1, 5, 10])}" + (f" OFFSET {rng.choice([1, 2])}" if rng.random() < 0.3 else "")
        return sql, [c for c in names]

    def query(self, d=2):
        rng = self.rng
        r = rng.random()
        if self.comments and rng.random() < 0.3:
            pre = f"/* q{rng.randrange(9)} */ "
        else:
            pre = ""
        if r < 0.15:
            ctes, parts = [], []
            for i in range(rng.randint(1, 2)):
                sub, cols = self.select(max(d - 1, 0), ctes=tuple(ctes), top=False)
                ctes.append((f"cte{i}", cols))
                parts.append(f"cte{i} AS ({sub})")
            return pre + f"WITH {', '.join(parts)} " + self.select(d, ctes=tuple(ctes))[0]
        if r < 0.27:
            n = rng.randint(1, 3)
            op = rng.choice(["UNION", "UNION ALL", "UNION ALL", "EXCEPT", "INTERSECT"])
            return pre + f"{self.select(max(d - 1, 0), nproj=n)[0]} {op} {self.select(max(d - 1, 0), nproj=n)[0]}"
        return pre + self.select(d)[0]


def parse_quiet(sql, dialect=None):
    try:
        return sqlglot.parse_one(sql, dialect=dialect)
    except (SqlglotError, RecursionError, ValueError, TypeError, AttributeError, KeyError, IndexError):
        return None


# ------------------------------------------------------------------------------------------ SPEC language (fresh trees)
def build(spec):
    tag = spec[0]
    if tag == "col":
        return exp.column(spec[1], spec[2] if len(spec) > 2 else None)
    if tag == "num":
        return exp.Literal.number(spec[1])
    if tag == "str":
        return exp.Literal.string(spec[1])
    if tag == "id":
        return exp.to_identifier(spec[1], quoted=bool(spec[2]) if len(spec) > 2 else None)
    if tag == "sql":
        return sqlglot.parse_one(spec[1], dialect=spec[2] if len(spec) > 2 else None)
    if tag == "E":
        return getattr(exp, spec[1])(**{k: _bval(v) for k, v in spec[2].items()})
    if tag == "sel":
        q = exp.Select().select(*[build(p) for p in spec[1]]).from_(spec[2])
        return q.where(build(spec[3])) if len(spec) > 3 and spec[3] else q
    raise UnknownOp(f"spec tag {tag!r}")


def _bval(v):
    if isinstance(v, list):
        return build(v)
    if isinstance(v, dict):
        return [_bval(x) for x in v["l"]]
    return v


def rand_spec(rng, d=2):
    if d <= 0 or rng.random() < 0.35:
        k = rng.randrange(4)
        if k == 0:
            return ["col", rng.choice(["a", "b", "c", "A"])] + ([rng.choice(["x", "y"])] if rng.random() < 0.5 else [])
        if k == 1:
            return ["num", rng.choice([0, 1, 2, 7, -3])]
        if k == 2:
            return ["str", rng.choice(["a", "A", "foo", ""])]
        return ["E", rng.choice(["Null", "Star"]), {}] if rng.random() < 0.3 else ["E", "Boolean", {"this": rng.random() < 0.5}]
    s = lambda: rand_spec(rng, d - 1)  # noqa: E731
    k = rng.randrange(9)
    if k <= 2:
        return ["E", rng.choice(["And", "Or", "Add", "EQ", "Mul", "LT"]), {"this": s(), "expression": s()}]
    if k == 3:
        return ["E", rng.choice(["Paren", "Not", "Neg"]), {"this": s()}]
    if k == 4:
        return ["E", "Tuple", {"expressions": {"l": [s() for _ in range(rng.randint(0, 3))]}}]
    if k == 5:
        return ["E", "In", {"this": s(), "expressions": {"l": [s() for _ in range(rng.randint(1, 3))]}}]
    if k == 6:
        return ["E", "Coalesce", {"this": s(), "expressions": {"l": [s() for _ in range(rng.randint(1, 2))]}}]
    if k == 7:
        return ["E", "Alias", {"this": s(), "alias": ["id", rng.choice(["k", "K"]), rng.random() < 0.3]}]
    return ["sel", [s() for _ in range(rng.randint(1, 2))], rng.choice(["x", "y"]), s() if rng.random() < 0.5 else None]


def build_start(s):
    if s["kind"] == "sql":
        return sqlglot.parse_one(s["sql"], dialect=s.get("dialect"))
    if s["kind"] == "build":
        return build(s["spec"])
    raise UnknownOp(f"start kind {s['kind']!r}")


# ------------------------------------------------------------------------------------------ histories on the real code
class UnknownOp(Exception):
    pass


TRANSFORMS = {
    "id": lambda n, a: n,
    "col2lit": lambda n, a: exp.Literal.number(7) if isinstance(n, exp.Column) and str(n.name).lower() == a else n,
    "lit2paren": lambda n, a: (exp.Paren(this=exp.Literal(this=n.this, is_string=bool(n.args.get("is_string"))))
                               if isinstance(n, exp.Literal) and isinstance(n.this, str) else n),
    "copycols": lambda n, a: n.copy() if isinstance(n, exp.Column) else n,
    "copyall": lambda n, a: n.copy(),
    "droplist": lambda n, a: None if (n.parent is not None and type(n.index) is int and n.index % 2 == 1
                                      and isinstance(n, (exp.Literal, exp.Column, exp.Alias, exp.Paren))) else n,
    "dropcols": lambda n, a: None if (n.parent is not None and type(n.index) is int and isinstance(n, exp.Column) and str(n.name).lower() == a) else n,
}
CHILD_FUNS = {
    "id": lambda c: c,
    "copy": lambda c: c.copy(),
    "fresh": lambda c: exp.Literal.number(0) if isinstance(c, (exp.Literal, exp.Column)) else c,
    "dup": lambda c: [c, c.copy()],
    "drop": lambda c: [] if isinstance(c, (exp.Literal, exp.Paren)) else c,
    "wrap": lambda c: exp.Paren(this=c.copy()),
}
SELECT_BUILDERS = ("select", "where", "from_", "join", "group_by", "order_by", "limit", "having")
WRAP_BUILDERS = ("and_", "or_", "not_", "alias_", "as_", "paren", "subquery")
MAX_ROOTS = 10
DEBUG_EXC = None  # set to a list to collect (op, traceback) of ops that raised


class World:
    """live roots + names for every node ever seen (strong refs keep id()s unique)"""

    def __init__(self, start, trees=None):
        """start: list of start specs; `trees` (optional) are already built start trees used instead (C09 edits copies)"""
        self.reg: dict = {}
        self.names: dict = {}
        self.roots: list = []
        for i, s in enumerate(start if trees is None else trees):
            self.roots.append(build_start(s) if trees is None else s)
            self.register(f"s{i}")

    def live(self):
        out = {}
        for r in self.roots:
            for n in nodes(r):
                out.setdefault(id(n), n)
        return out

    def register(self, origin):
        j = 0
        for n in self.live().values():
            if id(n) not in self.names:
                name = f"{origin}.{j}"
                j += 1
                self.names[id(n)] = name
                self.reg[name] = n

    def root_of(self, node):
        for r in self.roots:
            if any(n is node for n in nodes(r)):
                return r
        return None

    def reroot(self, live_before, new, dead):
        cands, seen = [], set()
        dead_ids = {id(d) for d in dead}
        for c in list(self.roots) + [n for n in new if isinstance(n, Expr)]:
            if id(c) not in seen and id(c) not in dead_ids:
                seen.add(id(c))
                cands.append(c)
        reach = {}
        for c in cands:
            for n in nodes(c):
                reach[id(n)] = True
        # nodes that dropped out of every live tree (popped, overwritten, replaced-out) become live roots of their own,
        # top-most first -- unless part of their subtree was re-used by the operation (`node.replace(node.this)`,
        # builders that move the children of the clause they rebuild): such a husk is garbage, not a tree
        covered = set()
        for i, n in live_before.items():
            if i in reach or i in covered or i in dead_ids:
                continue
            sub = [id(m) for m in nodes(n)]
            if any(j in reach for j in sub):
                continue
            cands.append(n)
            covered.update(sub)
        inner = [{id(m) for m in nodes(c)[1:]} for c in cands]
        roots = []
        for ci, c in enumerate(cands):
            drop = False
            for di, _ in enumerate(cands):
                if di != ci and id(c) in inner[di] and not (id(cands[di]) in inner[ci] and ci < di):
                    drop = True
                    break
            if not drop:
                roots.append(c)
        if len(roots) > MAX_ROOTS:
            roots = roots[:2] + roots[-(MAX_ROOTS - 2):]
        self.roots = roots

    def check(self):
        seen: dict = {}
        for ri, r in enumerate(self.roots):
            v = first_violation(inv_violations(r))
            if v:
                return v[0], f"root {ri} ({type(r).__name__}): " + v[1]
            for n in nodes(r):
                if id(n) in seen and seen[id(n)] != ri:
                    return "shared", f"{type(n).__name__} is stored in live trees {seen[id(n)]} and {ri}"
                seen[id(n)] = ri
        return None


def _akind(node, k):
    v = node.args.get(k)
    return "list" if isinstance(v, list) else "absent" if v is None else "child" if isinstance(v, Expr) else "scalar"


def _mkval(w, val, target, live):
    """materialise an op value; returns (admissible, python value, kind-for-key, dead nodes)"""
    v = val["v"]
    if v == "none":
        return True, None, "None", []
    if v == "fresh":
        return True, build(val["spec"]), "fresh", []
    if v == "list":
        return True, [build(s) for s in val["items"]], f"list{len(val['items'])}", []
    if v == "scalar":
        return True, val["x"], type(val["x"]).__name__, []
    if v == "copy":
        n = w.reg.get(val["of"])
        if n is None or id(n) not in live:
            return False, None, "", []
        return True, n.copy(), "copy", []
    if v == "popped":
        n = w.reg.get(val["ref"])
        if n is None or not any(n is r for r in w.roots) or w.root_of(target) is n:
            return False, None, "", []
        return True, n, "popped", []
    if v == "desc":
        sub = nodes(target)
        if not 1 <= val["j"] < len(sub):
            return False, None, "", []
        return True, sub[val["j"]], "child" if sub[val["j"]].parent is target else "desc", [target] if target.parent is not None else []
    if v == "self":
        return True, target, "self", []
    raise UnknownOp(f"value kind {v!r}")


def step(w: World, op: dict):
    """execute one op on the real code. returns (status, violation | None, signature); status ok / skip / exc:<Type>"""
    kind = op["op"]
    live = w.live()

    def ref(name):
        n = w.reg.get(name)
        return n if n is not None and id(n) in live else None

    new: list = []
    dead: list = []
    viol = None
    sig = kind
    try:
        if kind == "hashroots":
            before = dump(w.roots, False)
            for ri, r in enumerate(w.roots):
                h, fh = hash(r), fresh_hash(r)
                if fh is not None and h != fh:
                    viol = ("stale-hash", f"hash(root {ri}: {type(r).__name__}) = {h}, from-scratch recomputation gives {fh}")
                    break
            if viol is None and dump(w.roots, False) != before:
                viol = ("readonly", "hash() changed something other than hash caches")
        elif kind in ("hash", "unnest", "flatten", "walk", "copy", "pop", "transform", "replace_children", "builder",
                      "set", "append", "replace"):
            t = ref(op["t"])
            if t is None:
                return "skip", None, sig
            if kind in ("replace", "pop") and t.parent is not None and any(t is r for r in w.roots):
                # an overwritten child keeps a stale parent pointer; calling replace()/pop() through such a handle would
                # edit a tree the node is no longer part of -- caller misuse, not generated
                return "skip", None, sig
            if kind == "hash":
                before = dump(w.roots, False)
                h, fh = hash(t), fresh_hash(t)
                if fh is not None and h != fh:
                    viol = ("stale-hash", f"hash({type(t).__name__}) = {h}, from-scratch recomputation gives {fh}")
                elif dump(w.roots, False) != before:
                    viol = ("readonly", "hash() changed something other than hash caches")
            elif kind in ("unnest", "flatten", "walk"):
                before = dump(w.roots)
                if kind == "unnest":
                    t.unnest()
                elif kind == "flatten":
                    list(t.flatten())
                else:
                    list(t.walk(bfs=bool(op.get("bfs", True))))
                    list(t.find_all(exp.Column))
                if dump(w.roots) != before:
                    viol = ("readonly", f"{kind}() changed the tree")
            elif kind == "copy":
                before = dump(w.roots)
                c = t.copy()
                new.append(c)
                if dump(w.roots) != before:
                    viol = ("readonly", "copy() changed the original")
                elif {id(n) for n in nodes(c)} & set(live):
                    viol = ("copy", "copy() shares a node with a live tree")
                elif structure(c) != structure(t) or not (c == t):
                    viol = ("copy", f"copy of {type(t).__name__} is not equal to the original")
            elif kind == "pop":
                sig = "pop(" + ("root" if t.parent is None else "elem" if t.index is not None else "arg") + ")"
                had_parent = t.parent is not None
                new.append(t.pop())
                if had_parent and not (t.parent is None and t.arg_key is None and t.index is None):
                    viol = ("links", f"popped {type(t).__name__} still records parent/arg_key/index "
                                     f"({type(t.parent).__name__ if t.parent is not None else None}, {t.arg_key!r}, {t.index!r})")
            elif kind == "transform":
                f, a = TRANSFORMS.get(op["fun"]), op.get("arg")
                if f is None:
                    raise UnknownOp(op["fun"])
                sig = f"transform({op['fun']},{'copy' if op['copy'] else 'inplace'})"
                new.append(t.transform(lambda n: f(n, a), copy=bool(op["copy"])))
            elif kind == "replace_children":
                f = CHILD_FUNS.get(op["fun"])
                if f is None:
                    raise UnknownOp(op["fun"])
                sig = f"replace_children({op['fun']})"
                exp.replace_children(t, f)
            elif kind == "builder":
                name, cp = op["name"], bool(op["copy"])
                args = [build(a) if isinstance(a, list) else a for a in op.get("args", [])]
                sig = f"{name}({'copy' if cp else 'inplace'})"
                if name in SELECT_BUILDERS:
                    if not isinstance(t, exp.Select):
                        return "skip", None, sig
                    kw = dict(op.get("kw", {}))
                    if name == "join" and "on" in kw and isinstance(kw["on"], list):
                        kw["on"] = build(kw["on"])
                    new.append(getattr(t, name)(*args, copy=cp, **kw))
                elif name in WRAP_BUILDERS:
                    # copy=False wraps the node itself into a new parent: only admissible on a detached root
                    if not cp and not any(t is r for r in w.roots):
                        return "skip", None, sig
                    if name in ("and_", "or_"):
                        new.append(getattr(t, name)(*args, copy=cp))
                    elif name == "not_":
                        new.append(t.not_(copy=cp))
                    elif name == "alias_":
                        new.append(exp.alias_(t, "k", copy=cp))
                    elif name == "as_":
                        new.append(t.as_("k", copy=cp))
                    elif name == "paren":
                        new.append(exp.paren(t, copy=cp))
                    else:
                        if not isinstance(t, exp.Query):
                            return "skip", None, sig
                        new.append(exp.subquery(t, "q", copy=cp))
                else:
                    raise UnknownOp(name)
            else:  # set / append / replace
                ok, val, vk, dead = _mkval(w, op["val"], t, live)
                if not ok:
                    return "skip", None, sig
                if kind == "set":
                    k = op["k"]
                    ak = _akind(t, k)
                    if "index" in op:
                        cur = t.args.get(k)
                        i = op["index"]
                        if not isinstance(cur, list) or not 0 <= i <= len(cur):
                            return "skip", None, sig
                        pos = "oob" if i == len(cur) else "idx"
                        ow = bool(op.get("overwrite", True))
                        sig = f"set({ak},{pos}{'' if ow else ',ins'},{vk})"
                        t.set(k, val, index=i, overwrite=ow)
                    else:
                        if isinstance(val, list) and ak != "list":
                            return "skip", None, sig
                        sig = f"set({ak},{vk})"
                        t.set(k, val)
                elif kind == "append":
                    if t._hash_raw_args:  # a list inside a Literal/Identifier arg is unhashable by construction: not generated
                        return "skip", None, sig
                    sig = f"append({_akind(t, op['k'])},{vk})"
                    t.append(op["k"], val)
                else:
                    pos = "root" if t.parent is None else "elem" if t.index is not None else "arg"
                    if isinstance(val, list) and pos != "elem":
                        return "skip", None, sig
                    sig = f"replace({pos},{vk})"
                    t.replace(val)
                    if pos != "root" and val is not t and not (t.parent is None and t.arg_key is None and t.index is None):
                        viol = ("links", f"replaced-out {type(t).__name__} still records parent/arg_key/index "
                                         f"({type(t.parent).__name__ if t.parent is not None else None}, {t.arg_key!r}, {t.index!r})")
                new += val if isinstance(val, list) else [val]
                new.append(t)
        elif kind == "eq":
            a, b = ref(op["a"]), ref(op["b"])
            if a is None or b is None:
                return "skip", None, sig
            before = dump(w.roots, False)
            msg = eq_oracle(a, b)
            if msg:
                viol = ("eq", msg.split(": ", 1)[1])
            elif dump(w.roots, False) != before:
                viol = ("readonly", "== changed something other than hash caches")
        else:
            raise UnknownOp(kind)
    except (UnknownOp, HarnessError):
        raise
    except Exception as e:  # noqa: BLE001 - any exception of the op ends the history
        if DEBUG_EXC is not None:
            import traceback
            DEBUG_EXC.append((op, traceback.format_exc()))
        return "exc:" + type(e).__name__, None, sig
    w.reroot(live, new, dead)
    w.register(str(op.get("id", "h")))
    return "ok", viol or w.check(), sig


def run_history(start, ops):
    """replay a history from scratch. returns None (holds / ended by an exception) or dict(at, cls, what, sigs)"""
    try:
        w = World(start)
    except UnknownOp:
        raise
    except Exception:  # noqa: BLE001
        return None
    v = w.check()
    if v:
        return {"at": -1, "cls": v[0], "what": v[1], "sigs": []}
    sigs = []
    for i, op in enumerate(ops):
        status, v, sig = step(w, op)
        if status.startswith("exc"):
            return None
        if status == "ok":
            sigs.append(sig)
        if v:
            return {"at": i, "cls": v[0], "what": v[1], "sigs": sigs}
    return None


def shrink_history(start, ops, cls, deadline):
    """delta-debug: drop ops (and unused start trees) while a violation of the same class still occurs"""
    def fails(s, o):
        r = run_history(s, o)
        return r if r and r["cls"] == cls else None

    r = fails(start, ops)
    if not r:
        return start, ops
    ops = ops[: r["at"] + 1]
    changed = True
    while changed and time.time() < deadline:
        changed = False
        for i in range(len(ops) - 1, -1, -1):
            cand = ops[:i] + ops[i + 1:]
            r2 = fails(start, cand)
            if r2:
                ops = cand[: r2["at"] + 1]
                changed = True
                break
    used = json.dumps(ops)
    for i in range(len(start) - 1, 0, -1):
        if f'"s{i}.' not in used and i == len(start) - 1 and fails(start[:i], ops):
            start = start[:i]
    return start, ops


def history_key(sigs, cls):
    return "hist:" + ";".join(sigs) + "|" + cls


# ---- random generation of ops (needs the current world)
def _pick_val(w, rng, target, live_nodes, allow_list, allow_scalar=True):
    r = rng.random()
    if r < 0.12:
        return {"v": "none"}
    if r < 0.42:
        return {"v": "fresh", "spec": rand_spec(rng, rng.choice([0, 1, 1, 2]))}
    if r < 0.62:
        return {"v": "copy", "of": w.names[id(rng.choice(live_nodes))]}
    if r < 0.80:
        troot = w.root_of(target)
        cands = [x for x in w.roots[1:] if x is not troot]
        if cands:
            return {"v": "popped", "ref": w.names[id(rng.choice(cands))]}
        return {"v": "fresh", "spec": rand_spec(rng, 1)}
    if r < 0.92 and allow_list:
        return {"v": "list", "items": [rand_spec(rng, rng.choice([0, 1])) for _ in range(rng.randint(0, 3))]}
    if allow_scalar:
        return {"v": "scalar", "x": rng.choice(["abc", "ABC", True, False, 3, ""])}
    return {"v": "fresh", "spec": rand_spec(rng, 0)}


def _pick_key(rng, t):
    keys = list(t.args)
    extra = [k for k in t.arg_types if k not in t.args]
    if keys and (not extra or rng.random() < 0.8):
        lists = [k for k in keys if isinstance(t.args[k], list)]
        if lists and rng.random() < 0.5:
            return rng.choice(lists)
        return rng.choice(keys)
    return rng.choice(extra) if extra else "this"


SQL_FRAGS = ["x.a", "y.b + 1", "COALESCE(x.c, 0)", "a", "LOWER(b) AS lb", "1 AS one", "'s'"]
COND_FRAGS = ["x.a = 1", "y.b > x.a", "a IS NULL", "x.a IN (1, 2)", "NOT b < 3", "TRUE"]


def gen_op(w: World, rng, opid: int) -> dict:
    live_nodes = list(w.live().values())
    nm = lambda n: w.names[id(n)]  # noqa: E731
    t = rng.choice(live_nodes)
    # prefer deeper / list-bearing targets a little: uniform choice is dominated by leaves anyway
    r = rng.random()
    op: dict = {"id": opid}
    if r < 0.13:
        op.update(op="hashroots")
    elif r < 0.22:
        op.update(op="hash", t=nm(t))
    elif r < 0.30:
        a = rng.choice(live_nodes)
        same = [n for n in live_nodes if type(n) is type(a)]
        b = rng.choice(same) if rng.random() < 0.8 else rng.choice(live_nodes)
        op.update(op="eq", a=nm(a), b=nm(b))
    elif r < 0.47:
        k = _pick_key(rng, t)
        cur = t.args.get(k)
        if isinstance(cur, list) and rng.random() < 0.6:
            val = _pick_val(w, rng, t, live_nodes, allow_list=True, allow_scalar=False)
            op.update(op="set", t=nm(t), k=k, val=val, index=rng.randint(0, len(cur)), overwrite=rng.random() < 0.6)
        else:
            op.update(op="set", t=nm(t), k=k, val=_pick_val(w, rng, t, live_nodes, allow_list=isinstance(cur, list)))
    elif r < 0.54:
        lists = [n for n in live_nodes if any(isinstance(v, list) for v in n.args.values())]
        if t._hash_raw_args:
            t = rng.choice([n for n in live_nodes if not n._hash_raw_args] or live_nodes)
        if lists and rng.random() < 0.8:
            t = rng.choice(lists)
            k = rng.choice([k for k, v in t.args.items() if isinstance(v, list)])
        else:
            k = _pick_key(rng, t)
        val = _pick_val(w, rng, t, live_nodes, allow_list=False, allow_scalar=rng.random() < 0.3)
        if val["v"] == "none" and rng.random() < 0.7:
            val = {"v": "fresh", "spec": rand_spec(rng, 1)}
        op.update(op="append", t=nm(t), k=k, val=val)
    elif r < 0.68:
        sub = nodes(t)
        q = rng.random()
        if len(sub) > 1 and q < 0.35:
            kids = [j for j, n in enumerate(sub) if j and n.parent is t]
            j = rng.choice(kids) if kids and rng.random() < 0.8 else rng.randrange(1, len(sub))
            val = {"v": "desc", "j": j}
        elif q < 0.40:
            val = {"v": "self"}
        else:
            val = _pick_val(w, rng, t, live_nodes, allow_list=t.index is not None, allow_scalar=False)
        op.update(op="replace", t=nm(t), val=val)
    elif r < 0.74:
        op.update(op="pop", t=nm(t))
    elif r < 0.79:
        op.update(op="copy", t=nm(t))
    elif r < 0.85:
        big = [x for x in w.roots if len(nodes(x)) > 2] or w.roots
        t = rng.choice(big) if rng.random() < 0.7 else t
        op.update(op="transform", t=nm(t), fun=rng.choice(sorted(TRANSFORMS)), arg=rng.choice(["a", "b", "c"]), copy=rng.random() < 0.4)
    elif r < 0.89:
        inner = [n for n in live_nodes if children(n)] or live_nodes
        op.update(op="replace_children", t=nm(rng.choice(inner)), fun=rng.choice(sorted(CHILD_FUNS)))
    elif r < 0.97:
        sels = [n for n in live_nodes if isinstance(n, exp.Select)]
        cp = rng.random() < 0.4
        if sels and rng.random() < 0.6:
            name = rng.choice(SELECT_BUILDERS)
            arg = lambda frags: rng.choice(frags) if rng.random() < 0.6 else rand_spec(rng, 1)  # noqa: E731
            args, kw = [], {}
            if name in ("select", "group_by", "order_by"):
                args = [arg(SQL_FRAGS if name == "select" else SQL_FRAGS[:4]) for _ in range(rng.randint(1, 2))]
            elif name in ("where", "having"):
                args = [arg(COND_FRAGS)]
            elif name == "from_":
                args = [rng.choice(["x", "y", "z AS zz"])]
            elif name == "join":
                args = [rng.choice(["y", "z", "x AS x2"])]
                if rng.random() < 0.7:
                    kw = {"on": arg(COND_FRAGS)}
            else:
                args = [rng.choice([1, 5])]
            if name in ("select", "where", "group_by", "order_by", "having") and rng.random() < 0.3:
                kw["append"] = False
            op.update(op="builder", t=nm(rng.choice(sels)), name=name, args=args, kw=kw, copy=cp)
        else:
            name = rng.choice(WRAP_BUILDERS)
            if not cp:
                t = rng.choice(w.roots)
            if name == "subquery":
                qs = [n for n in (w.roots if not cp else live_nodes) if isinstance(n, exp.Query)]
                t = rng.choice(qs) if qs else t
            args = [rng.choice(COND_FRAGS) if rng.random() < 0.5 else rand_spec(rng, 1)] if name in ("and_", "or_") else []
            op.update(op="builder", t=nm(t), name=name, args=args, copy=cp)
    else:
        op.update(op=rng.choice(["unnest", "flatten", "walk"]), t=nm(t))
    return op


def rand_start(rng, gen: SqlGen):
    start = []
    for _ in range(rng.choice([1, 1, 2])):
        r = rng.random()
        if r < 0.45:
            start.append({"kind": "sql", "sql": gen.query(rng.choice([0, 1, 1, 2])), "dialect": None})
        elif r < 0.6:
            sc = [("x", c) for c in "abc"] + [("y", c) for c in "abc"]
            start.append({"kind": "sql", "sql": gen.cond(sc, 2) if rng.random() < 0.6 else gen.expr(sc, 2), "dialect": None})
        else:
            start.append({"kind": "build", "spec": rand_spec(rng, rng.choice([1, 2, 2, 3]))})
    return start


def explore_history(chk: Check, start, max_ops, hash_every_op):
    """generate + execute one random history; returns (ops, violation dict | None)"""
    rng = chk.rng
    try:
        w = World(start)
    except Exception as e:  # noqa: BLE001
        chk.count("start-exc:" + type(e).__name__)
        return [], None
    v = w.check()
    if v:
        return [], {"at": -1, "cls": v[0], "what": v[1], "sigs": []}
    ops, sigs = [], []
    opid = 0
    for _ in range(max_ops):
        batch = [gen_op(w, rng, opid)]
        opid += 1
        if hash_every_op and batch[0]["op"] != "hashroots":
            batch.append({"id": opid, "op": "hashroots"})
            opid += 1
        for op in batch:
            status, v, sig = step(w, op)
            ops.append(op)
            if status == "ok":
                sigs.append(sig)
                chk.count("op:" + sig.split("(")[0])
            else:
                chk.count("op-" + status)
            if v:
                return ops, {"at": len(ops) - 1, "cls": v[0], "what": v[1], "sigs": sigs}
            if status.startswith("exc"):
                return ops, None
    return ops, None


def report_history(chk: Check, start, ops, cls, t_shrink=8.0):
    start2, ops2 = shrink_history(start, ops, cls, time.time() + t_shrink)
    r = run_history(start2, ops2)
    if not r:  # not reproducible from scratch: report unshrunk
        r = {"cls": cls, "what": "violation not reproduced on replay (order dependent?)", "sigs": [o["op"] for o in ops]}
        start2, ops2 = start, ops
    chk.report_violation(history_key(r["sigs"], r["cls"]), f"after {len(ops2)} public tree operations: {r['what']}",
                         {"start": start2, "ops": ops2})


# ------------------------------------------------------------------------------------------ sweeps
def all_dialects():
    from sqlglot.dialects.dialect import Dialects
    return [d.value or None for d in Dialects]


def tree_check(tree, with_real_hash=True):
    """inv + (real hash == fresh hash). returns (class, text) or None"""
    v = first_violation(inv_violations(tree))
    if v is None and with_real_hash:
        fh = fresh_hash(tree)
        if fh is not None and hash(tree) != fh:
            return "stale-hash", f"hash({type(tree).__name__}) differs from the from-scratch recomputation"
        v = first_violation(inv_violations(tree))
    return v


def sql_reductions(sql, dialect=None):
    """candidate smaller SQL texts (drop list elements / optional args, hoist children, lift sub-queries)"""
    tree = parse_quiet(sql, dialect)
    if tree is None:
        return
    n = len(nodes(tree))
    seen = {sql}
    for i in range(n):
        base = nodes(tree)[i]
        variants = ["lift"] if (i and isinstance(base, exp.Query)) else []
        if base.parent is not None:
            variants.append("pop")
            variants += [("hoist", j) for j in range(len(children(base)))]
        for var in variants:
            try:
                t = tree.copy()
                node = nodes(t)[i]
                if var == "lift":
                    out = node.copy().sql(dialect=dialect)
                elif var == "pop":
                    p, k = node.parent, node.arg_key
                    if node.index is None and p.arg_types.get(k, False):
                        continue
                    if node.index is not None and len(p.args[k]) == 1:
                        continue
                    node.pop()
                    out = t.sql(dialect=dialect)
                else:
                    c = children(node)[var[1]][2]
                    node.replace(c)
                    out = t.sql(dialect=dialect)
            except Exception:  # noqa: BLE001
                continue
            if out not in seen and len(out) < len(sql):
                seen.add(out)
                yield out


def shrink_sql(sql, fails, deadline, dialect=None):
    """greedy: take the first reduction that still fails, restart"""
    progress = True
    while progress and time.time() < deadline:
        progress = False
        for cand in sql_reductions(sql, dialect):
            if time.time() > deadline:
                break
            try:
                bad = fails(cand)
            except Exception:  # noqa: BLE001
                bad = False
            if bad:
                sql, progress = cand, True
                break
    return sql


def sweep_parse(chk: Check, gen: SqlGen, dialects, deadline):
    rng = chk.rng
    n = 0
    while time.time() < deadline and len(chk.violations) < 3:
        sql = gen.query(rng.choice([1, 2, 2, 3]))
        base = parse_quiet(sql)
        if base is None:
            chk.count("parse:base-error")
            continue
        for d in [None] + rng.sample(dialects, min(len(dialects), chk.pick(3, 6))):
            if time.time() > deadline:
                break
            try:
                text = sql if d is None else base.sql(dialect=d)
                tree = sqlglot.parse_one(text, dialect=d)
            except Exception as e:  # noqa: BLE001
                chk.count("parse:err:" + type(e).__name__)
                continue
            n += 1
            chk.count("parse:" + (d or "base"))
            v = tree_check(tree)
            chk.case(("parse", d, text), nontrivial=True, sample={"parse": text, "dialect": d} if n % 211 == 1 else None)
            if v:
                def fails(s, d=d, cls=v[0]):
                    t = parse_quiet(s, d)
                    r = t is not None and tree_check(t)
                    return bool(r) and r[0] == cls
                small = shrink_sql(text, fails, time.time() + 4, d)
                chk.report_violation(f"parse:{d or 'base'}|{v[0]}", f"parse_one output: {v[1]}",
                                     {"kind": "parse", "sql": small, "dialect": d}, context={"dialect": d or ""})
    return n


def rule_kwargs(rule, schema, dialect=None):
    """mirror of optimize(): rule-specific kwargs picked by inspecting the signature"""
    from sqlglot.schema import ensure_schema
    possible = {"db": None, "catalog": None, "schema": ensure_schema(schema, dialect=dialect), "dialect": dialect, "sql": None,
                "isolate_tables": True, "quote_identifiers": False}
    return {p: possible[p] for p in inspect.getfullargspec(rule).args if p in possible}


def run_rules(sql, schema, mode, pre_hash, only=None):
    """cumulative: every rule in RULES order, checking after EACH rule. isolated: qualify, then `only` on a copy.
    returns (rule name, class, text) | None ; raises sqlglot errors of the rules (caller ignores those)"""
    from sqlglot.optimizer.optimizer import RULES
    from sqlglot.optimizer.qualify import qualify
    tree = sqlglot.parse_one(sql)
    if mode == "cumulative":
        for rule in RULES:
            name = rule.__name__
            # seeded coin: populate the caches (through the real hash path) before some rules only, so that both
            # fully cached and partially cached trees reach the rule
            tree = rule(tree, **rule_kwargs(rule, schema))
            v = tree_check(tree, with_real_hash=name in pre_hash)
            if v:
                return name, v[0], v[1]
        v = tree_check(tree)
        return (RULES[-1].__name__, v[0], v[1]) if v else None
    tree = qualify(tree, **rule_kwargs(qualify, schema))
    for rule in RULES:
        name = rule.__name__
        if only is not None and name != only:
            continue
        t = tree.copy()
        if name in pre_hash:
            hash(t)
        try:
            out = rule(t, **rule_kwargs(rule, schema))
        except SqlglotError:
            continue
        v = tree_check(out)
        if v:
            return name, v[0], v[1]
    return None


def sweep_rules(chk: Check, gen: SqlGen, deadline):
    from sqlglot.optimizer.optimizer import RULES
    rng = chk.rng
    names = [r.__name__ for r in RULES]
    n = 0
    while time.time() < deadline and len(chk.violations) < 3:
        sql = gen.query(rng.choice([1, 2, 2, 3]))
        schema_name = "int" if rng.random() < 0.6 else "mixed"
        schema = SCHEMA if schema_name == "int" else SCHEMA_MIXED
        mode = "cumulative" if rng.random() < 0.65 else "isolated"
        pre_hash = [nm for nm in names if rng.random() < 0.5]
        try:
            v = run_rules(sql, schema, mode, pre_hash)
            chk.count("rules:" + mode)
        except (SqlglotError, RecursionError) as e:
            chk.count("rules:err:" + type(e).__name__)
            continue
        except Exception as e:  # noqa: BLE001 - crashes of rules are not this property's business
            chk.count("rules:exc:" + type(e).__name__)
            continue
        n += 1
        for nm in names:
            chk.count("rule:" + nm)
        chk.case(("rules", mode, schema_name, sql, tuple(pre_hash)), nontrivial=True,
                 sample={"rules": sql, "mode": mode} if n % 97 == 1 else None)
        if v:
            rule, cls, text = v

            def fails(s):
                try:
                    r = run_rules(s, schema, mode, pre_hash, only=rule if mode == "isolated" else None)
                except Exception:  # noqa: BLE001
                    return False
                return bool(r) and r[0] == rule and r[1] == cls
            small = shrink_sql(sql, fails, time.time() + 6)
            chk.report_violation(f"rule:{rule}|{cls}", f"after optimizer rule {rule} ({mode}): {text}",
                                 {"kind": "rules", "sql": small, "schema": schema_name, "mode": mode, "pre_hash": pre_hash, "rule": rule},
                                 context={"rule": rule})
    return n


# ------------------------------------------------------------------------------------------ search
CORPUS = [
    # "hash first, then mutate a grandchild, then compare"
    {"start": [{"kind": "sql", "sql": "SELECT a + 1 AS c, COALESCE(b, 2, 3) FROM x WHERE a IN (1, 2, 3)", "dialect": None}],
     "ops": [{"id": 0, "op": "hashroots"}, {"id": 1, "op": "set", "t": "s0.4", "k": "this", "val": {"v": "fresh", "spec": ["num", 5]}},
             {"id": 2, "op": "hashroots"}, {"id": 3, "op": "eq", "a": "s0.0", "b": "s0.0"}]},
]


def try_history(chk: Check, h, tag):
    """run a given history (hint / corpus) through the oracle; unknown op kinds -> skipped"""
    try:
        r = run_history(h["start"], h["ops"])
    except (UnknownOp, KeyError, TypeError, IndexError):
        chk.count(tag + ":skipped")
        return
    chk.count(tag + ":run")
    chk.case((tag, json.dumps(h, sort_keys=True, default=repr)), nontrivial=True)
    if r:
        report_history(chk, h["start"], h["ops"], r["cls"])


def search(chk: Check, hints: list, budget_s: float) -> None:
    t0 = time.time()
    rng = chk.rng
    gen = SqlGen(rng)
    for h in CORPUS + list(hints or []):
        try_history(chk, h, "hint")
    n_hist = n_ops = found = 0
    t_hist = t0 + budget_s * 0.55
    max_ops = chk.pick(40, 60)
    while time.time() < t_hist and len(chk.violations) < 3:
        start = rand_start(rng, gen)
        every = rng.random() < 0.5
        ops, v = explore_history(chk, start, rng.randint(3, max_ops), every)
        n_hist += 1
        n_ops += len(ops)
        chk.case(("hist", json.dumps(start), json.dumps(ops)), nontrivial=len(ops) > 1,
                 sample={"start": start, "ops": ops[:5]} if n_hist % 401 == 1 else None)
        if v:
            found += 1
            report_history(chk, start, ops, v["cls"])
    dialects = [d for d in all_dialects() if d]
    if chk.quick:
        dialects = rng.sample(dialects, 10)
    n_parse = sweep_parse(chk, gen, dialects, t0 + budget_s * 0.70)
    n_rules = sweep_rules(chk, gen, t0 + budget_s)
    chk.search_info = {"ran": True, "budget_s": budget_s, "histories": n_hist, "ops": n_ops, "violating_histories": found,
                       "parse_trees": n_parse, "dialects": len(dialects) + 1, "rule_pipelines": n_rules,
                       "elapsed_s": round(time.time() - t0, 1),
                       "oracle": "after every public op: links/shared/stale-hash/closure over every live tree (own arg walk, hashes recomputed "
                                 "from scratch), == iff same normalised structure; same checker on parse_one output and after every optimizer rule"}


# ------------------------------------------------------------------------------------------ run / replay
def run(chk: Check) -> None:
    # LEAN-STAGES (integrator): chk.trusted.append(...); chk.assumptions += [...]
    # LEAN-STAGES (integrator): chk.write_generated(translate(chk))
    # LEAN-STAGES (integrator): proved = chk.prove(MODULES, "Properties.C08", THEOREMS)
    hints: list = []
    # LEAN-STAGES (integrator): hints = correspond(chk)
    budget = chk.pick(25, 300)
    if chk.broken:
        budget *= 2
    search(chk, hints, budget)


def replay(path: str) -> int:
    rec = json.load(open(path))
    r = rec.get("replay")
    if not r:
        print(json.dumps(rec, indent=1))
        return 1
    if "ops" in r:
        res = run_history(r["start"], r["ops"])
        if res:
            print(f"replay: VIOLATES [{history_key(res['sigs'], res['cls'])}] after op #{res['at']}: {res['what']}")
            return 1
        print("replay: holds")
        return 0
    if r.get("kind") == "parse":
        t = parse_quiet(r["sql"], r.get("dialect"))
        v = t is not None and tree_check(t)
        print("replay:", f"VIOLATES: parse_one({r['sql']!r}, dialect={r.get('dialect')!r}): {v[0]}: {v[1]}" if v else "holds")
        return 1 if v else 0
    if r.get("kind") == "rules":
        schema = SCHEMA if r.get("schema") == "int" else SCHEMA_MIXED
        try:
            v = run_rules(r["sql"], schema, r["mode"], r.get("pre_hash", []), only=r.get("rule") if r["mode"] == "isolated" else None)
        except Exception as e:  # noqa: BLE001
            print(f"replay: rule pipeline raised {type(e).__name__}: {e}")
            return 0
        print("replay:", f"VIOLATES: after rule {v[0]} on {r['sql']!r}: {v[1]}: {v[2]}" if v else "holds")
        return 1 if v else 0
    print(json.dumps(rec, indent=1))
    return 1
